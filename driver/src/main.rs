// tsrun-facts: rustc_private driver that dumps the type-checked program of the
// `tsrun` crate (resolved MIR, ADT definitions, statics, type table) as JSON lines.
// It is injected with RUSTC_WORKSPACE_WRAPPER under `cargo +nightly check`.
// Nothing here executes tsrun code; rules over these facts live in /verif/rules.
#![feature(rustc_private)]
#![allow(clippy::all)]
extern crate rustc_abi;
extern crate rustc_driver;
extern crate rustc_hir;
extern crate rustc_index;
extern crate rustc_interface;
extern crate rustc_middle;
extern crate rustc_span;
extern crate rustc_infer;
extern crate rustc_trait_selection;

use rustc_driver::Compilation;
use rustc_hir::def::DefKind;
use rustc_hir::def_id::{DefId, LOCAL_CRATE};
use rustc_middle::mir::{
    self, AggregateKind, AssertKind, BorrowKind, CastKind, Const, ConstValue, Operand, Place,
    ProjectionElem, Rvalue, StatementKind, TerminatorKind,
};
use rustc_middle::ty::{self, Instance, Ty, TyCtxt, TypingEnv};
use rustc_span::Span;
use rustc_infer::infer::TyCtxtInferExt;
use rustc_trait_selection::infer::InferCtxtExt;
use std::collections::HashMap;
use std::fmt::Write as _;

fn esc(s: &str, out: &mut String) {
    out.push('"');
    for c in s.chars() {
        match c {
            '"' => out.push_str("\\\""),
            '\\' => out.push_str("\\\\"),
            '\n' => out.push_str("\\n"),
            '\r' => out.push_str("\\r"),
            '\t' => out.push_str("\\t"),
            c if (c as u32) < 0x20 => {
                let _ = write!(out, "\\u{:04x}", c as u32);
            }
            c => out.push(c),
        }
    }
    out.push('"');
}
fn q(s: &str) -> String {
    let mut o = String::with_capacity(s.len() + 2);
    esc(s, &mut o);
    o
}

struct Cx<'tcx> {
    tcx: TyCtxt<'tcx>,
    types: HashMap<Ty<'tcx>, usize>,
    type_rows: Vec<String>,
    paths: HashMap<DefId, String>,
}

impl<'tcx> Cx<'tcx> {
    fn path(&mut self, d: DefId) -> String {
        if let Some(p) = self.paths.get(&d) {
            return p.clone();
        }
        let p = ty::print::with_no_trimmed_paths!(self.tcx.def_path_str(d));
        self.paths.insert(d, p.clone());
        p
    }

    fn span(&self, sp: Span) -> String {
        let exp = sp.from_expansion();
        let sp2 = if exp { sp.source_callsite() } else { sp };
        let sm = self.tcx.sess.source_map();
        let lo = sm.lookup_char_pos(sp2.lo());
        let hi = sm.lookup_char_pos(sp2.hi());
        let f = match &lo.file.name {
            rustc_span::FileName::Real(r) => match r.local_path() {
                Some(p) => p.to_string_lossy().to_string(),
                None => format!("{:?}", lo.file.name),
            },
            o => format!("{:?}", o),
        };
        format!("{}:{}:{}-{}:{}{}", f, lo.line, lo.col.0 + 1, hi.line, hi.col.0 + 1, if exp { "!" } else { "" })
    }

    fn ty(&mut self, t: Ty<'tcx>) -> usize {
        if let Some(&i) = self.types.get(&t) {
            return i;
        }
        // reserve the slot first (recursive types go through ADT paths, not structurally, so no cycles)
        let idx = self.type_rows.len();
        self.types.insert(t, idx);
        self.type_rows.push(String::new());
        let s = ty::print::with_no_trimmed_paths!(t.to_string());
        let mut row = format!("{{\"s\":{}", q(&s));
        match t.kind() {
            ty::Adt(adt, args) => {
                let p = self.path(adt.did());
                let mut a = vec![];
                for ga in args.iter() {
                    if let Some(t2) = ga.as_type() {
                        a.push(self.ty(t2).to_string());
                    }
                }
                let _ = write!(row, ",\"k\":\"adt\",\"p\":{},\"a\":[{}],\"local\":{}", q(&p), a.join(","), adt.did().is_local());
            }
            ty::Ref(_, inner, m) => {
                let i = self.ty(*inner);
                let _ = write!(row, ",\"k\":\"ref\",\"m\":{},\"t\":{}", m.is_mut(), i);
            }
            ty::RawPtr(inner, m) => {
                let i = self.ty(*inner);
                let _ = write!(row, ",\"k\":\"ptr\",\"m\":{},\"t\":{}", m.is_mut(), i);
            }
            ty::Tuple(ts) => {
                let a: Vec<String> = ts.iter().map(|x| self.ty(x).to_string()).collect();
                let _ = write!(row, ",\"k\":\"tuple\",\"a\":[{}]", a.join(","));
            }
            ty::Array(inner, _) => {
                let i = self.ty(*inner);
                let _ = write!(row, ",\"k\":\"array\",\"t\":{}", i);
            }
            ty::Slice(inner) => {
                let i = self.ty(*inner);
                let _ = write!(row, ",\"k\":\"slice\",\"t\":{}", i);
            }
            ty::FnPtr(sig_tys, _) => {
                let io = sig_tys.skip_binder().inputs_and_output;
                let a: Vec<String> = io.iter().map(|x| self.ty(x).to_string()).collect();
                let _ = write!(row, ",\"k\":\"fnptr\",\"a\":[{}]", a.join(","));
            }
            ty::FnDef(d, _) => {
                let p = self.path(*d);
                let _ = write!(row, ",\"k\":\"fndef\",\"p\":{}", q(&p));
            }
            ty::Closure(d, args) => {
                let p = self.path(*d);
                let ups: Vec<String> = args.as_closure().upvar_tys().iter().map(|x| self.ty(x).to_string()).collect();
                let _ = write!(row, ",\"k\":\"closure\",\"p\":{},\"a\":[{}]", q(&p), ups.join(","));
            }
            ty::Param(p) => {
                let _ = write!(row, ",\"k\":\"param\",\"n\":{}", q(p.name.as_str()));
            }
            ty::Dynamic(preds, _) => {
                let p = preds.principal_def_id().map(|d| self.path(d)).unwrap_or_default();
                let _ = write!(row, ",\"k\":\"dyn\",\"p\":{}", q(&p));
            }
            ty::Bool | ty::Char | ty::Int(_) | ty::Uint(_) | ty::Float(_) | ty::Str | ty::Never => {
                let _ = write!(row, ",\"k\":\"prim\"");
            }
            ty::Alias(..) => {
                let _ = write!(row, ",\"k\":\"alias\"");
            }
            _ => {
                let _ = write!(row, ",\"k\":\"other\"");
            }
        }
        row.push('}');
        self.type_rows[idx] = row;
        idx
    }

    fn place(&mut self, body: &mir::Body<'tcx>, p: &Place<'tcx>) -> String {
        let mut o = format!("[{},[", p.local.as_u32());
        let mut first = true;
        for (base, elem) in p.iter_projections() {
            if !first {
                o.push(',');
            }
            first = false;
            match elem {
                ProjectionElem::Deref => o.push_str("\"*\""),
                ProjectionElem::Field(f, fty) => {
                    let bt = base.ty(&body.local_decls, self.tcx);
                    let fti = self.ty(fty);
                    match bt.ty.kind() {
                        ty::Adt(adt, _) => {
                            let v = match bt.variant_index {
                                Some(v) => adt.variant(v),
                                None => {
                                    if adt.is_enum() {
                                        // should not happen (field on enum without downcast)
                                        adt.variant(rustc_abi::VariantIdx::from_u32(0))
                                    } else {
                                        adt.non_enum_variant()
                                    }
                                }
                            };
                            let fname = v.fields[f].name.to_string();
                            let ap = self.path(adt.did());
                            let vn = if adt.is_enum() { q(v.name.as_str()) } else { "null".to_string() };
                            let _ = write!(o, "[\"f\",{},{},{},{},{}]", f.as_u32(), q(&fname), q(&ap), vn, fti);
                        }
                        ty::Closure(d, _) => {
                            let cp = self.path(*d);
                            let _ = write!(o, "[\"f\",{},\"\",{},null,{}]", f.as_u32(), q(&format!("closure:{}", cp)), fti);
                        }
                        _ => {
                            let _ = write!(o, "[\"f\",{},\"\",\"tuple\",null,{}]", f.as_u32(), fti);
                        }
                    }
                }
                ProjectionElem::Index(l) => {
                    let _ = write!(o, "[\"i\",{}]", l.as_u32());
                }
                ProjectionElem::ConstantIndex { offset, from_end, .. } => {
                    let _ = write!(o, "[\"ci\",{},{}]", offset, from_end);
                }
                ProjectionElem::Subslice { .. } => o.push_str("[\"sub\"]"),
                ProjectionElem::Downcast(_, vi) => {
                    let bt = base.ty(&body.local_decls, self.tcx);
                    let vn = match bt.ty.kind() {
                        ty::Adt(adt, _) => adt.variant(vi).name.to_string(),
                        _ => format!("{}", vi.as_u32()),
                    };
                    let _ = write!(o, "[\"d\",{},{}]", q(&vn), vi.as_u32());
                }
                _ => o.push_str("[\"o\"]"),
            }
        }
        o.push_str("]]");
        o
    }

    fn konst(&mut self, tenv: TypingEnv<'tcx>, c: &mir::ConstOperand<'tcx>) -> String {
        let tcx = self.tcx;
        let t = c.const_.ty();
        let ti = self.ty(t);
        let mut o = format!("[\"k\",{}", ti);
        match t.kind() {
            ty::FnDef(d, args) => {
                let un = self.path(*d);
                let res = match Instance::try_resolve(tcx, tenv, *d, args) {
                    Ok(Some(inst)) => Some(inst.def_id()),
                    _ => None,
                };
                let rp = res.map(|r| self.path(r));
                let _ = write!(o, ",{{\"fn\":{},\"u\":{},\"local\":{}}}", q(rp.as_deref().unwrap_or(&un)), q(&un), res.unwrap_or(*d).is_local());
            }
            ty::Bool | ty::Char | ty::Int(_) | ty::Uint(_) => {
                if let Some(si) = c.const_.try_eval_scalar_int(tcx, tenv) {
                    let size = si.size();
                    let bits = si.to_bits(size);
                    let v: i128 = if matches!(t.kind(), ty::Int(_)) { size.sign_extend(bits) as i128 } else { bits as i128 };
                    let _ = write!(o, ",{{\"int\":{}}}", q(&v.to_string()));
                } else {
                    o.push_str(",null");
                }
            }
            ty::Float(_) => {
                if let Some(si) = c.const_.try_eval_scalar_int(tcx, tenv) {
                    let size = si.size();
                    let bits = si.to_bits(size);
                    let f = if size.bytes() == 8 { f64::from_bits(bits as u64) } else if size.bytes() == 4 { f32::from_bits(bits as u32) as f64 } else { f64::NAN };
                    let _ = write!(o, ",{{\"float\":{}}}", q(&format!("{:?}", f)));
                } else {
                    o.push_str(",null");
                }
            }
            ty::Ref(_, inner, _) if matches!(inner.kind(), ty::Array(el, _) if *el == tcx.types.u8) => {
                // a `&[u8; N]` constant (the template of `format_args!`): its bytes, so that a rule can tell `{}` from `{:.0}`
                let mut done = false;
                if let ty::Array(_, len) = inner.kind() {
                    if let Some(n) = len.try_to_target_usize(tcx) {
                        if let Ok(cv) = c.const_.eval(tcx, tenv, c.span) {
                            if let ConstValue::Scalar(rustc_middle::mir::interpret::Scalar::Ptr(ptr, _)) = cv {
                                let (prov, offset) = ptr.prov_and_relative_offset();
                                if let rustc_middle::mir::interpret::GlobalAlloc::Memory(alloc) = tcx.global_alloc(prov.alloc_id()) {
                                    let start = offset.bytes() as usize;
                                    let end = start + n as usize;
                                    let a = alloc.inner();
                                    if end <= a.len() {
                                        let bytes = a.inspect_with_uninit_and_ptr_outside_interpreter(start..end);
                                        let hex: String = bytes.iter().map(|b| format!("{:02x}", b)).collect();
                                        let _ = write!(o, ",{{\"bytes\":{}}}", q(&hex));
                                        done = true;
                                    }
                                }
                            }
                        }
                    }
                }
                if !done {
                    o.push_str(",null");
                }
            }
            ty::Ref(_, inner, _) if inner.is_str() => {
                let mut done = false;
                if let Ok(cv) = c.const_.eval(tcx, tenv, c.span) {
                    if let ConstValue::Slice { .. } = cv {
                        if let Some(bytes) = cv.try_get_slice_bytes_for_diagnostics(tcx) {
                            let s = String::from_utf8_lossy(bytes);
                            let _ = write!(o, ",{{\"str\":{}}}", q(&s));
                            done = true;
                        }
                    }
                }
                if !done {
                    o.push_str(",null");
                }
            }
            _ => {
                // named constants / statics: record the item path if unevaluated
                match c.const_ {
                    Const::Unevaluated(uv, _) => {
                        let p = self.path(uv.def);
                        // a promoted `&Enum::Variant`: name the variant the promoted body builds
                        let mut variant: Option<String> = None;
                        let mut pstr: Option<String> = None;
                        if let Some(pi) = uv.promoted {
                            if uv.def.is_local() {
                                let proms = tcx.promoted_mir(uv.def);
                                if let Some(pb) = proms.get(pi) {
                                    let mut n = 0;
                                    for bb in pb.basic_blocks.iter() {
                                        for st in bb.statements.iter() {
                                            if let StatementKind::Assign(bx) = &st.kind {
                                                if let Rvalue::Aggregate(kind, _) = &bx.1 {
                                                    if let AggregateKind::Adt(d, vi, _, _, _) = &**kind {
                                                        let adt = tcx.adt_def(*d);
                                                        if adt.is_enum() {
                                                            n += 1;
                                                            variant = Some(format!("{}::{}", self.path(*d), adt.variant(*vi).name.as_str()));
                                                        }
                                                    }
                                                }
                                            }
                                        }
                                    }
                                    if n != 1 {
                                        variant = None;
                                    }
                                    // a promoted `&"text"` (the right-hand side of `segment == ".."`): the string it holds
                                    let mut strs: Vec<String> = vec![];
                                    for bb in pb.basic_blocks.iter() {
                                        for st in bb.statements.iter() {
                                            if let StatementKind::Assign(bx) = &st.kind {
                                                if let Rvalue::Use(Operand::Constant(kc), ..) = &bx.1 {
                                                    if let ty::Ref(_, inner, _) = kc.const_.ty().kind() {
                                                        if inner.is_str() {
                                                            if let Ok(cv) = kc.const_.eval(tcx, tenv, kc.span) {
                                                                if let ConstValue::Slice { .. } = cv {
                                                                    if let Some(bytes) = cv.try_get_slice_bytes_for_diagnostics(tcx) {
                                                                        strs.push(String::from_utf8_lossy(bytes).to_string());
                                                                    }
                                                                }
                                                            }
                                                        }
                                                    }
                                                }
                                            }
                                        }
                                    }
                                    if strs.len() == 1 {
                                        pstr = strs.pop();
                                    }
                                }
                            }
                        }
                        match (variant, pstr) {
                            (Some(v), _) => { let _ = write!(o, ",{{\"item\":{},\"variant\":{}}}", q(&p), q(&v)); }
                            (None, Some(ps)) => { let _ = write!(o, ",{{\"item\":{},\"pstr\":{}}}", q(&p), q(&ps)); }
                            (None, None) => { let _ = write!(o, ",{{\"item\":{}}}", q(&p)); }
                        }
                    }
                    _ => o.push_str(",null"),
                }
            }
        }
        o.push(']');
        o
    }

    fn operand(&mut self, body: &mir::Body<'tcx>, tenv: TypingEnv<'tcx>, op: &Operand<'tcx>) -> String {
        match op {
            Operand::Copy(p) => format!("[\"c\",{}]", self.place(body, p)),
            Operand::Move(p) => format!("[\"m\",{}]", self.place(body, p)),
            Operand::Constant(c) => self.konst(tenv, c),
            _ => "[\"rt\"]".to_string(),
        }
    }

    fn rvalue(&mut self, body: &mir::Body<'tcx>, tenv: TypingEnv<'tcx>, rv: &Rvalue<'tcx>) -> String {
        let tcx = self.tcx;
        match rv {
            Rvalue::Use(op, ..) => format!("[\"use\",{}]", self.operand(body, tenv, op)),
            Rvalue::Repeat(op, _) => format!("[\"repeat\",{}]", self.operand(body, tenv, op)),
            Rvalue::Ref(_, bk, p) => {
                let m = matches!(bk, BorrowKind::Mut { .. });
                let f = matches!(bk, BorrowKind::Fake(_));
                format!("[\"ref\",{},{}{}]", m, self.place(body, p), if f { ",\"fake\"" } else { "" })
            }
            Rvalue::ThreadLocalRef(d) => format!("[\"tls\",{}]", q(&self.path(*d))),
            Rvalue::RawPtr(k, p) => format!("[\"rawptr\",{},{}]", q(&format!("{:?}", k)), self.place(body, p)),
            Rvalue::Cast(kind, op, to) => {
                let from = op.ty(&body.local_decls, tcx);
                let k = match kind {
                    CastKind::PointerCoercion(pc, _) => format!("PointerCoercion:{:?}", pc),
                    o => format!("{:?}", o),
                };
                let fi = self.ty(from);
                let ti = self.ty(*to);
                format!("[\"cast\",{},{},{},{}]", q(&k), self.operand(body, tenv, op), fi, ti)
            }
            Rvalue::BinaryOp(op, ab) => {
                let ta = ab.0.ty(&body.local_decls, tcx);
                let ti = self.ty(ta);
                format!("[\"bin\",{},{},{},{}]", q(&format!("{:?}", op)), self.operand(body, tenv, &ab.0), self.operand(body, tenv, &ab.1), ti)
            }
            Rvalue::UnaryOp(op, a) => {
                let ta = a.ty(&body.local_decls, tcx);
                let ti = self.ty(ta);
                format!("[\"un\",{},{},{}]", q(&format!("{:?}", op)), self.operand(body, tenv, a), ti)
            }
            Rvalue::Discriminant(p) => {
                let t = p.ty(&body.local_decls, tcx).ty;
                let ti = self.ty(t);
                format!("[\"disc\",{},{}]", self.place(body, p), ti)
            }
            Rvalue::Aggregate(kind, ops) => {
                let k = match &**kind {
                    AggregateKind::Array(_) => "{\"k\":\"array\"}".to_string(),
                    AggregateKind::Tuple => "{\"k\":\"tuple\"}".to_string(),
                    AggregateKind::Adt(d, vi, _, _, active) => {
                        let adt = tcx.adt_def(*d);
                        let v = adt.variant(*vi);
                        let names: Vec<String> = match active {
                            Some(fi) => vec![q(v.fields[*fi].name.as_str())],
                            None => v.fields.iter().map(|f| q(f.name.as_str())).collect(),
                        };
                        format!(
                            "{{\"k\":\"adt\",\"p\":{},\"v\":{},\"fields\":[{}]}}",
                            q(&self.path(*d)),
                            if adt.is_enum() { q(v.name.as_str()) } else { "null".into() },
                            names.join(",")
                        )
                    }
                    AggregateKind::Closure(d, _) => format!("{{\"k\":\"closure\",\"p\":{}}}", q(&self.path(*d))),
                    AggregateKind::Coroutine(d, _) | AggregateKind::CoroutineClosure(d, _) => format!("{{\"k\":\"coroutine\",\"p\":{}}}", q(&self.path(*d))),
                    AggregateKind::RawPtr(..) => "{\"k\":\"rawptr\"}".to_string(),
                };
                let os: Vec<String> = ops.iter().map(|o| self.operand(body, tenv, o)).collect();
                format!("[\"agg\",{},[{}]]", k, os.join(","))
            }
            Rvalue::CopyForDeref(p) => format!("[\"use\",[\"c\",{}]]", self.place(body, p)),
            _ => "[\"other\"]".to_string(),
        }
    }

    fn callee(&mut self, body: &mir::Body<'tcx>, tenv: TypingEnv<'tcx>, func: &Operand<'tcx>) -> String {
        let tcx = self.tcx;
        let fty = func.ty(&body.local_decls, tcx);
        match fty.kind() {
            ty::FnDef(d, args) => {
                let un = self.path(*d);
                let (res, kind) = match Instance::try_resolve(tcx, tenv, *d, args) {
                    Ok(Some(inst)) => {
                        let k = match inst.def {
                            ty::InstanceKind::Item(_) => "item",
                            ty::InstanceKind::Virtual(..) => "virtual",
                            ty::InstanceKind::ClosureOnceShim { .. } => "closure_once",
                            ty::InstanceKind::FnPtrShim(..) => "fnptr_shim",
                            ty::InstanceKind::DropGlue(..) => "drop_glue",
                            ty::InstanceKind::CloneShim(..) => "clone_shim",
                            ty::InstanceKind::Intrinsic(_) => "intrinsic",
                            _ => "shim",
                        };
                        (Some(inst.def_id()), k)
                    }
                    _ => (None, "unresolved"),
                };
                let rd = res.unwrap_or(*d);
                let rp = self.path(rd);
                // Self type / first type arg (for trait calls and generic helpers)
                let mut targs = vec![];
                for ga in args.iter() {
                    if let Some(t2) = ga.as_type() {
                        targs.push(self.ty(t2).to_string());
                    }
                }
                let trait_of = tcx.trait_of_assoc(*d).map(|t| self.path(t));
                format!(
                    "{{\"d\":{},\"u\":{},\"r\":{},\"local\":{},\"targs\":[{}],\"trait\":{}}}",
                    q(&rp),
                    q(&un),
                    q(kind),
                    rd.is_local(),
                    targs.join(","),
                    trait_of.map(|t| q(&t)).unwrap_or("null".into())
                )
            }
            _ => {
                let ti = self.ty(fty);
                format!("{{\"ptr\":{},\"op\":{}}}", ti, self.operand(body, tenv, func))
            }
        }
    }

    fn dump_fn(&mut self, did: DefId, out: &mut String) {
        let tcx = self.tcx;
        let kind = tcx.def_kind(did);
        let body = tcx.optimized_mir(did);
        let tenv = TypingEnv::post_analysis(tcx, did);
        let path = self.path(did);
        let is_closure = matches!(kind, DefKind::Closure);
        // outermost non-closure parent
        let mut parent = did;
        while matches!(tcx.def_kind(parent), DefKind::Closure) {
            parent = tcx.parent(parent);
        }
        let parent_path = self.path(parent);
        let imp = tcx.impl_of_assoc(parent);
        let derived = imp.map(|i| tcx.is_automatically_derived(i)).unwrap_or(false);
        let (impl_trait, self_ty) = match imp {
            Some(i) => {
                let tr = tcx.impl_opt_trait_ref(i).map(|t| self.path(t.skip_binder().def_id));
                let st = tcx.type_of(i).instantiate_identity().skip_norm_wip();
                (tr, Some(self.ty(st)))
            }
            None => (None, None),
        };
        let (abi, vis, no_mangle, unsafe_fn, sig) = if !is_closure {
            let sig = tcx.fn_sig(did).instantiate_identity().skip_norm_wip();
            let abi = format!("{:?}", sig.abi());
            let vis = format!("{:?}", tcx.visibility(did));
            let attrs = tcx.codegen_fn_attrs(did);
            let nm = attrs.flags.contains(rustc_middle::middle::codegen_fn_attrs::CodegenFnAttrFlags::NO_MANGLE) || attrs.symbol_name.is_some();
            let uns = sig.safety().is_unsafe();
            let io = sig.skip_binder().inputs_and_output;
            let a: Vec<String> = io.iter().map(|x| self.ty(x).to_string()).collect();
            (abi, vis, nm, uns, a.join(","))
        } else {
            ("closure".into(), "".into(), false, false, String::new())
        };
        let _ = write!(
            out,
            "{{\"k\":\"fn\",\"path\":{},\"parent\":{},\"closure\":{},\"derived\":{},\"impl_trait\":{},\"self_ty\":{},\"abi\":{},\"vis\":{},\"no_mangle\":{},\"unsafe\":{},\"sig\":[{}],\"span\":{},\"argc\":{}",
            q(&path),
            q(&parent_path),
            is_closure,
            derived,
            impl_trait.map(|t| q(&t)).unwrap_or("null".into()),
            self_ty.map(|t| t.to_string()).unwrap_or("null".into()),
            q(&abi),
            q(&vis),
            no_mangle,
            unsafe_fn,
            sig,
            q(&self.span(tcx.def_span(did))),
            body.arg_count
        );
        // full body span (for line ranges)
        let _ = write!(out, ",\"body_span\":{}", q(&self.span(body.span)));
        // locals
        out.push_str(",\"locals\":[");
        for (i, ld) in body.local_decls.iter().enumerate() {
            if i > 0 {
                out.push(',');
            }
            let ti = self.ty(ld.ty);
            let _ = write!(out, "{}", ti);
        }
        out.push_str("],\"vars\":[");
        let mut first = true;
        for vdi in &body.var_debug_info {
            if let mir::VarDebugInfoContents::Place(p) = &vdi.value {
                if !first {
                    out.push(',');
                }
                first = false;
                let _ = write!(out, "[{},{}]", q(vdi.name.as_str()), self.place(body, p));
            }
        }
        out.push_str("],\"blocks\":[");
        for (bi, bb) in body.basic_blocks.iter_enumerated() {
            if bi.as_u32() > 0 {
                out.push(',');
            }
            let _ = write!(out, "{{\"c\":{},\"s\":[", bb.is_cleanup);
            let mut first = true;
            for st in &bb.statements {
                let s = match &st.kind {
                    StatementKind::Assign(b) => {
                        let pl = self.place(body, &b.0);
                        let rv = self.rvalue(body, tenv, &b.1);
                        Some(format!("[\"a\",{},{},{}]", pl, rv, q(&self.span(st.source_info.span))))
                    }
                    StatementKind::StorageLive(l) => Some(format!("[\"sl\",{}]", l.as_u32())),
                    StatementKind::StorageDead(l) => Some(format!("[\"sd\",{}]", l.as_u32())),
                    StatementKind::SetDiscriminant { place, variant_index } => {
                        let t = place.ty(&body.local_decls, tcx).ty;
                        let vn = match t.kind() {
                            ty::Adt(adt, _) => adt.variant(*variant_index).name.to_string(),
                            _ => String::new(),
                        };
                        Some(format!("[\"setdisc\",{},{}]", self.place(body, place), q(&vn)))
                    }
                    StatementKind::Intrinsic(i) => Some(format!("[\"intr\",{}]", q(&format!("{:?}", i)))),
                    _ => None,
                };
                if let Some(s) = s {
                    if !first {
                        out.push(',');
                    }
                    first = false;
                    out.push_str(&s);
                }
            }
            out.push_str("],\"t\":");
            let t = bb.terminator();
            let sp = q(&self.span(t.source_info.span));
            let ts = match &t.kind {
                TerminatorKind::Goto { target } => format!("[\"goto\",{}]", target.as_u32()),
                TerminatorKind::SwitchInt { discr, targets } => {
                    let mut arms = vec![];
                    for (v, b) in targets.iter() {
                        arms.push(format!("[{},{}]", q(&v.to_string()), b.as_u32()));
                    }
                    format!("[\"switch\",{},[{}],{},{}]", self.operand(body, tenv, discr), arms.join(","), targets.otherwise().as_u32(), sp)
                }
                TerminatorKind::Return => format!("[\"ret\",{}]", sp),
                TerminatorKind::Unreachable => "[\"unreachable\"]".to_string(),
                TerminatorKind::UnwindResume => "[\"resume\"]".to_string(),
                TerminatorKind::UnwindTerminate(_) => "[\"terminate\"]".to_string(),
                TerminatorKind::Drop { place, target, unwind, .. } => {
                    let uw = match unwind {
                        mir::UnwindAction::Cleanup(b) => b.as_u32() as i64,
                        _ => -1,
                    };
                    format!("[\"drop\",{},{},{},{}]", self.place(body, place), target.as_u32(), uw, sp)
                }
                TerminatorKind::Call { func, args, destination, target, unwind, fn_span, .. } => {
                    let uw = match unwind {
                        mir::UnwindAction::Cleanup(b) => b.as_u32() as i64,
                        _ => -1,
                    };
                    let a: Vec<String> = args.iter().map(|x| self.operand(body, tenv, &x.node)).collect();
                    format!(
                        "[\"call\",{},[{}],{},{},{},{},{}]",
                        self.callee(body, tenv, func),
                        a.join(","),
                        self.place(body, destination),
                        target.map(|b| b.as_u32() as i64).unwrap_or(-1),
                        uw,
                        sp,
                        q(&self.span(*fn_span))
                    )
                }
                TerminatorKind::TailCall { func, args, .. } => {
                    let a: Vec<String> = args.iter().map(|x| self.operand(body, tenv, &x.node)).collect();
                    format!("[\"tailcall\",{},[{}],{}]", self.callee(body, tenv, func), a.join(","), sp)
                }
                TerminatorKind::Assert { cond, expected, msg, target, unwind } => {
                    let uw = match unwind {
                        mir::UnwindAction::Cleanup(b) => b.as_u32() as i64,
                        _ => -1,
                    };
                    let (mk, ops): (String, Vec<&Operand<'tcx>>) = match &**msg {
                        AssertKind::BoundsCheck { len, index } => ("BoundsCheck".into(), vec![len, index]),
                        AssertKind::Overflow(op, a, b) => (format!("Overflow:{:?}", op), vec![a, b]),
                        AssertKind::OverflowNeg(a) => ("OverflowNeg".into(), vec![a]),
                        AssertKind::DivisionByZero(a) => ("DivisionByZero".into(), vec![a]),
                        AssertKind::RemainderByZero(a) => ("RemainderByZero".into(), vec![a]),
                        AssertKind::MisalignedPointerDereference { .. } => ("MisalignedPointerDereference".into(), vec![]),
                        AssertKind::NullPointerDereference => ("NullPointerDereference".into(), vec![]),
                        AssertKind::InvalidEnumConstruction(_) => ("InvalidEnumConstruction".into(), vec![]),
                        _ => ("Other".into(), vec![]),
                    };
                    let os: Vec<String> = ops.iter().map(|o| self.operand(body, tenv, o)).collect();
                    let oty = ops.first().map(|o| o.ty(&body.local_decls, tcx)).map(|t| self.ty(t).to_string()).unwrap_or("null".into());
                    format!(
                        "[\"assert\",{},{},{},{},{},[{}],{},{}]",
                        q(&mk),
                        self.operand(body, tenv, cond),
                        expected,
                        target.as_u32(),
                        uw,
                        os.join(","),
                        oty,
                        sp
                    )
                }
                TerminatorKind::FalseEdge { real_target, .. } => format!("[\"goto\",{}]", real_target.as_u32()),
                TerminatorKind::FalseUnwind { real_target, .. } => format!("[\"goto\",{}]", real_target.as_u32()),
                _ => "[\"other\"]".to_string(),
            };
            out.push_str(&ts);
            out.push('}');
        }
        out.push_str("]}\n");
    }
}

struct Cb;

impl rustc_driver::Callbacks for Cb {
    fn after_analysis<'tcx>(&mut self, _c: &rustc_interface::interface::Compiler, tcx: TyCtxt<'tcx>) -> Compilation {
        let krate = tcx.crate_name(LOCAL_CRATE);
        let want = std::env::var("TSRUN_FACTS_CRATE").unwrap_or_else(|_| "tsrun".to_string());
        if krate.as_str() != want {
            return Compilation::Continue;
        }
        let outdir = match std::env::var("TSRUN_FACTS_OUT") {
            Ok(d) => d,
            Err(_) => return Compilation::Continue,
        };
        let nonce = std::env::var("TSRUN_FACTS_NONCE").unwrap_or_default();
        let crate_types: Vec<String> = tcx.crate_types().iter().map(|c| format!("{:?}", c)).collect();
        let is_bin = crate_types.iter().any(|c| c == "Executable");
        let mut cx = Cx { tcx, types: HashMap::new(), type_rows: vec![], paths: HashMap::new() };
        let mut out = String::with_capacity(64 << 20);
        let mut cfgs: Vec<String> = vec![];
        for (name, val) in tcx.sess.config.iter() {
            if name.as_str() == "feature" {
                if let Some(v) = val {
                    cfgs.push(v.to_string());
                }
            }
        }
        cfgs.sort();
        let _ = write!(
            out,
            "{{\"k\":\"meta\",\"nonce\":{},\"crate\":{},\"crate_types\":[{}],\"features\":[{}],\"debug_assertions\":{},\"overflow_checks\":{}}}\n",
            q(&nonce),
            q(krate.as_str()),
            crate_types.iter().map(|c| q(c)).collect::<Vec<_>>().join(","),
            cfgs.iter().map(|c| q(c)).collect::<Vec<_>>().join(","),
            tcx.sess.opts.debug_assertions,
            tcx.sess.overflow_checks()
        );
        // ADTs, statics, consts, impls
        let items = tcx.hir_crate_items(());
        for ldid in items.definitions() {
            let did = ldid.to_def_id();
            match tcx.def_kind(did) {
                DefKind::Struct | DefKind::Enum | DefKind::Union => {
                    let adt = tcx.adt_def(did);
                    let generics = tcx.generics_of(did);
                    let gp: Vec<String> = generics.own_params.iter().map(|p| q(p.name.as_str())).collect();
                    let repr = adt.repr();
                    let kind = if adt.is_enum() {
                        "enum"
                    } else if adt.is_union() {
                        "union"
                    } else {
                        "struct"
                    };
                    let (is_send, is_sync) = {
                        let self_ty = tcx.type_of(did).instantiate_identity().skip_norm_wip();
                        let tenv = TypingEnv::post_analysis(tcx, did);
                        let (infcx, penv) = tcx.infer_ctxt().build_with_typing_env(tenv);
                        let mut r = (true, true);
                        if let Some(sd) = tcx.get_diagnostic_item(rustc_span::sym::Send) {
                            r.0 = infcx.type_implements_trait(sd, [self_ty], penv).must_apply_modulo_regions();
                        }
                        if let Some(sd) = tcx.get_diagnostic_item(rustc_span::sym::Sync) {
                            r.1 = infcx.type_implements_trait(sd, [self_ty], penv).must_apply_modulo_regions();
                        }
                        r
                    };
                    let _ = write!(
                        out,
                        "{{\"k\":\"adt\",\"path\":{},\"kind\":\"{}\",\"send\":{},\"sync\":{},\"generics\":[{}],\"repr_c\":{},\"repr_transparent\":{},\"repr_int\":{},\"vis\":{},\"span\":{},\"variants\":[",
                        q(&cx.path(did)),
                        kind,
                        is_send,
                        is_sync,
                        gp.join(","),
                        repr.c(),
                        repr.transparent(),
                        q(&repr.int.map(|i| format!("{:?}", i)).unwrap_or_default()),
                        q(&format!("{:?}", tcx.visibility(did))),
                        q(&cx.span(tcx.def_span(did)))
                    );
                    let discrs: Vec<(rustc_abi::VariantIdx, String)> = if adt.is_enum() {
                        adt.discriminants(tcx).map(|(vi, d)| (vi, d.val.to_string())).collect()
                    } else {
                        vec![]
                    };
                    for (vi, v) in adt.variants().iter_enumerated() {
                        if vi.as_u32() > 0 {
                            out.push(',');
                        }
                        let dv = discrs.iter().find(|(i, _)| *i == vi).map(|(_, d)| d.clone()).unwrap_or_default();
                        let _ = write!(out, "{{\"name\":{},\"discr\":{},\"fields\":[", q(v.name.as_str()), q(&dv));
                        for (fi, f) in v.fields.iter_enumerated() {
                            if fi.as_u32() > 0 {
                                out.push(',');
                            }
                            let ft = tcx.type_of(f.did).instantiate_identity().skip_norm_wip();
                            let fti = cx.ty(ft);
                            let _ = write!(out, "{{\"name\":{},\"ty\":{},\"vis\":{}}}", q(f.name.as_str()), fti, q(&format!("{:?}", tcx.visibility(f.did))));
                        }
                        out.push_str("]}");
                    }
                    out.push_str("]}\n");
                }
                DefKind::Static { .. } => {
                    let t = tcx.type_of(did).instantiate_identity().skip_norm_wip();
                    let ti = cx.ty(t);
                    let tenv = TypingEnv::post_analysis(tcx, did);
                    let freeze = t.is_freeze(tcx, tenv);
                    let _ = write!(
                        out,
                        "{{\"k\":\"static\",\"path\":{},\"ty\":{},\"mut\":{},\"thread_local\":{},\"freeze\":{},\"span\":{}}}\n",
                        q(&cx.path(did)),
                        ti,
                        matches!(tcx.static_mutability(did), Some(m) if m.is_mut()),
                        tcx.is_thread_local_static(did),
                        freeze,
                        q(&cx.span(tcx.def_span(did)))
                    );
                }
                DefKind::Const { .. } | DefKind::AssocConst { .. } => {
                    let t = tcx.type_of(did).instantiate_identity().skip_norm_wip();
                    let ti = cx.ty(t);
                    let mut val = "null".to_string();
                    if matches!(t.kind(), ty::Int(_) | ty::Uint(_) | ty::Bool) && tcx.generics_of(did).is_empty() {
                        if let Ok(cv) = tcx.const_eval_poly(did) {
                            if let Some(si) = cv.try_to_scalar_int() {
                                let size = si.size();
                                let bits = si.to_bits(size);
                                let v: i128 = if matches!(t.kind(), ty::Int(_)) { size.sign_extend(bits) as i128 } else { bits as i128 };
                                val = q(&v.to_string());
                            }
                        }
                    }
                    let _ = write!(out, "{{\"k\":\"const\",\"path\":{},\"ty\":{},\"val\":{},\"span\":{}}}\n", q(&cx.path(did)), ti, val, q(&cx.span(tcx.def_span(did))));
                }
                DefKind::Impl { of_trait } => {
                    let st = tcx.type_of(did).instantiate_identity().skip_norm_wip();
                    let sti = cx.ty(st);
                    let (tr, neg) = if of_trait {
                        let h = tcx.impl_trait_header(did);
                        (Some(cx.path(h.trait_ref.skip_binder().def_id)), matches!(h.polarity, ty::ImplPolarity::Negative))
                    } else {
                        (None, false)
                    };
                    let _ = write!(
                        out,
                        "{{\"k\":\"impl\",\"trait\":{},\"self_ty\":{},\"negative\":{},\"derived\":{},\"span\":{}}}\n",
                        tr.map(|t| q(&t)).unwrap_or("null".into()),
                        sti,
                        neg,
                        tcx.is_automatically_derived(did),
                        q(&cx.span(tcx.def_span(did)))
                    );
                }
                _ => {}
            }
        }
        // function bodies
        let mut nfn = 0usize;
        for ldid in tcx.mir_keys(()) {
            let did = ldid.to_def_id();
            if !matches!(tcx.def_kind(did), DefKind::Fn | DefKind::AssocFn | DefKind::Closure) {
                continue;
            }
            // constructors of tuple structs etc. have no interesting MIR; const fns are fine
            cx.dump_fn(did, &mut out);
            nfn += 1;
        }
        // type table (one row)
        out.push_str("{\"k\":\"types\",\"rows\":[");
        for (i, r) in cx.type_rows.iter().enumerate() {
            if i > 0 {
                out.push(',');
            }
            out.push_str(r);
        }
        out.push_str("]}\n");
        let _ = write!(out, "{{\"k\":\"end\",\"fns\":{},\"nonce\":{}}}\n", nfn, q(&nonce));
        let fname = format!("{}/facts-{}-{}.jsonl", outdir, krate.as_str(), if is_bin { "bin" } else { "lib" });
        if let Err(e) = std::fs::write(&fname, out.as_bytes()) {
            eprintln!("tsrun-facts: cannot write {}: {}", fname, e);
        }
        Compilation::Continue
    }
}

fn main() {
    let mut args: Vec<String> = std::env::args().collect();
    if args.len() > 1 {
        args.remove(1);
    }
    args[0] = "rustc".into();
    rustc_driver::run_compiler(&args, &mut Cb);
}
