#!/usr/bin/env python3
"""seed_table.py: regenerate the seed matrix of DESIGN.md section 7 from seeded/RESULTS.json.
Rows keep the hand-written description of the existing table; new seeds take `short` from their meta.json."""
import json, os, re
V = '/verif'
res = json.load(open(V + '/seeded/RESULTS.json'))
design = open(V + '/DESIGN.md').read()
m = re.search(r"\| seeded change \| what it does \| caught by \|\n\|---\|---\|---\|\n((?:\|.*\|\n)+)", design)
old_rows = {}
marks = {}
import subprocess
committed = subprocess.run(['git', '-C', V, 'show', 'HEAD:DESIGN.md'], capture_output=True, text=True).stdout
m0 = re.search(r"\| seeded change \| what it does \| caught by \|\n\|---\|---\|---\|\n((?:\|.*\|\n)+)", committed)
for line in (m0.group(1) if m0 else '').splitlines() + m.group(1).splitlines():
    cells = [c.strip() for c in line.strip().strip('|').split('|')]
    if len(cells) >= 3:
        old_rows[cells[0]] = cells[1]
        marks[cells[0]] = ('¹' if ('¹' in cells[2] or '¹' in marks.get(cells[0], '')) else '') + (' ²' if ('²' in cells[2] or '²' in marks.get(cells[0], '')) else '')
rows = []
for name in sorted(res):
    r = res[name]
    meta = json.load(open('%s/seeded/%s/meta.json' % (V, name)))
    desc = old_rows.get(name) or meta.get('short') or (meta.get('summary') or '')[:140]
    own = r['property']
    cb = r.get('caught_by') or {}
    if not r.get('applies', True):
        caught = 'patch does not apply'
    elif not cb:
        caught = 'missed'
    else:
        parts = []
        for p in sorted(cb, key=lambda p: (p != own, p)):
            rules = sorted({k.split('/')[0] for k in cb[p] if not k.startswith('fail-closed')}) or ['fail-closed']
            s = '**%s** %s' % (p, ', '.join(rules)) if p == own else '%s %s' % (p, ', '.join(rules))
            if p == own and ('¹' in marks.get(name, '') or meta.get('rule_added_after')):
                s += ' ¹'
            if p == own and '²' in marks.get(name, ''):
                s += ' ²'
            parts.append(s)
        caught = ', '.join(parts)
    rows.append('| %s | %s | %s |' % (name, desc.replace('|', '/'), caught))
table = "| seeded change | what it does | caught by |\n|---|---|---|\n" + "\n".join(rows) + "\n"
design = design[:m.start()] + table + design[m.end():]
open(V + '/DESIGN.md', 'w').write(design)
own_caught = sum(1 for r in res.values() if r.get('caught_by_own_property'))
print(len(res), 'seeds;', own_caught, 'caught by the check of their own property')
