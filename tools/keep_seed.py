#!/usr/bin/env python3
"""keep_seed.py <worktree> <seed-name> : store a verified seeded change under /verif/seeded/<name>/"""
import json, os, shutil, sys, re
wt, name = sys.argv[1], sys.argv[2]
dst = os.path.join('/verif/seeded', name)
os.makedirs(dst, exist_ok=True)
meta = json.load(open(os.path.join(wt, 'SEEDED/meta.json')))
shutil.copy(os.path.join(wt, 'SEEDED/patch.diff'), os.path.join(dst, 'patch.diff'))
demo = meta.get('demo_path')
cands = [demo, os.path.join(wt, demo or ''), os.path.join(wt, 'SEEDED/demo.rs')]
for c in cands:
    if c and os.path.isfile(c):
        shutil.copy(c, os.path.join(dst, os.path.basename(c)))
        break
log = open(sys.argv[3]).read() if len(sys.argv) > 3 else ''
meta['verified_by_main'] = {
    'ran': 'tools/verify_seed.sh %s: demo with patch, full suite with patch, demo without patch' % wt,
    'log_excerpt': log[-1500:],
}
json.dump(meta, open(os.path.join(dst, 'meta.json'), 'w'), indent=1)
print('kept', dst, os.listdir(dst))
