#!/bin/bash
# verify_seed.sh <worktree> : confirm a seeded change (patch applied + demo in place in the worktree)
# 1) demo fails with patch  2) suite passes with patch (demo target aside)  3) demo passes without patch
WT=$1
cd $WT || exit 2
export CARGO_TARGET_DIR=$WT/target CARGO_NET_OFFLINE=true
DEMO_CMD=$(python3 -c "import json;print(json.load(open('SEEDED/meta.json'))['demo_cmd'])")
echo "demo_cmd: $DEMO_CMD"
git diff --stat -- src | tail -3
echo "--- with patch: demo"
bash -c "$DEMO_CMD" > $WT/SEEDED/verify_demo_with.log 2>&1; echo "demo_with_patch_exit=$?"
echo "--- with patch: suite"
cargo test --workspace --no-fail-fast --offline > $WT/SEEDED/verify_suite.log 2>&1; echo "suite_exit=$?"
grep -E "^test result|Running|FAILED|failed" $WT/SEEDED/verify_suite.log | grep -v "^test result: ok" | head -20
grep -E "^test result" $WT/SEEDED/verify_suite.log | awk '{p+=$4; f+=$6} END {print "suite passed="p" failed="f}'
echo "--- without patch: demo"
git apply -R SEEDED/patch.diff || { echo "cannot reverse patch"; exit 3; }
bash -c "$DEMO_CMD" > $WT/SEEDED/verify_demo_without.log 2>&1; echo "demo_without_patch_exit=$?"
git apply SEEDED/patch.diff
echo "done"
