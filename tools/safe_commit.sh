#!/bin/sh
# safe_commit.sh "<message>": run every claimed check on /repo's working tree; commit /verif only if all exit 0
cd /verif || exit 2
test -z "$(git -C /repo status --porcelain --untracked-files=no)" || { echo "/repo has uncommitted changes"; exit 2; }
sh tools/runall.sh quick > /tmp/safe_commit.log 2>&1
bad=$(grep -c "exit=[12]" /tmp/safe_commit.log)
if [ "$bad" != "0" ]; then grep "exit=[12]" /tmp/safe_commit.log; echo "NOT committed"; exit 1; fi
python3 tools/gen_manifest.py
git add -A && git commit -qm "$1" && echo "committed: $1"
