#!/usr/bin/env python3
"""run_seeds.py [-j N] [seed ...]: apply each kept seeded change to a scratch worktree of /repo's HEAD (N worktrees under /tmp, removed at
the end; /repo itself is not touched), run the checks of all claimed properties against it (the seed's own property first: it builds the
facts of the patched tree), record which checks report a NEW violation.  Writes /verif/seeded/RESULTS.json."""
import json, os, subprocess, sys, threading, queue
from concurrent.futures import ThreadPoolExecutor
V = '/verif'
args = sys.argv[1:]
J = 4
OWN = False
if args[:1] == ['-j']:
    J = int(args[1]); args = args[2:]
if args[:1] == ['--own']:
    OWN = True; args = args[1:]      # only the check of the seed's own property, and only seeds without a result yet
seeds = args or sorted(d for d in os.listdir(V + '/seeded') if os.path.isdir(V + '/seeded/' + d))
man = json.load(open(V + '/MANIFEST.json'))
claimed = [c['property_id'] for c in man['checks']]
res = {}
try:
    res = json.load(open(V + '/seeded/RESULTS.json'))
except Exception:
    pass
lock = threading.Lock()
q = queue.Queue()
for s in seeds:
    if OWN and s in res and res[s].get('applies'):
        continue
    q.put(s)


def sh(*a, **k):
    return subprocess.run(list(a), capture_output=True, text=True, **k)


def worker(i):
    wt = '/tmp/seedwt-%d' % i
    sh('git', '-C', '/repo', 'worktree', 'remove', '--force', wt)
    r = sh('git', '-C', '/repo', 'worktree', 'add', '--detach', wt, 'HEAD')
    assert r.returncode == 0, r.stderr
    env = dict(os.environ, TSRUN_REPO=wt, TMPDIR='/tmp/seedwt-tmp-%d' % i)
    os.makedirs(env['TMPDIR'], exist_ok=True)

    def one(pid):
        out = subprocess.run([V + '/check', pid, 'quick'], capture_output=True, text=True, cwd=V, env=env)
        if out.returncode == 2:
            return pid, ['BUILD-FAILED']
        return pid, [l.split('key=')[1].split(' at ')[0] for l in out.stdout.splitlines() if l.strip().startswith('rule=') and 'key=' in l]
    try:
        while True:
            try:
                s = q.get_nowait()
            except queue.Empty:
                break
            d = V + '/seeded/' + s
            meta = json.load(open(d + '/meta.json'))
            r = sh('git', '-C', wt, 'apply', d + '/patch.diff')
            if r.returncode != 0:
                with lock:
                    res[s] = {'property': meta['property'], 'applies': False, 'error': r.stderr[-300:]}
                    print(s, 'PATCH DOES NOT APPLY', flush=True)
                sh('git', '-C', wt, 'checkout', '-q', '--', '.')
                continue
            caught = {}
            order = [meta['property']] if meta['property'] in claimed else []
            pid0, keys0 = one(order[0]) if order else (None, [])
            if keys0:
                caught[pid0] = keys0
            with ThreadPoolExecutor(max_workers=5) as ex:
                for pid, keys in ex.map(one, [] if OWN else [p for p in claimed if p not in order]):
                    if keys:
                        caught[pid] = keys
            sh('git', '-C', wt, 'checkout', '-q', '--', '.')
            sh('git', '-C', wt, 'clean', '-fdq')
            with lock:
                res[s] = {'property': meta['property'], 'applies': True, 'caught_by': caught, 'caught_by_own_property': meta['property'] in caught, 'own_only': OWN}
                print(s, 'caught by', caught if caught else 'NOTHING', flush=True)
                json.dump(res, open(V + '/seeded/RESULTS.json', 'w'), indent=1)
    finally:
        sh('git', '-C', '/repo', 'worktree', 'remove', '--force', wt)
        sh('rm', '-rf', env['TMPDIR'])


ts = [threading.Thread(target=worker, args=(i,)) for i in range(min(J, len(seeds)))]
for t in ts:
    t.start()
for t in ts:
    t.join()
json.dump(res, open(V + '/seeded/RESULTS.json', 'w'), indent=1)
