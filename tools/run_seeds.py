#!/usr/bin/env python3
"""run_seeds.py [seed ...]: apply each kept seeded change to /repo's working tree, run the checks of
all claimed properties (or the one named in meta.json first), record which checks report a NEW
violation, and restore the tree.  Writes /verif/seeded/RESULTS.json."""
import json, os, subprocess, sys
V = '/verif'
seeds = sys.argv[1:] or sorted(d for d in os.listdir(V + '/seeded') if os.path.isdir(V + '/seeded/' + d))
man = json.load(open(V + '/MANIFEST.json'))
claimed = [c['property_id'] for c in man['checks']]
res = {}
try:
    res = json.load(open(V + '/seeded/RESULTS.json'))
except Exception:
    pass
assert subprocess.run(['git', '-C', '/repo', 'status', '--porcelain', '--untracked-files=no'], capture_output=True, text=True).stdout.strip() == '', '/repo not clean'
for s in seeds:
    d = V + '/seeded/' + s
    meta = json.load(open(d + '/meta.json'))
    r = subprocess.run(['git', '-C', '/repo', 'apply', '--3way', d + '/patch.diff'], capture_output=True, text=True)
    if r.returncode != 0:
        r = subprocess.run(['git', '-C', '/repo', 'apply', d + '/patch.diff'], capture_output=True, text=True)
    if r.returncode != 0:
        res[s] = {'property': meta['property'], 'applies': False, 'error': r.stderr[-300:]}
        subprocess.run(['git', '-C', '/repo', 'reset', '-q', '--hard', 'HEAD'])
        subprocess.run(['git', '-C', '/repo', 'reset', '-q'])
        print(s, 'PATCH DOES NOT APPLY')
        continue
    caught = {}

    def one(pid):
        out = subprocess.run([V + '/check', pid, 'quick'], capture_output=True, text=True, cwd=V)
        if out.returncode == 2:
            return pid, ['BUILD-FAILED']
        return pid, [l.split('key=')[1].split(' at ')[0] for l in out.stdout.splitlines() if l.strip().startswith('rule=') and 'key=' in l]
    # the seed's own property first (it builds the facts of the patched tree), the others in parallel
    order = [meta['property']] if meta['property'] in claimed else []
    pid0, keys0 = one(order[0]) if order else (None, [])
    if keys0:
        caught[pid0] = keys0
    from concurrent.futures import ThreadPoolExecutor
    with ThreadPoolExecutor(max_workers=10) as ex:
        for pid, keys in ex.map(one, [p for p in claimed if p not in order]):
            if keys:
                caught[pid] = keys
    subprocess.run(['git', '-C', '/repo', 'reset', '-q', '--hard', 'HEAD'])
    subprocess.run(['git', '-C', '/repo', 'reset', '-q'])
    res[s] = {'property': meta['property'], 'applies': True, 'caught_by': caught,
              'caught_by_own_property': meta['property'] in caught}
    print(s, 'caught by', caught if caught else 'NOTHING')
    json.dump(res, open(V + '/seeded/RESULTS.json', 'w'), indent=1)
# restore evidence files to the unchanged tree
from concurrent.futures import ThreadPoolExecutor
with ThreadPoolExecutor(max_workers=10) as ex:
    list(ex.map(lambda pid: subprocess.run([V + '/check', pid, 'quick'], capture_output=True, text=True, cwd=V), claimed))
json.dump(res, open(V + '/seeded/RESULTS.json', 'w'), indent=1)
