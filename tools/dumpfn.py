#!/usr/bin/env python3
"""debug aid: print the MIR facts of functions whose path contains the given text
usage: [TSRUN_REPO=/tmp/wt] python3 tools/dumpfn.py <substring> [cfg]"""
import sys, os, json
sys.path.insert(0, os.path.join(os.path.dirname(os.path.abspath(__file__)), "..", "rules"))
import facts as F
fx = F.load(sys.argv[2] if len(sys.argv) > 2 else "A")
for p, f in fx.fns.items():
    if sys.argv[1] in p:
        print("==", p, f.span, "argc", f.argc)
        for i, t in enumerate(f.locals):
            print("  _%d: %s %s" % (i, fx.tys(t), f.var_name(i) or ""))
        for bi, bl in enumerate(f.blocks):
            print(" bb%d:" % bi)
            for s in bl["s"]:
                print("    ", json.dumps(s[:3]))
            t = bl["t"]
            print("    T", json.dumps(t[:6]) if t[0] == "call" else json.dumps(t))
