#!/bin/sh
# runall.sh [quick|thorough]: run every claimed check in parallel against /repo's working tree; one summary line each
T=${1:-quick}
cd /verif || exit 2
for c in $(python3 -c "import json;print(' '.join(x['property_id'] for x in json.load(open('MANIFEST.json'))['checks']))"); do
  ( ./check $c $T > /tmp/q-$c.log 2>&1; echo "exit=$?" >> /tmp/q-$c.log ) &
done
wait
for f in /tmp/q-C*.log; do printf "%s " "$(grep -h "$T:" $f | cut -c1-110)"; tail -1 $f; done
grep -l "^VIOLATION" /tmp/q-C*.log
exit 0
