#!/usr/bin/env python3
import json, sys
pid, wt, n = sys.argv[1], sys.argv[2], (sys.argv[3] if len(sys.argv) > 3 else "1")
for l in open('/verif/properties.jsonl'):
    p = json.loads(l)
    if p['id'] == pid:
        break
print(f"""You are helping evaluate verification tooling for the Rust project DmitryBochkarev/tsrun (an embeddable TypeScript/JavaScript interpreter: lexer, parser, bytecode compiler, register VM, guard-based GC, C API).

You have your own scratch git worktree of the repository at {wt} (a detached checkout; work ONLY inside it; never touch /repo or /verif, and do not read /verif). The sandbox is offline: use `cargo ... --offline` only. To keep disk use low, set CARGO_TARGET_DIR={wt}/target.

Here is a semantic property the project is supposed to satisfy (JSON record):

{json.dumps(p, indent=1)}

YOUR TASK: produce ONE realistic source change to the repository (a plausible refactoring slip, optimisation, or 'simplification' that a maintainer could really make - not sabotage that is obviously wrong at a glance, and not a change in test code) that BREAKS this property, while
  (a) the crate still compiles (`cargo build --offline` and `cargo build --offline --features c-api`), and
  (b) the existing test suite still passes: `cd {wt} && CARGO_TARGET_DIR={wt}/target cargo test --workspace --no-fail-fast --offline 2>&1 | tail -40` (2454 tests; all must pass with your change exactly as without it).
The breakage must need something SPECIFIC to manifest - a particular interleaving or schedule, a fault or abandonment at a particular point, a multi-step sequence of operations, an unusual input or size, or two cooperating sites that each look fine alone - not something ordinary use would expose at once. Prefer a change in the code the property's anchors point at. The change should be small (typically 1-15 lines). If the property text mentions behaviours that are ALREADY broken today, do not rely on those: your change must introduce a NEW violation (the demonstration must pass on the unmodified tree).

ALSO produce a demonstration: a new test file or small program (e.g. {wt}/tests/seeded_demo.rs as an integration test using the public API, or an example under examples/) that FAILS with your change and PASSES without it. Verify both directions yourself (use `git diff > patch; git checkout -- src; ...; git apply patch` - NEVER use `git stash`: the stash is shared between worktrees and other agents are working in sibling worktrees), and verify the full existing suite passes with the change.

Deliver, inside {wt}/SEEDED/ (create it):
  - patch.diff   : `git diff` of the source change only (NOT including the demonstration), applicable with `git apply` at the repo root
  - demo.rs (or other file) : the demonstration, plus in meta.json the exact path where it must be placed and the exact command to run it
  - meta.json    : {{"property": "{pid}", "summary": one paragraph on what the change does and why it breaks the property, "needs_to_manifest": what specific input/schedule/sequence is required, "demo_path": ..., "demo_cmd": ..., "demo_fails_with_patch": true/false as observed, "demo_passes_without_patch": true/false as observed, "suite_passes_with_patch": true/false as observed, "files_changed": [...]}}
Leave the worktree with the patch APPLIED and the demo file in place. Do not commit. When finished, reply with a short summary (what you changed, where, how it manifests, and the observed results of the three verifications). This is variant #{n}: if you can think of several candidate changes, pick one that is subtle and touches a different mechanism than the most obvious one.""")
