#!/usr/bin/env python3
"""Regenerates /verif/MANIFEST.json from the table below (keeps it valid at all times)."""
import json
import os

V = os.path.dirname(os.path.dirname(os.path.abspath(__file__)))

NOTE = ("trusted base: rustc nightly front end + MIR construction (facts are dumped after analysis with the real cargo "
        "flags, configuration `--lib --features c-api`), the /verif/driver fact dumper, the python rule engine; "
        "src/wasm and no_std configurations are not analysable on this image")

CHECKS = {
    "C12": dict(
        technique="static analysis: who-may-call + type-table walk + intraprocedural flow over resolved MIR; trait-solver auto-trait facts; compile_fail witnesses (thorough)",
        text="Decides six structural necessary conditions of determinism/isolation exactly for every function of the crate: no "
             "shared mutable statics, ambient clock/entropy only in the injectable platform providers, only unseeded hashers, "
             "addresses only in comparison/hash positions, never iterated observably and never used as a sort key, and !Send/!Sync of "
             "every handle type. "
             "All obligations discharge on the current tree. It does not decide bit-identical traces.",
        ref="4/C12"),
}

CHECKS.update({
    "C03": dict(
        technique="static analysis: computed erasable-ADT set (type-graph reachability) + who-may-read rule over every MIR place projection + match-arm emptiness + token-kind set agreement in the parser (per-kind path following through chained tests and boolean kind-set helpers, Eof as the rejecting probe); consumption-behind-look-ahead rule for modifier words (path-sensitive in boolean temporaries, wrappers and fn-pointer look-aheads judged at call sites), enum-variant coverage of the keyword-type enum",
        text="Decides the back-end clause of erasure exactly: outside the parser/AST no function of the crate reads a type-syntax "
             "node or a type slot (whole-slot transport excepted), and arms selecting type-only statements do no work, so emitted "
             "bytecode is a function of the AST minus annotations. Zero reads on the current tree, with a positive control. "
             "Of the front-end clause it decides one finite part: the contextual-keyword token kinds that parse_identifier accepts "
             "as names are names at every name site, start-set test and gate in front of a name acceptor (15 rejected-name sites "
             "of the pinned tree reproduced as SyntaxErrors and repaired, fix: commits). It does not decide that the grammar as a "
             "whole yields the same non-type AST with and without annotations. Also: modifier words are consumed in front of a member / parameter name only behind a one-token look-ahead; every keyword type variant is constructed by the type parser. A token-set pre-filter that transcribes a dispatcher's arms (nine tenths mutual coverage) lists all of them. A speculative parser answers None only with every consumed token restored (typestate).",
        ref="4/C03"),
    "C15": dict(
        technique="static analysis: match-arm regions of the opcode interpreter + who-may-cast rule + def-chain (greatest fixed point) inside conversion helpers; value-origin rule for every f64 handed to Display/LowerExp in the number printers (field-sensitive through the format_args! tuple), who-may-format rules (one default printer; no tie-to-even precision formatting); positive-control fixtures; flow rule from fixed-width integer parsers / integer accumulators to script numbers; format-template inspection (bytes of format_args! templates, plain placeholder learnt from a fixture)",
        text="Decides six structural clauses, not the printed or parsed values: no saturating float->int cast in any bitwise/shift operator arm, and "
             "every ToInt32/ToUint32 helper reduces modulo (f64 %) before casting; numeric literals and strings become doubles only through the "
             "correctly rounded parser; every f64 that the number printers hand to `{}`/`{:e}` is the number itself, never a quotient, power or "
             "re-parsed mantissa (the shortest-digits contract of the standard library holds for the value it is given); the default conversion has one "
             "implementation; precision formatting (`{:.N}`, ties to even) is not used where ECMAScript picks the larger candidate (toFixed, "
             "toPrecision, toExponential do: known findings). The defects found on the pinned tree - saturating casts, 'infe-324' for 5e-324 and wrong "
             "digits above 1e21, (1e21).toString() without exponent - were reproduced and repaired (fix: commits). Radix output and the constants of the "
             "notation thresholds are not decided. Also: no script number comes out of a 64-bit parse or an integer accumulator; constant-precision formatting is seen through the template bytes; the one-printer rule covers the whole interpreter (console output included). Script text becomes a double only through the designated readers (the == / Number.parseFloat defect was repaired, fix: commit).",
        ref="4/C15"),
})

CHECKS.update({
    "C10": dict(
        technique="static analysis: cast / overflow-assert inventory over MIR of src/compiler + dominating range-guard recognition (dominators, value roots, enumerate/`?`/register-window idioms, callee range-check summaries, multi-guard path cut)",
        text="Decides the width-crossing clause: every narrowing integer cast and every checked u8/u16 arithmetic in the bytecode "
             "compiler is an obligation discharged only by a dominating range guard on the same value (or a recognised "
             "allocator idiom). The 26 unguarded sites of the pinned tree were genuine (each with the program that failed) and were "
             "repaired (fix: commit); a new unguarded site is a violation. The non-cumulative register clause is not decided. Constants of a de-duplicated kind are built only by the function that consults the map (the pool grows per distinct constant).",
        ref="4/C10"),
})

CHECKS.update({
    "C14": dict(
        technique="static analysis: exit-path graph search on the MIR CFG (opener -> return avoiding closers), who-may-open/close tables, co-occurrence of sibling stacks, call-graph reachability of permanent-root sites, dominance of handler exits by the scope unwind",
        text="Decides the pairing clauses exactly for every function: a push onto the interpreter's environment-guard stack or call "
             "stack is popped on every path to a return (each `?` included), cross-function pairs are the discovered ones, frame "
             "entry/exit touch both stacks, only module-lifetime objects are rooted permanently at run time, and exception handlers are "
             "entered with the try block's scopes unwound. The generator "
             "guard leak it found was repaired (fix: commit). It does not decide that live-object counts stay constant. Roots added to a frame's register guard are paired with removals (a register value is rooted once; repaired, fix: commit).",
        ref="4/C14"),
})

CHECKS.update({
    "C17": dict(
        technique="static analysis: null-test dominance on the MIR CFG for extern \"C\" pointer parameters (helper summaries, closures, array idiom), C header parser compared with compiled signatures/layouts, RefCell-guard-held-across-hazard forward dataflow, unguarded-store rule, value-origin rule for reported array lengths, path rule for borrowed error strings, compare-before-free rule for handles given to a foreign callee, natural-loop rule for frees of collection elements (distinctness by construction or membership test)",
        text="Decides seven structural clauses over all 64 exported functions: every use of a raw-pointer parameter as a valid pointer "
             "is dominated by a NULL test; tsrun.h agrees with the compiled exports (names, arity, types, struct fields, enum "
             "values); no RefCell guard of a GC cell is held across a call that may collect or re-enter (abort in extern \"C\"); "
             "possibly-object values stored across calls carry a guard; every length reported next to a leaked boxed slice is the "
             "len() of that very vector; a C string returned by foreign code is read before last_error is written; a handle given to a foreign callee is freed only on the `!= result` edge when the returned pointer is taken too. The fulfill_orders and callback double-free defects were repaired (fix: commits). "
             "Aliasing and lifetime contracts of the API are not decided. No API-layer type stores a bare JsValue / Gc between calls. Argument arrays keep their positions (NULL is undefined) and host-supplied sizes that extend a collection are bounded (repaired, fix: commit). A loop that frees the elements of a host-filled collection of handles frees each distinct pointer once (R11; the module builder's double free is repaired, fix: commit).",
        ref="4/C17"),
})

CHECKS.update({
    "C01": dict(
        technique="static analysis: sibling agreement of frame pop sites, match-arm call-graph reachability for coercions, emit/handle pairing between compiler and VM, type walk of the property container, opcode table coverage, operand-role signatures of sibling arms, in-place copy direction test, placeholder-container coverage at context pop, receiver-protocol agreement of direction siblings, loop-scoped emission rule for switch tests, must-pass-through (loop-header waypoint) for per-iteration copies, value-origin rule for register numbers, who-may-call for unstable sorts, units check (bytes vs characters) over value origins in string natives, lastIndex sibling rule; emission dominance in the class-body compiler, text-keyed map hit behind an identity test, sibling comparison of parameter-list compilers, use of a flag component of a tuple result, use of every parsed expression",
        text="Decides some thirty structural necessary conditions of conformance (not the value of any operator): trampoline frame pop "
             "sites restore the same VM fields; operator arms convert register operands through the hook-aware coercion; "
             "break/continue/return pop block scopes on exactly one side; the own-property container is insertion ordered; "
             "every opcode is emitted, handled and (for jumps) patched, and no pending jump placeholder is dropped with its context; plain/computed sibling arms agree on operand roles; a hand-written "
             "copy inside one vector is dominated by a direction test; natives that differ only in direction read the receiver alike; the default clause of a switch is jumped to only after all case tests; "
             "for(let) copies the loop variables back on every path to the back jump; the VM addresses registers only through operands; script values are sorted stably; "
             "string natives never mix UTF-8 byte quantities with character positions; RegExp natives that run the matcher keep lastIndex. Today's deviations are genuine and listed with failing "
             "programs; the frame-restore defect was repaired (fix: commit). Further clauses: static class elements run after the class binding and the private methods and in source order; the constant pool shares a string slot by identity; all compilers of a parameter list bind every kind of parameter and record the rest parameter; the packed-arguments flag of compile_arguments is used by every caller; a parser that builds a node keeps every expression it parses. Map/Set containers (IndexMap/IndexSet) are never edited with an order-breaking operation. Every creator of a nested function compiler passes on the class context. Every statement-list compiler creates the list's function declarations first (hoisting; repaired, fix: commit). A break / continue that leaves a finally block discards the parked completion (repaired, fix: commit). Added last: `in` walks the prototype chain (R25); no half-away rounding of script numbers and extreme loops order the zeros (R26); release loops of the compiler walk backwards, because a program's value is read from register 0 (R27); for-in / for-of push one scope per iteration and for(let) declares the next iteration's bindings before the update clause (R28, R10) - each found a reproduced defect that is repaired (fix: commits).",
        ref="4/C01"),
    "C08": dict(
        technique="static analysis: operand provenance + dominance templates on StepResult constructions, who-may-write table and operation-kind table for the ledger, must-pass-through in step(), per-variant sibling comparison of the result mappers; index-domain rule shared with C07",
        text="Decides the ledger-discipline clauses exactly: every Suspended result moves the pending/cancelled ledgers out with "
             "mem::take (or is built where the ledger is known empty), Complete is built only on the nothing-outstanding edges, "
             "order ids are fresh, only designated functions touch the ledger and delivered responses are consumed by key, step() re-checks settled promises before taking "
             "a ready context, and the two result mappers agree per VmResult variant. Protocol-history clauses (progress, "
             "combinator settlement) are not decided. Also: the index a race settler carries ranges over the collection that sized the order-id vector. The countdown of Promise.all starts at the number of handlers the attach loop creates. The run disposer empties the three ledgers (repaired, fix: commit).",
        ref="4/C08"),
    "C19": dict(
        technique="static analysis: sibling comparison of transitive effect signatures (field writes, ledger takes, constructions) on corresponding CFG fragments: match arms of shared enums, dominating regions; exit-path search from the non-empty edge of the import test",
        text="Decides sibling agreement on corresponding fragments: the two VmResult->StepResult mappers per variant, outcome "
             "classes of every VmResult consumer per role, the ModuleExport finalisers per variant, the frame pop sites, and the "
             "tsrun_step/tsrun_run wrappers; a non-empty set of missing imports has NeedImports as its only outcome in every entry point; the entry points install the current module path alike and every installer of a program's module scope writes the whole run record the step() finaliser takes (the eval() suspension defect was repaired, fix: commit). The module-role disagreement (a dependency whose body suspends fails, the entry "
             "module suspends) is genuine and listed with failing programs. Equality of results is not decided. Every thrown value a StepResult-returning function hands back is materialised first (repaired, fix: commit). Import bindings are set up after (never before) the module scope is installed.",
        ref="4/C19"),
})

CHECKS.update({
    "C13": dict(
        technique="static analysis: unsafe-operation inventory of src/gc.rs; each obligation discharged by a dominance / value-range / caller-argument / who-may-call / quotient-flow rule over MIR; clear-before-pool rule for recycled root buffers",
        text="Turns every unsafe operation and ordering assumption of the collector into an obligation and discharges it "
             "structurally: handle dereferences dominated by Weak::upgrade, bitmap indices provably in range (with "
             "CHUNK_CAPACITY tied to the bitmap width), raw chunk-pointer offsets bound-checked, chunks never reallocating, "
             "sweep only after mark, pooled slots never rooted, no truncated quotient bounding a word counter, recycled root buffers enter the guard pool empty. Four obligations fail on today's tree (borrow after heap drop, "
             "missing handle identity check); both are genuine, reproduced and listed. It does not decide that live == reachable.  A slot leaves the pool only behind a reset of its contents.",
        ref="4/C13"),
})

CHECKS.update({
    "C02": dict(
        technique="static analysis: type-directed trace coverage (every branch of the tracer is a shape test), capture/restore re-rooting symmetry, who-may-write table for the register file, and guardflow - a forward may-analysis of guard protection (DNF protector sets) with backward liveness over MIR, interprocedural may-collect sets, seeded with fresh values and with values moved out of mutably borrowed heap state (detaching-function summaries); accumulator rule (a local Vec<JsValue> filled across may-collect calls in a loop is guarded) and own-guard rooting of register files taken from saved state",
        text="Decides three rooting clauses for every function: Traceable::trace visits every Gc-bearing field path reachable from "
             "JsObject (71 obligations; dead types and one side-conditioned exemption aside) and never conditions a visit on plain data; only set_reg and the frame swaps write "
             "the register file; and no FRESH value (from a callee-returned Guarded or a local-guard allocation) is without a "
             "live guard at a call that may collect while still in use; the same holds for every Gc-bearing value DETACHED from heap "
             "state (mem::take / Option::take / pop / remove / drain applied behind a RefMut, or a local function that returns such a value). "
             "The ten guardflow hazards and the four detached-value hazards of the pinned tree (promise handlers, Promise.all results, splice) were "
             "reproduced as wrong results and repaired (fix: commits). Hazards needing a callback to unlink a heap-rooted object "
             "are not decided. Also: values gathered in a local vector across calls that may collect are guarded; a rebuilt frame roots the register file it takes from saved state in its own guard. Values handed to the host as RuntimeValue::unguarded are provably not objects.",
        ref="4/C02"),
})

CHECKS.update({
    "C11": dict(
        technique="static analysis: install/restore provenance classification of writes to Interpreter.env and run-scoped scratch fields + path-sensitive exit-path search on the MIR CFG; dominance rules for the active-run hand-off in step()/prepare(); scope-entering helper summaries; Some-sensitive slot-restore search; dominance of step()'s Err exits by the disposal of the run, coverage of the run-state slots by prepare()'s disposal test, run-scoped tables cleared by the disposer and at run start",
        text="Decides run-state restoration on all exits: every installation of a fresh current environment (and every take of a "
             "run-scoped scratch field) reaches each function exit, every `?` included, only through a restore or a hand-off of "
             "the saved value; step() restores on the error outcome; whoever empties the saved-environment slot restores it whenever "
             "it held a value; prepare() disposes of a still-active run. The nine "
             "violations of the pinned tree (all reproduced with observer programs) were repaired (fix: commit). Frames of a "
             "run abandoned inside a call are not decided. Also: every error step() returns for a resumed run passes abort/finalize; prepare() looks at every slot a stopped run can live in; the disposer empties exports, the parked continuation and the wait graph; eval()/prepare() start with an empty export table. Both entry points dispose of an unfinished previous run and reset the parked program before they parse (repaired, fix: commits). eval() disposes of a run that fails, as step() does (repaired, fix: commit).",
        ref="4/C11"),
})

CHECKS.update({
    "C07": dict(
        technique="static analysis: field-level taint from the running VM's fields into the aggregates built by save_state and from the saved state into the aggregates built by from_saved_state (closures included), against a reasoned exemption table; dominance of take_ready() by check_resolved_promises(); handler-registration coverage of PromiseStatus observers; capture/restore symmetry of re-rooting calls; who-calls rule for the frame-local handler search",
        text="Decides the state-capture clause, the no-lost-wake-up clause and that every observer of a promise's status subscribes to the pending case (Promise.allSettled / Promise.any do not: listed), and that restore re-roots what capture copied guard-less: every field of the running VM and of every trampoline frame flows into the saved "
             "state and back (caches and re-derived guards exempt by a reasoned table), and the restore re-guards what it puts "
             "back. The four fields the pinned tree lost across a suspension (this, the block-scope stack, pending finally "
             "completions of the VM and of frames) were reproduced with awaiting programs and repaired (fix: commit). Schedules, "
             "settlement order and combinator semantics are not decided. Also: whoever searches the current frame for an exception handler goes on to the callers' frames (an exception injected on resume is a throw at the suspension point). Frames rebuilt from a saved state root their registers in their own guard (shared with C02). A finally handler is marked and dispatched without arguments (repaired, fix: commit).",
        ref="4/C07"),
})

CHECKS.update({
    "C06": dict(
        technique="static analysis: call-graph reachability to the VM run loop (frozen roots + native table), sibling coverage of the two JsFunction dispatchers, RefCell-guard-held-across-re-entry forward dataflow, recursive SCCs with depth-guard recognition, size taint to allocation sinks with bound recognition, panic-site and divisor inventory, natural-loop progress classification in the instruction dispatch with a checked acyclicity side condition",
        text="Decides seven structural clauses of host control: which functions re-enter the VM run loop (each root a reproduced known "
             "finding; the 61 re-entrant natives frozen), every callee kind that runs script has a trampoline arm of its own (five "
             "promise-settling kinds do not: handlers run nested, reproduced and listed), no RefCell guard across re-entry, depth guards on native recursion over "
             "script-built structures (12 unguarded cycles reproduced as stack overflows), bounded allocation sizes (3 reproduced "
             "aborts), reasoned panic sites and non-zero divisors, and progress of every loop in the dispatch (which found that "
             "cyclic prototype chains hang `instanceof`; repaired together with four RefCell panics, fix: commits). Work per "
             "native and debug-build arithmetic overflow are not decided. The opcode arms that re-enter the run loop natively are a frozen table; the call opcodes are not among them.",
        ref="4/C06"),
})

CHECKS.update({
    "C05": dict(
        technique="static analysis: panic-site and narrow-arithmetic inventory over lexer/parser/compiler, recursive SCCs with depth-guard recognition (token-consuming cycles vs AST walks), checkpoint/restore self-reachability and value-expression coverage of the rolled-back region, natural-loop gate / progress-edge analysis",
        text="Decides four structural clauses over every function of the front end: no explicit panic site and no unsafe narrow "
             "arithmetic; every token-consuming recursive cycle is depth guarded; no function re-parses with a self-reaching "
             "sub-parser after restoring a checkpoint around another one, nor rolls back over a whole value expression (exactly one "
             "offender: 2^n on nested parenthesised assignments); every loop of the lexer/parser has an input-state gate or a progress edge on each cycle. The "
             "unguarded parser recursion, the exponential speculation and the u8 overflows are genuine, reproduced and listed. "
             "Polynomial degree and memory use are not decided. No loop of the front end multiplies with overflow checking (digit accumulators).",
        ref="4/C05"),
})

CHECKS.update({
    "C16": dict(
        technique="static analysis: representation-invariant check at every construction site of PropertyKey::String (operand provenance through conversions, canonicaliser discovery, one level of caller provenance, reasoned identifier classes) + dominance of the JSON exporter's recursion by its visited-set test + serializer/text-substitution co-occurrence; coverage of the kinds without a JSON representation by tests in the member loop",
        text="Decides three structural clauses: PropertyKey::String never holds a canonical array index (all ~350 construction sites "
             "classified; the 12 sites that built it from dynamic text - JSON.parse, Object.groupBy, the Rust and C host APIs - "
             "were reproduced and repaired, fix: commit) and the JSON exporter refuses cycles (its recursion is dominated by the "
             "visited-set test and the set is restored); serialized JSON text is never rewritten by a structure-blind substitution. "
             "Fidelity of strings, numbers and ordering is a matter of values and is "
             "not decided. Also: function-, symbol- and undefined-valued members (and symbol keys) are left out, each behind a test of what the value is; a double is written to a document as an integer only behind comparisons that keep it inside the integer type (the 2**63 defect was repaired, fix: commit). No consumer re-reads a string key as an index. The exporter removes what it recorded on every successful exit.",
        ref="4/C16"),
})

CHECKS.update({
    "C18": dict(
        technique="static analysis: value-origin rule for the paths the resolver builds (def-chains over MIR), edge reachability in the normaliser's CFG for the "
                  "three segment classes, origin of the normaliser's return value, prefix-constant table of the specifier classifier, sentinel-collision "
                  "contradiction rule; positive-control fixture",
        text="Decides five structural necessary conditions of the resolver's contract, not its values: every ModulePath that resolve() builds holds the "
             "normaliser's result except on the bare-specifier edge; the normaliser drops '' and '.' segments and lets '..' remove the previously kept "
             "segment (none of the three reaches the push of a kept segment); every value the normaliser returns is built from the kept segments (no early "
             "return of raw text); specifiers are classified by exactly the prefixes './', '../' and '/'; and no Option is collapsed into a sentinel that "
             "its payload can take (the pinned tree used \"\" both for 'no importer directory' and for the root directory: './m.ts' from '/main.ts' gave "
             "'m.ts' - reproduced and repaired, fix: commit). Idempotence, equality of spellings and trailing slashes for all inputs are not decided.",
        ref="4/C18"),
})

CHECKS.update({
    "C09": dict(
        technique="static analysis: dominance rules on the loader's CFG (exact edge dominance of the not-yet-loaded test and of the is_empty() gate on the "
                  "still-missing imports), effect classification of the request filters (which module table each consults), value-origin rule for "
                  "ImportRequest.resolved_path, who-may-construct ModulePath, match-arm reachability for import/export binding kinds, loop-progress rule "
                  "for the ready-module fixed point; positive-control fixture",
        text="Decides six structural necessary conditions of the loader's contract, not the behaviour over graphs x schedules: (run-once) the function "
             "that runs a supplied module's body is reached only for a path tested not to be in loaded_modules; (dependencies-first) it, and the "
             "installation of the main program's import bindings, are reached only on the is_empty() edge of a list computed from that program's own "
             "import requests by a filter that consults loaded_modules and not pending_module_sources; (canonical paths) every "
             "ImportRequest.resolved_path is the result of ModulePath::resolve and the interpreter builds no ModulePath from raw text; (requests once) "
             "every NeedImports list passes a de-duplication by resolved path; (live bindings) named/default imports are bound through an ImportBinding, "
             "exports that have a scope binding are published as getters and the stored value only on the no-binding edge, re-exports delegate; "
             "(termination) every cycle of the ready-module loop runs a module body and the runner removes its module from the pending table first. "
             "All discharge on the current tree. That result and exports are equal for all supply orders is a matter of run-time values and not decided. The schedule of module bodies is not taken from the iteration order of a hash table (repaired, fix: commit). An export getter reads an imported binding through its import (repaired, fix: commit). Two spellings of one file give one key: resolve() builds every ModulePath from the normaliser and the normaliser classifies every segment (R3b, C18 R1 + R2 run on the same facts).",
        ref="4/C09"),
})

CHECKS.update({
    "C20": dict(
        technique="static analysis: who-may-consume / who-may-write rules for the lexer's position counters, belief agreement over the line-terminator "
                  "set (edges of character comparisons reaching the line increment), value-origin rules (def-chains over MIR) for token spans, "
                  "(line, column) pairs, source-map entries, the comparison gating an entry and the lookup index, sibling agreement of the two frame "
                  "kinds of the stack-trace builder; positive-control fixture",
        text="Decides eight structural necessary conditions of position reporting, not the position values: source characters are consumed only by "
             "functions that count them; the line counter changes only by +1 with column = 1 on exactly the edges for LF, U+2028, U+2029 (CR is not a "
             "line end, so CRLF counts once) and the column by +1 or from a saved position; every token span takes line and column from the "
             "start-of-token position, recorded after trivia and before the first character is consumed, never swapped; every (line, column) pair "
             "handed to an error or stack frame takes line from .line and column from .column of one span; instructions are appended only together with "
             "a source-map entry whose offset is the index of that instruction and whose span is the builder's current span, nothing inserts or removes "
             "instructions in the middle, and an entry is suppressed only on span equality (never by order: emission order is not source order); the "
             "map lookup returns the entry at or before the offset; the trace builder lists the current frame first, walks the trampoline stack from "
             "its top and looks both frame kinds up at ip - 1 of their own chunk. All discharge on the current tree. That a reported position lies "
             "inside the offending token for every layout is a matter of run-time values and not decided. Every creator of a nested function compiler passes on the source file (frames of constructors and arrows name their file; repaired, fix: commit). A program is compiled under a parameter path or the run's current path, never under a set-once field.",
        ref="4/C20"),
})

CHECKS.update({
    "C04": dict(
        technique="static analysis: loop-membership and dominance rules on the constructor compiler (parameter-property stores vs. the parameter loop and ; loop co-location of namespace publication with body compilation, sibling rule between the two constructor compilers"
                  "the field initialisers), belief agreement over ast::Expression variants inside the enum lowering (per-variant edge following, "
                  "path-sensitive in the boolean temporaries of matches!/&&/||, from the switches on the member's initialiser to the reverse-mapping gate "
                  "and to the writes of the auto-increment counter), sibling agreement of the enum and namespace lowerings and of the namespace and "
                  "module export steps; positive-control fixture",
        text="Decides nine structural necessary conditions of the three lowerings, not equivalence of values with the tsc emit: every "
             "parameter-property decision tests accessibility OR readonly and both identifier and defaulted-identifier parameters have it; no "
             "`this.x = x` store is emitted inside the loop that binds parameters and evaluates defaults, and the stores precede the instance field "
             "initialisers; every enum member gets its forward mapping; the reverse mapping is withheld by syntactic form only for string-valued "
             "initialisers; the enum binding is declared before its members compile; every initialiser form treated as numeric writes the "
             "auto-increment counter (a contradiction between the two beliefs restarted the numbering after `A = -10` - reproduced with computed "
             "members and repaired, fix: commit); enum and namespace declarations both look up an existing binding before creating their object (the "
             "enum lowering does not: repeated enum declarations do not merge - known finding); the namespace export step handles the same declaration "
             "kinds as the module export step. Also: namespace members are published in the turn of the body loop that compiles them; a derived class constructor initialises fields and parameter properties after super(); no emitted equality test compares a value with itself or with a unary opcode of itself (such a test is a NaN test, not a number test). Registers recorded for deferred parameter-property stores are not freed while the emitter can still run.",
        ref="4/C04"),
})

NOT_APPLICABLE = {
}
PENDING = "static rules for this property are designed (DESIGN.md section 4) but not yet built; not claimed until they are"

ALL = ["C%02d" % i for i in range(1, 21)]


def main():
    checks = []
    for pid in ALL:
        c = CHECKS.get(pid)
        if not c:
            continue
        checks.append({
            "property_id": pid,
            "quick_cmd": "./check %s quick" % pid,
            "thorough_cmd": "./check %s thorough" % pid,
            "evidence_file": "/verif/evidence/%s.json" % pid,
            "replay_cmd_template": "cat {path}",
            "engine": "tsrun-facts driver + rules/%s.py" % pid.lower(),
            "level_claimed": {"category": "other", "text": c["text"], "design_ref": "DESIGN.md section " + c["ref"]},
            "level_note": NOTE,
            "technique": c["technique"],
        })
    na = []
    for pid in ALL:
        if pid in CHECKS:
            continue
        na.append({"property_id": pid, "reason": NOT_APPLICABLE.get(pid, PENDING)})
    m = {
        "version": 1,
        "setup_cmd": "cd /verif/driver && CARGO_NET_OFFLINE=true cargo +nightly build --release --offline",
        "hooks": {
            "guard": "tsrun_verif",
            "enable": "none needed: static analysis reads the source; no hook commits exist",
            "baseline_off_cmd": "cd /repo && cargo test --workspace --no-fail-fast --offline",
            "source_commits": [],
            "add_only": True,
        },
        "engines": [
            {"name": "tsrun-facts", "path": "/verif/driver", "serves_properties": sorted(CHECKS),
             "kind_free_text": "rustc_private driver (RUSTC_WORKSPACE_WRAPPER) dumping resolved MIR, ADTs, statics, auto-trait facts as JSON"},
            {"name": "rules", "path": "/verif/rules", "serves_properties": sorted(CHECKS),
             "kind_free_text": "python3 rule engine: dominators, dataflow, call graph, type walks, sibling comparison over the facts"},
            {"name": "witness", "path": "/verif/witness", "serves_properties": ["C12"],
             "kind_free_text": "compile_fail doc-test witnesses with compiling twins + positive-control fixture crate"},
        ],
        "checks": checks,
        "not_applicable": na,
        "notes": "All checks are static: nothing executes tsrun code. Known genuine defects are listed in /verif/known_findings.json.",
    }
    with open(os.path.join(V, "MANIFEST.json"), "w") as fh:
        json.dump(m, fh, indent=1)
        fh.write("\n")


if __name__ == "__main__":
    main()
