"""C14 - garbage is reclaimed: pairing clauses.

Decided:
  R1 exit-path pairing of the root stacks (Interpreter.env_guards, Interpreter.call_stack): in every
     function that both opens and closes a stack, every path from an opener to a return (each `?`
     included) passes a closer of the same stack;
  R2 functions that only open (or only close) are cross-function pairs and must be the discovered,
     reasoned ones (trampoline push <-> frame pop/unwind, push_scope <-> pop_scope);
  R3 co-occurrence: a function that pushes a call-stack entry pushes an environment guard and
     vice versa (frame entry/exit touch both stacks or neither);
  R4 run-time growth of permanent roots: `root_guard.alloc/guard` call sites reachable from
     step()/eval()/prepare() are exactly the module-lifetime sites.
Not decided: that the live count is constant (cycle collection itself is C13's undecided clause);
bytecode-level pairing of PushScope/PopScope on break/continue/return (decided under C01 R3).
"""
from common import Check
import facts as F
import mir as M
import exits as E

# functions that open a root stack and leave it open by design; the closer runs elsewhere
OPEN_ONLY = {
    "interpreter::Interpreter::push_env_guard": "primitive",
    "interpreter::Interpreter::push_scope": "primitive; closed by pop_scope",
    "interpreter::bytecode_vm::BytecodeVM::push_trampoline_frame_and_call_bytecode": "frame push; closed by restore_from_trampoline_frame / handle_error_with_trampoline_unwind",
    "interpreter::bytecode_vm::BytecodeVM::push_trampoline_frame_and_call_bytecode_construct": "frame push (construct); same closers",
}
CLOSE_ONLY = {
    "interpreter::Interpreter::pop_env_guard": "primitive",
    "interpreter::Interpreter::pop_scope": "primitive",
    "interpreter::bytecode_vm::BytecodeVM::restore_from_trampoline_frame": "frame pop on return",
    "interpreter::bytecode_vm::BytecodeVM::handle_error_with_trampoline_unwind": "frame pop on error unwind",
    "interpreter::bytecode_vm::BytecodeVM::find_exception_handler": "pops block scopes opened inside the try region being left",
    "interpreter::bytecode_vm::BytecodeVM::unwind_scopes_to": "pops the block scopes a jump leaves (break / continue / return / exception), added with fix 9f8131d",
    "interpreter::Interpreter::abort_active_execution": "disposes of a run the host stopped stepping: empties what the dead run pushed (C11 R6), added with fix fed24c2",
}
# dispatcher whose openers/closers are separate opcode arms: pairing is at bytecode level
DISPATCHERS = {"interpreter::bytecode_vm::BytecodeVM::execute_op": "Op::PushScope / Op::PopScope arms; paired by the compiler (C01 R3)"}

# root_guard call sites that may run after construction: objects that live as long as their module
ROOT_GUARD_RUNTIME = {
    "interpreter::Interpreter::create_module_environment": "module environment",
    "interpreter::Interpreter::create_native_function": "native function objects of registered modules",
    "interpreter::Interpreter::create_source_module_object": "namespace object of an internal source module (cached)",
    "interpreter::Interpreter::eval": "module environment of the entry program",
    "interpreter::Interpreter::execute_pending_module": "namespace object + environment of a loaded module (cached)",
    "interpreter::Interpreter::finalize_module_exports": "namespace object of the entry module",
    "interpreter::Interpreter::prepare": "module environment of the entry program",
    "interpreter::Interpreter::resolve_internal_module": "internal module object (cached)",
    "interpreter::Interpreter::setup_vm_from_program": "module environment of the entry program",
    "interpreter::Interpreter::register_ffi_module": "FFI module object (registered once by the host)",
}


# general-purpose helpers that allocate in the permanent root_guard: who may call them after construction
ROOT_HELPER_RUNTIME_CALLERS = {
    "interpreter::Interpreter::create_native_function": {"interpreter::Interpreter::create_internal_function": "functions of a registered internal native module"},
    "interpreter::Interpreter::create_internal_function": {"interpreter::Interpreter::create_native_module_object": "functions of a registered internal native module"},
}


def pairing(fx, ck):
    ck.rule("R1.exit-pairing", "from every opener of env_guards / call_stack each path to a return passes a closer of the same stack", floor=3)
    ck.rule("R2.cross-function", "open-only / close-only functions are the discovered cross-function pairs", floor=9)
    ck.rule("R3.co-occurrence", "frame entry/exit touch both root stacks (call_stack and env_guards) or neither", floor=3)
    seen_fn = 0
    for f in fx.fns.values():
        ev = E.events(fx, f)
        if not ev:
            continue
        seen_fn += 1
        path = f.path
        if path in DISPATCHERS:
            ck.instance("R2.cross-function", path + " (dispatcher)", F.short_span(f.span))
            continue
        for kind, name in (("G", "env_guards"), ("S", "call_stack")):
            opens = [e for e in ev if e[1] == kind and e[2] == "open"]
            closes = [e for e in ev if e[1] == kind and e[2] == "close"]
            if opens and closes:
                cb = {e[0] for e in closes}
                for (bi, _, _, what, sp) in opens:
                    esc = E.escapes(f, bi, cb)
                    ck.instance("R1.exit-pairing", "%s/%s/%s" % (path, name, what), F.short_span(sp), ok=esc is None)
                    if esc is not None:
                        ck.finding("R1.exit-pairing", "R1.exit-pairing/%s/%s" % (path, name), F.short_span(sp),
                                   "`%s`: after `%s` a path reaches the return at %s without popping %s (%s): the root stays on the interpreter forever"
                                   % (path, what, E.exit_description(f, esc), name, "; ".join(E.path_witness(f, bi, cb)) or "direct"),
                                   {"opener": sp, "exit": E.exit_description(f, esc), "path": E.path_witness(f, bi, cb)})
            elif opens:
                ok = path in OPEN_ONLY or M.only_called_from(fx, path, set(OPEN_ONLY))
                ck.instance("R2.cross-function", "%s opens %s" % (path, name), F.short_span(opens[0][4]), ok=ok)
                if not ok:
                    ck.finding("R2.cross-function", "R2.open-only/%s/%s" % (path, name), F.short_span(opens[0][4]),
                               "`%s` pushes onto %s (%s) and no path of the function pops it" % (path, name, opens[0][3]))
            elif closes:
                ok = path in CLOSE_ONLY or M.only_called_from(fx, path, set(CLOSE_ONLY)) or kind in E.closing_helpers(fx).get(path, ())
                ck.instance("R2.cross-function", "%s closes %s" % (path, name), F.short_span(closes[0][4]), ok=ok)
                if not ok:
                    ck.finding("R2.cross-function", "R2.close-only/%s/%s" % (path, name), F.short_span(closes[0][4]),
                               "`%s` pops %s without having pushed it and is not a designated frame/scope closer" % (path, name))
        # co-occurrence (primitives excluded)
        if path.endswith(("::push_env_guard", "::pop_env_guard", "::push_scope", "::pop_scope", "::find_exception_handler")):
            continue
        import loops as L
        loop_blocks = set()
        for hd, body in L.natural_loops(f):
            loop_blocks |= body
        for role in ("open", "close"):
            # scope-level events are not frame events: push_scope/pop_scope, a guard pushed once per element of a collection
            # (re-entering the block scopes of a resumed generator), and bulk closers (truncate / clear to a remembered depth)
            g = [e for e in ev if e[1] == "G" and e[2] == role and not e[3].endswith("_scope")
                 and not (role == "open" and e[0] in loop_blocks) and not e[3].endswith((".truncate", ".clear"))]
            s = [e for e in ev if e[1] == "S" and e[2] == role and not e[3].endswith((".truncate", ".clear"))]
            if g or s:
                ok = bool(g) and bool(s)
                ck.instance("R3.co-occurrence", "%s/%s" % (path, role), F.short_span((g or s)[0][4]), ok=ok)
                if not ok:
                    ck.finding("R3.co-occurrence", "R3.co-occurrence/%s/%s" % (path, role), F.short_span((g or s)[0][4]),
                               "`%s` %ss %s but not %s: frame bookkeeping is one-sided" %
                               (path, role, "env_guards" if g else "call_stack", "call_stack" if g else "env_guards"))
    for p in list(OPEN_ONLY) + list(CLOSE_ONLY) + list(DISPATCHERS):
        ck.anchor(p in fx.fns, "function " + p)
    return seen_fn


def root_guard_sites(fx):
    out = {}
    for f in fx.fns.values():
        for bi, t in f.calls():
            d = t[1].get("d", "")
            if d.startswith("gc::Guard::<T>::") and d.split("::")[-1] in ("alloc", "guard") and t[2] and t[2][0][0] in ("c", "m"):
                fl = E.field_of_ref(f, t[2][0][1][0])
                if fl and fl[0] == E.INTERP and fl[2] == "root_guard":
                    out.setdefault(f.parent, []).append(t[6])
        # &self.root_guard handed to a callee that allocates from it
        for bi, t in f.calls():
            for a in t[2][1:]:
                if a[0] in ("c", "m") and not a[1][1]:
                    fl = E.field_of_ref(f, a[1][0])
                    if fl and fl[0] == E.INTERP and fl[2] == "root_guard":
                        out.setdefault(f.parent, []).append(t[6])
    return out


def handler_unwind(fx, ck, name="R5.handler-unwinds-scopes"):
    """Every exit of find_exception_handler that hands control to a handler (returns Some) is dominated by an
    unwind of the block scopes down to the handler's recorded depth: a comparison of a value read from
    TryHandler.scope_depth with the scope stack, here or in a helper the depth is passed to.  A handler that
    is entered with the try block's scopes still pushed keeps their environment guards for as long as nothing
    re-throws (a `finally` that returns, breaks or continues): the guards leak and the next scope exit pops
    the wrong environment."""
    ck.rule(name, "each Some-return of find_exception_handler is dominated by an unwind to TryHandler.scope_depth", floor=1)
    f = fx.one("BytecodeVM::find_exception_handler")

    def from_depth(g, op, depth=0):
        if op[0] not in ("c", "m") or depth > 6:
            return False
        if any(isinstance(e, list) and e[0] == "f" and e[2] == "scope_depth" and e[3].endswith("TryHandler") for e in op[1][1]):
            return True
        d = g.defs().get(op[1][0], [])
        if len(d) == 1 and d[0][1] != "T" and d[0][2][0] == "use":
            return from_depth(g, d[0][2][1], depth + 1)
        return False

    def compares_param(g, pi):
        """g compares its parameter pi (a depth) in a loop that pops scopes"""
        pops = any(t[1].get("d", "").endswith("Interpreter::pop_scope") for _, t in g.calls())
        if not pops:
            return False
        import c10
        for bl in g.blocks:
            for st in bl["s"]:
                if st[0] == "a" and st[2][0] == "bin" and st[2][1] in ("Lt", "Le", "Gt", "Ge"):
                    for o in (st[2][2], st[2][3]):
                        if o[0] in ("c", "m") and not o[1][1] and c10.copy_root_local(g, o[1][0]) == pi:
                            return True
        return False
    unwind = set()
    for bi, bl in enumerate(f.blocks):
        for st in bl["s"]:
            if st[0] == "a" and st[2][0] == "bin" and st[2][1] in ("Lt", "Le", "Gt", "Ge") and (from_depth(f, st[2][2]) or from_depth(f, st[2][3])):
                unwind.add(bi)
        t = bl["t"]
        if t[0] == "call" and t[1].get("d") in fx.fns:
            for ai, a in enumerate(t[2]):
                if from_depth(f, a) and compares_param(fx.fns[t[1]["d"]], ai + 1):
                    unwind.add(bi)
    n = 0
    for bi, bl in enumerate(f.blocks):
        for st in bl["s"]:
            if st[0] == "a" and st[1][0] == 0 and not st[1][1] and st[2][0] == "agg" and isinstance(st[2][1], dict) and st[2][1].get("v") == "Some":
                n += 1
                ok = any(f.dominates(u, bi) for u in unwind)
                ck.instance(name, "find_exception_handler: return Some #%d" % n, F.short_span(st[3]), ok=ok)
                if not ok:
                    ck.finding(name, "%s/find_exception_handler" % name, F.short_span(st[3]),
                               "find_exception_handler hands control to a handler without unwinding the block scopes to handler.scope_depth: if the handler "
                               "does not re-throw (finally { return / break / continue }), the try block's scopes and their environment guards stay pushed")
    ck.anchor(n >= 1, "Some-returns of find_exception_handler (found %d)" % n)


def run(tier):
    ck = Check("C14", tier, "exit-path graph search on the MIR CFG (opener -> return avoiding closers) + who-may-open/close tables + call-graph reachability of permanent-root sites",
               ["that the number of live objects is constant across repetitions (needs the collector's semantics)",
                "bytecode-level PushScope/PopScope pairing on break/continue/return (C01 R3)"])
    fx = F.load("A")
    ck.configs.append("A: cargo +nightly check --lib --features c-api")
    pairing(fx, ck)
    ck.rule("R4.permanent-roots", "root_guard alloc/guard sites reachable after construction are the module-lifetime sites", floor=9)
    runtime = M.reachable_fns(fx, ["interpreter::Interpreter::step", "interpreter::Interpreter::eval", "interpreter::Interpreter::prepare",
                                   "interpreter::Interpreter::provide_module", "interpreter::Interpreter::fulfill_orders"])
    # natives are reachable through function pointers
    natives = set()
    for f in fx.fns.values():
        for bl in f.blocks:
            for s in bl["s"]:
                if s[0] == "a" and s[2][0] == "cast" and s[2][1].startswith("PointerCoercion:ReifyFnPointer"):
                    fn = M.const_fn(s[2][2])
                    if fn and fn in fx.fns:
                        natives.add(fn)
    runtime |= M.reachable_fns(fx, natives)
    ctor = M.reachable_fns(fx, ["interpreter::Interpreter::new", "interpreter::Interpreter::with_config"])
    for fn, spans in sorted(root_guard_sites(fx).items()):
        at_runtime = fn in runtime or fn not in ctor
        if not at_runtime:
            ck.instance("R4.permanent-roots", fn + " (construction only)", F.short_span(spans[0]))
            continue
        ok = fn in ROOT_GUARD_RUNTIME or M.only_called_from(fx, fn, set(ROOT_GUARD_RUNTIME))
        ck.instance("R4.permanent-roots", fn, F.short_span(spans[0]), ok=ok)
        if not ok:
            ck.finding("R4.permanent-roots", "R4.permanent-roots/" + fn, F.short_span(spans[0]),
                       "`%s` roots an object in the permanent root_guard at run time: it is never freed (+1 object per execution)" % fn)
    ck.rule("R4b.root-helper-callers", "helpers that allocate in root_guard are called after construction only by module registration", floor=2)
    callees, callers = fx.callgraph()
    for helper, allowed in ROOT_HELPER_RUNTIME_CALLERS.items():
        if not ck.anchor(helper in fx.fns, "function " + helper):
            continue
        for c in sorted(callers.get(helper, ())):
            if c not in runtime:
                continue
            ok = c in allowed
            ck.instance("R4b.root-helper-callers", "%s <- %s" % (helper.split("::")[-1], c), F.short_span(fx.fns[c].span) if c in fx.fns else None, ok=ok)
            if not ok:
                ck.finding("R4b.root-helper-callers", "R4b.root-helper-callers/%s/%s" % (helper.split("::")[-1], c), F.short_span(fx.fns[c].span) if c in fx.fns else None,
                           "`%s` runs after construction and calls `%s`, which allocates in the permanent root_guard: every call leaves an object that is never freed" % (c, helper))
    ck.assume("objects of loaded modules are meant to live as long as the interpreter (module cache)")
    handler_unwind(fx, ck)
    run_end_scopes(fx, ck)
    # ---------------- R9 a root added to the register guard has a remover
    # `set_reg` roots the incoming value in BytecodeVM.register_guard and unroots the value it overwrites: the guard holds one root per occupied
    # register.  A function that adds a root to that guard by any other route - `register_guard.guard(v)` before `set_reg(.., v)`, or an allocation
    # through `&self.register_guard` - leaves a root that nothing removes until the frame exits: one per call that returns an object, per generator
    # created, per for-in loop started.  A loop of a long-running program keeps every such object alive (live objects grow linearly during the run).
    import exits as E9
    ck.rule("R9.register-roots-paired", "every function that roots a value through BytecodeVM.register_guard (guard(), or lending the guard to an allocator) also removes roots "
                                        "through it (unguard / clear / replace): the guard holds one root per occupied register", floor=2)
    VM9 = "interpreter::bytecode_vm::BytecodeVM"
    per9 = {}
    for p9, f9 in sorted(fx.fns.items()):
        if f9.derived:
            continue
        for bi, t in f9.calls():
            for ai, a in enumerate(t[2]):
                if a[0] in ("c", "m") and not a[1][1]:
                    fl = E9.field_of_ref(f9, a[1][0])
                    if fl and fl[0] == VM9 and fl[2] == "register_guard":
                        nm = (t[1].get("d") or "").split("::")[-1]
                        kind = "remove" if (ai == 0 and nm in ("unguard", "clear", "replace", "take", "swap")) else "add"
                        per9.setdefault(f9.parent if f9.closure else f9.path, []).append((kind, nm, t[6]))
    ck.anchor(any(k == "add" for v in per9.values() for k, _, _ in v) and any(k == "remove" for v in per9.values() for k, _, _ in v),
              "functions adding and removing roots through BytecodeVM.register_guard (found %d functions)" % len(per9))
    for top9, uses9 in sorted(per9.items()):
        adds = [u for u in uses9 if u[0] == "add"]
        rems = [u for u in uses9 if u[0] == "remove"]
        if not adds:
            ck.instance("R9.register-roots-paired", "%s: removes roots only (%s)" % (top9, ", ".join(sorted({u[1] for u in rems}))), F.short_span(rems[0][2]), nontrivial=False)
            continue
        ok9 = bool(rems)
        ck.instance("R9.register-roots-paired", "%s: roots through register_guard via %s" % (top9, ", ".join(sorted({u[1] for u in adds}))), F.short_span(adds[0][2]), ok=ok9)
        if not ok9:
            ck.finding("R9.register-roots-paired", "R9.register-roots-paired/%s" % top9, F.short_span(adds[0][2]),
                       "`%s` adds a root to the frame's register guard (%s) and never removes one: the value is rooted a second time when it is written to its register, "
                       "and only that second root goes away when the register is overwritten - `for (..) s += mk(i).i` keeps every object `mk` returned alive until the "
                       "frame exits" % (top9, ", ".join(sorted({u[1] for u in adds}))))
    return ck.finish()


def run_end_scopes(fx, ck):
    """R7 / R8: the block scopes a VM run has open when it ends do not stay on the interpreter.

    Every `PushScope` puts a guard on `Interpreter.env_guards` (and the saved environment on the VM's `saved_env_stack`).  A run can end with
    scopes open in two ways: an error for which no frame has a handler, and a generator's `yield`.
      R7: the function that gives the error back to the run's caller after the handler search failed unwinds the scopes of the frame it is in
          (`unwind_scopes_to(.., 0)` or a drain of `saved_env_stack`) before its `Err` return - the caller may be a native function
          (`forEach`, a getter), which cannot do it.
      R8: a function that lets a run end in `Yield` (it moves the yielded state into a generator object) brings `env_guards` back to the depth
          it found on every path after the run: the scopes are re-entered at the resume, which pushes their guards again."""
    import exits as E
    from c09 import ancestors
    ck.rule("R7.uncaught-error-unwinds", "the error dispatcher unwinds the current frame's block scopes before it returns the error to the run's caller", floor=1)
    disp = [f for f in fx.fns.values() if not f.closure and f.path.startswith("interpreter::bytecode_vm::BytecodeVM::") and
            any((t[1].get("d") or "").endswith("find_exception_handler") for bi, t in f.calls()) and "Result<(), error::JsError>" in fx.tys(f.locals[0])]
    # a helper that only looks at the current frame on behalf of the dispatcher (`catch_in_current_frame`) is not the one that gives the error back
    # to the run's caller: keep the functions that are not called exclusively by another function returning Result<(), JsError> in the VM
    def vm_result_fn(g):
        return not g.closure and g.path.startswith("interpreter::bytecode_vm::BytecodeVM::") and "Result<(), error::JsError>" in fx.tys(g.locals[0])
    inner = set()
    for g in disp:
        callers = [h for h in fx.fns.values() if not h.derived and any(t[1].get("d") == g.path for _, t in h.calls())]
        if callers and all(vm_result_fn(fx.fns[h.parent] if h.closure else h) for h in callers):
            inner.add(g.path)
            for h in callers:
                hh = fx.fns[h.parent] if h.closure else h
                if hh not in disp:
                    disp.append(hh)
    disp = [g for g in disp if g.path not in inner]
    ck.anchor(bool(disp), "error dispatcher (calls find_exception_handler, returns Result<(), JsError>)")
    for f in disp:
        errs = [bi for bi, bl in enumerate(f.blocks) for st in bl["s"]
                if st[0] == "a" and st[1][0] == 0 and st[2][0] == "agg" and st[2][1].get("v") == "Err"]
        unw = set()
        for bi, t in f.calls():
            d = t[1].get("d") or ""
            if d.endswith("unwind_scopes_to") and len(t[2]) > 2 and M.const_int(t[2][2]) == 0:
                unw.add(bi)
            if d.endswith(("Vec::<T, A>::pop", "Vec::<T, A>::drain", "Vec::<T, A>::clear")) and t[2] and t[2][0][0] in ("c", "m"):
                fl = E.field_of_ref(f, t[2][0][1][0])
                if fl and fl[2] == "saved_env_stack":
                    unw.add(bi)
        for eb in errs:
            # the last unwinding before this return must not be followed by a frame switch (the trampoline loop restores
            # `saved_env_stack` from the popped frame): require an unwind that dominates the return and is not inside a loop
            # whose body reassigns saved_env_stack afterwards
            ok = False
            for ub in unw:
                if not f.dominates(ub, eb):
                    continue
                reassigned = False
                for b2 in f.reachable_from(ub):
                    if b2 == eb or not f.dominates(ub, b2):
                        continue
                    for st in f.blocks[b2]["s"]:
                        if st[0] == "a" and st[1][1] and F.place_fields(st[1]) and F.place_fields(st[1])[-1][2] == "saved_env_stack" and eb in f.reachable_from(b2):
                            reassigned = True
                if not reassigned:
                    ok = True
            ck.instance("R7.uncaught-error-unwinds", "%s: Err return" % f.path, F.short_span(f.span), ok=ok)
            if not ok:
                ck.finding("R7.uncaught-error-unwinds", "R7.uncaught-error-unwinds/%s" % f.path, F.short_span(f.span),
                           "`%s` returns the error to the run's caller while the block scopes of the frame it ended in are still open: when the caller is a "
                           "native function their guards stay on `env_guards` for ever (`try { [1].forEach(() => { { let o = {}; throw 0 } }) } catch {}`: "
                           "+1 live object per run)" % f.path)
    ck.rule("R8.yield-restores-guard-depth", "a function that lets a run end in Yield truncates env_guards to the depth it found, on every path after the run", floor=2)
    runs = {p for p in fx.fns if p.endswith("BytecodeVM::run")}
    for p, f in sorted(fx.fns.items()):
        if f.closure or not p.startswith("interpreter::Interpreter::"):
            continue
        sites = [bi for bi, t in f.calls() if t[1].get("d") in runs]
        if not sites:
            continue
        yields = False
        for sb, en, place, arms, other, rest in M.enum_switches(fx, f):
            if en.endswith("VmResult") and "Yield" in arms:
                region = M.dominated_region(f, arms["Yield"])
                # the arm keeps the state (it does not just report an internal error)
                def keeps_state(g, blocks):
                    return any(st[0] == "a" and st[1][1] and F.place_fields(st[1]) and "saved_" in F.place_fields(st[1])[-1][2] for b in blocks for st in g.blocks[b]["s"])
                if keeps_state(f, region):
                    yields = True
                # ... or hands it to a helper that does (`park_generator(&gen_state, &mut vm_state, ..)`)
                for b in region:
                    t0 = f.blocks[b]["t"]
                    h = fx.fns.get(t0[1].get("d") or "") if t0[0] == "call" else None
                    if h is not None and t0[1].get("local") and keeps_state(h, range(len(h.blocks))):
                        yields = True
        if not yields:
            continue
        truncs = set()
        for bi, t in f.calls():
            d = t[1].get("d") or ""
            if d.endswith(("Vec::<T, A>::truncate", "Vec::<T, A>::clear")) and t[2] and t[2][0][0] in ("c", "m"):
                fl = E.field_of_ref(f, t[2][0][1][0])
                if fl and fl[2] == "env_guards":
                    truncs.add(bi)
            # a clean-up helper of this function that truncates env_guards (see exits.closing_helpers)
            if d in E.closing_helpers(fx) and "G" in E.closing_helpers(fx)[d]:
                truncs.add(bi)
        for sb in sites:
            esc = E.escapes(f, sb, truncs)
            ck.instance("R8.yield-restores-guard-depth", "%s: run at %s" % (p, F.short_span(f.blocks[sb]["t"][6])), F.short_span(f.blocks[sb]["t"][6]), ok=esc is None)
            if esc is not None:
                ck.finding("R8.yield-restores-guard-depth", "R8.yield-restores-guard-depth/%s" % p, F.short_span(f.blocks[sb]["t"][6]),
                           "`%s` runs a generator's VM, which can end with block scopes open (a `yield` inside a block), and returns (%s) without bringing "
                           "`env_guards` back to the depth it found: the guards of those scopes pile up (`for (..) { let o = {}; yield o }`: +10 live "
                           "objects per run of the loop)" % (p, E.exit_description(f, esc)))
