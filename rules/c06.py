"""C06 - the host keeps control: bounded steps, no script can abort the process.

Decided:
  R1 re-entrancy roots: `BytecodeVM::run` (an unbounded loop on the native stack, invisible to
     call_depth()) is reachable from step()'s instruction dispatch only through the listed root
     functions; each root is a genuine known finding; a new root is a violation.  The natives from
     which a root is reachable are frozen in a table: a new re-entrant native is a violation;
  R2 no Ref/RefMut of a script object or promise/generator state is held across a call that may
     re-enter script (RefCell double-borrow = process panic);
  R3 native recursion over script-built structures: every recursive cycle of the call graph that
     runs after construction and outside the parser/compiler has a depth guard (a comparison of a
     depth counter against a constant with an early exit), or a reasoned bound;
  R4 script-controlled sizes reaching allocation sinks (with_capacity / vec![x; n] / str::repeat /
     resize / reserve) are bounded by a dominating upper-bound check or min();
  R5 explicit panic sites (panic!/unwrap/expect and their std entry points, macro-generated
     included) are the reasoned ones; divisors of integer divisions are non-zero constants or
     range-guarded;
  R6 loop progress in the instruction dispatch: every natural loop in execute_op / run is driven
     by an iterator, a drain or a constant-step counter (or is a reasoned walk over an acyclic
     structure).
Not decided: a numeric bound on the work of one native; wall-clock time; arithmetic overflow on
script-derived integers in debug builds (about 400 checked sites; see evidence).
"""
import os
import re
import sys

from common import Check
import facts as F
import mir as M
import hazards as H
import sizetaint as S
import loops as L
import c10

RUN = "interpreter::bytecode_vm::BytecodeVM::run"
EXEC = "interpreter::bytecode_vm::BytecodeVM::execute_op"
# direct callers of `run` that are API contracts, not re-entrancy
RUN_OK = {"interpreter::Interpreter::run_vm_to_completion": "eval(): runs to completion by contract of that entry point"}
TABLE = os.path.join(os.path.dirname(os.path.abspath(__file__)), "tables", "c06_reentrant_natives.txt")
ARM_TABLE = os.path.join(os.path.dirname(os.path.abspath(__file__)), "tables", "c06_reentrant_arms.txt")

# recursion cycles with a reasoned bound (key = lexicographically first member)
RECURSION_BOUNDED = {
    "interpreter::builtins::json::json_to_js_value_with_guard": "recurses over a serde_json::Value, whose depth serde_json limits to 128 while parsing",
    "value::JsValue::to_js_string": "the only self-call is on a JsValue::Number built in place (depth 1)",
    "interpreter::Interpreter::resolve_module_property": "follows re-export chains between modules: depth bounded by the number of modules the host supplied",
}
EXPLICIT_PANICS_OK = {
    "gc::Space::<T>::alloc_internal": "collector invariants (free-list pointer valid, chunk exists after push): `#[allow(clippy::panic)]` by design",
    "gc::Guard::<T>::alloc": "heap dropped while a guard is alive: documented panic",
    "interpreter::bytecode_vm::BytecodeVM::set_reg": "debug_assert! on the register index (compiled out in release)",
    "gc::ChunkBitmask::set": "debug_assert!(index < 256) (compiled out in release; the index range is decided under C13 O2)",
    "gc::ChunkBitmask::get": "debug_assert!(index < 256) (compiled out in release; C13 O2)",
}
# `(LO..=HI).contains(&x)` guards whose range is a promoted constant (bounds read from the source)
RANGE_CONST_OK = {"interpreter::builtins::number::number_to_string": (2, 36)}
# loops in the dispatch that walk an acyclic structure (reason checked elsewhere)
LOOP_OK = {}


def natives(fx):
    out = set()
    for f in fx.fns.values():
        for bl in f.blocks:
            for s in bl["s"]:
                if s[0] == "a" and s[2][0] == "cast" and s[2][1].startswith("PointerCoercion:ReifyFnPointer"):
                    fn = M.const_fn(s[2][2])
                    if fn and fn in fx.fns and "interpreter::Interpreter" in fx.tys(s[2][4]):
                        out.add(fn)
    return out


def sccs(fx):
    sys.setrecursionlimit(100000)
    callees, _ = fx.callgraph()
    local = {k: {c for c in v if c in callees} for k, v in callees.items()}
    index, low, st, on, out, idx = {}, {}, [], set(), [], [0]
    for root in sorted(local):
        if root in index:
            continue
        work = [(root, iter(sorted(local.get(root, ()))))]
        index[root] = low[root] = idx[0]
        idx[0] += 1
        st.append(root)
        on.add(root)
        while work:
            v, it = work[-1]
            adv = False
            for w in it:
                if w not in index:
                    index[w] = low[w] = idx[0]
                    idx[0] += 1
                    st.append(w)
                    on.add(w)
                    work.append((w, iter(sorted(local.get(w, ())))))
                    adv = True
                    break
                elif w in on:
                    low[v] = min(low[v], index[w])
            if adv:
                continue
            work.pop()
            if work:
                u = work[-1][0]
                low[u] = min(low[u], low[v])
            if low[v] == index[v]:
                comp = []
                while True:
                    w = st.pop()
                    on.discard(w)
                    comp.append(w)
                    if w == v:
                        break
                if len(comp) > 1 or v in local.get(v, ()):
                    out.append(sorted(comp))
    return out


def depth_guarded(fx, comp):
    """some function of the cycle compares an integer parameter against a constant (early exit) and
    some call inside the cycle passes `integer parameter + constant` (the depth counter)"""
    compares = False
    increments = False
    for p in comp:
        for f in fx.body_group(fx.fns[p]) if p in fx.fns else []:
            params = {i for i in range(1, f.argc + 1) if fx.tys(f.locals[i]) in ("usize", "u32", "u64", "i32", "u8", "u16")}
            if not params:
                continue
            for bl in f.blocks:
                for s in bl["s"]:
                    if s[0] == "a" and s[2][0] == "bin" and s[2][1] in ("Ge", "Gt", "Lt", "Le") and (c10.const_bound(fx, f, s[2][3]) is not None or c10.const_bound(fx, f, s[2][2]) is not None):
                        for op in (s[2][2], s[2][3]):
                            if op[0] in ("c", "m") and not op[1][1] and c10.copy_root_local(f, op[1][0]) in params:
                                compares = True
            for bi, t in f.calls():
                if t[1].get("d") in comp:
                    for a in t[2]:
                        if a[0] in ("c", "m") and not a[1][1]:
                            d0 = M.trace_back(f, a[1][0])
                            if d0 and d0[1] != "T":
                                rv = d0[2]
                                if rv[0] == "use" and rv[1][0] in ("c", "m") and len(rv[1][1][1]) == 1:
                                    d1 = M.trace_back(f, rv[1][1][0])
                                    if d1 and d1[1] != "T":
                                        rv = d1[2]
                                if rv[0] == "bin" and rv[1].startswith("Add") and rv[2][0] in ("c", "m") and not rv[2][1][1] and c10.copy_root_local(f, rv[2][1][0]) in params:
                                    increments = True
    return compares and increments


def run(tier):
    ck = Check("C06", tier, "call-graph reachability to the VM run loop, RefCell-guard-held-across-re-entry dataflow, recursive SCCs with depth-guard recognition, size-taint to allocation sinks, panic-site inventory, natural-loop progress classification in the dispatch",
               ["a numeric bound on the work done by one native call", "wall-clock time per step",
                "checked arithmetic on script-derived integers (panics in debug builds, wraps in release): about 400 Assert sites are inventoried in evidence, not discharged"])
    fx = F.load("A")
    ck.configs.append("A: cargo +nightly check --lib --features c-api")
    callees, callers = fx.callgraph()
    ck.anchor(RUN in fx.fns and EXEC in fx.fns, "BytecodeVM::run and BytecodeVM::execute_op")

    # ---------------- R1
    ck.rule("R1.reentry-roots", "BytecodeVM::run is called only by the eval() driver and by the listed re-entrancy roots", floor=4)
    nat = natives(fx)
    for c in sorted(callers.get(RUN, ())):
        if c in RUN_OK:
            ck.instance("R1.reentry-roots", c + " (entry-point contract)", F.short_span(fx.fns[c].span))
            continue
        ck.instance("R1.reentry-roots", c, F.short_span(fx.fns[c].span), ok=False)
        ck.finding("R1.reentry-roots", "R1.reentry-roots/" + c, F.short_span(fx.fns[c].span),
                   "`%s` runs a nested VM loop on the native stack: script reached through it executes inside ONE host step(), so step budgets, "
                   "call_depth() limits and timeouts do not apply, and deep recursion overflows the native stack" % c)
    ck.rule("R1b.reentrant-natives", "the set of natives from which the VM run loop is reachable is the frozen table (a new re-entrant native is a violation)", floor=50)
    reent = H.may_reenter(fx)
    cur = sorted(n for n in nat if n in reent)
    try:
        table = [l.strip() for l in open(TABLE) if l.strip() and not l.startswith("#")]
    except OSError:
        table = []
        ck.closed_fail.append("table of re-entrant natives missing: " + TABLE)
    for n in cur:
        ok = n in table
        ck.instance("R1b.reentrant-natives", n, F.short_span(fx.fns[n].span), ok=ok)
        if not ok:
            path = M.shortest_path(fx, n, {RUN})
            ck.finding("R1b.reentrant-natives", "R1b.reentrant-natives/" + n, F.short_span(fx.fns[n].span),
                       "native `%s` can now re-enter the VM run loop (%s): script run from it escapes step accounting" % (n, " -> ".join(x.split("::")[-1] for x in (path or []))))
    ck.note("%d natives, %d re-entrant (table has %d)" % (len(nat), len(cur), len(table)))
    # R1d: the same freeze for the instruction dispatch.  An opcode arm that calls a function from which the run loop is reachable executes
    # script inside the current step.  The arms that do so today (coercions of operands, accessors, iterator protocol, decorators, proxies,
    # eval) are listed; the call opcodes are not among them - a callee chosen by the script is entered through the trampoline
    # (OpResult::Call).  A new arm, `Call` above all, is a violation.
    ck.rule("R1d.reentrant-dispatch-arms", "the opcode arms of execute_op from which the VM run loop is reachable natively are the frozen table "
                                           "(calls of script functions go through the trampoline)", floor=40)
    ex = fx.fns[EXEC]
    best = None
    for bi, en, pl, arms, other, rest in M.enum_switches(fx, ex):
        if str(en).endswith("bytecode::Op") and (best is None or len(arms) > len(best[3])):
            best = (bi, en, pl, arms, other, rest)
    try:
        arm_table = [l.strip() for l in open(ARM_TABLE) if l.strip() and not l.startswith("#")]
    except OSError:
        arm_table = []
        ck.closed_fail.append("table of re-entrant opcode arms missing: " + ARM_TABLE)
    if ck.anchor(best is not None and len(best[3]) >= 100, "the opcode dispatch of execute_op (%d arms)" % (len(best[3]) if best else 0)):
        found = {}
        regions = {v: M.dominated_region(ex, t) for v, t in best[3].items()}
        for b2, t in ex.calls():
            d = t[1].get("d")
            if d in reent or "ptr" in t[1]:
                for v, reg in regions.items():
                    if b2 in reg:
                        found.setdefault(v, []).append((d or "function pointer", t[6]))
        for v in sorted(found):
            ok = v in arm_table
            ck.instance("R1d.reentrant-dispatch-arms", "Op::%s -> %s" % (v, ", ".join(sorted({x[0].split("::")[-1] for x in found[v]}))), F.short_span(found[v][0][1]), ok=ok)
            if not ok:
                ck.finding("R1d.reentrant-dispatch-arms", "R1d.reentrant-dispatch-arms/" + v, F.short_span(found[v][0][1]),
                           "the arm of `Op::%s` calls `%s`, from which the VM run loop is reachable: script entered there runs to completion on the native stack inside one "
                           "step() - no step budget, no call_depth(), native stack overflow on deep recursion (`String.prototype.spin = function () { for (;;) {} }; 'x'.spin()`)"
                           % (v, found[v][0][0]))

    # ---------------- R2
    ck.rule("R2.borrow-across-reentry", "no Ref/RefMut of a script object / promise / generator state is live at a call that may re-enter script", floor=300)

    def hz(t):
        c = t[1]
        if "ptr" in c:
            return "calls a native through a function pointer"
        d = c["d"]
        if d in reent:
            return "re-enters script via %s" % d
        return None
    nfn = 0
    for f in fx.fns.values():
        if f.derived or not any(H.ref_kind(fx, ti) for ti in f.locals):
            continue
        nfn += 1
        hits = H.held_across(fx, f, hz)
        ck.instance("R2.borrow-across-reentry", f.path, None, ok=not hits)
        for bi, t, l, kind, why in hits:
            ck.finding("R2.borrow-across-reentry", "R2.borrow-across-reentry/%s/%s" % (f.parent, (t[1].get("d") or "fnptr").split("::")[-1]), F.short_span(t[6]),
                       "`%s` holds a %s<%s> while it %s: a callee that touches the same cell panics the process (RefCell already borrowed)" % (f.parent, kind[0], kind[1], why))

    # ---------------- R3
    ck.rule("R3.native-recursion", "recursive call-graph cycles that run on script-built structures have a depth guard or a reasoned bound", floor=15)
    runtime = M.reachable_fns(fx, ["interpreter::Interpreter::step", "interpreter::Interpreter::eval"]) | M.reachable_fns(fx, nat)
    from common import load_known
    known_r3 = {k[1].split("/", 1)[1] for k in load_known() if k[0] == "C06" and k[1].startswith("R3.native-recursion/")}
    for comp in sccs(fx):
        # the cycle is named after the member that already names it in the known-findings file, if any, so that
        # extracting a helper out of a recursive function does not rename the finding; same for the bound table
        key = next((p for p in comp if p in known_r3), None) or next((p for p in comp if p in RECURSION_BOUNDED), None) or comp[0]
        if comp[0].startswith(("parser::", "compiler::", "lexer::")):
            continue  # decided under C05
        if not any(p in runtime for p in comp):
            continue
        if RUN in comp or any(p in callers.get(RUN, ()) for p in comp):
            ck.instance("R3.native-recursion", key + " (+%d): the re-entrancy cycle, reported by R1" % (len(comp) - 1), None)
            continue
        if depth_guarded(fx, comp):
            ck.instance("R3.native-recursion", key + " (depth guard found)", F.short_span(fx.fns[key].span))
            continue
        if key in RECURSION_BOUNDED:
            ck.instance("R3.native-recursion", key + " (bounded: %s)" % RECURSION_BOUNDED[key], F.short_span(fx.fns[key].span))
            continue
        ck.instance("R3.native-recursion", key, F.short_span(fx.fns[key].span), ok=False)
        ck.finding("R3.native-recursion", "R3.native-recursion/" + key, F.short_span(fx.fns[key].span),
                   "`%s`%s recurses on the native stack with a depth the script controls (prototype / proxy / bound-function chains, nested values) and has no depth guard: a deep enough structure overflows the stack and aborts the process"
                   % (key, (" (cycle of %d functions)" % len(comp)) if len(comp) > 1 else ""))

    # ---------------- R1c the VM's own call path trampolines every kind of callee that runs script
    # Interpreter::call_function_with_new_target says, per JsFunction variant, what calling it means.  A variant
    # whose arm there hands control to a function from which BytecodeVM::run is reachable (it runs bytecode, or
    # unwraps to another callee) executes script; when such a callee is called FROM bytecode, the VM must push a
    # trampoline frame for it (an explicit arm in setup_trampoline_call) - the generic fallback runs it in a
    # nested VM on the native stack, inside one step(), out of reach of the host's step and depth budgets.
    ck.rule("R1c.trampoline-covers", "every JsFunction variant whose interpreter-side call runs script has an arm of its own in BytecodeVM::setup_trampoline_call", floor=4)
    JF = "value::JsFunction"

    def widest_switch(fn_suffix):
        f0 = fx.one(fn_suffix)
        best = None
        for g in fx.body_group(f0):
            for sw in M.enum_switches(fx, g):
                if sw[1] == JF and (best is None or len(sw[3]) > len(best[1][3])):
                    best = (g, sw)
        return best
    ia = widest_switch("Interpreter::call_function_with_new_target")
    va = widest_switch("BytecodeVM::setup_trampoline_call")
    if ck.anchor(ia is not None and va is not None, "match on JsFunction in call_function_with_new_target and in setup_trampoline_call"):
        g, sw = ia
        vm_arms = set(va[1][3])
        reach_run = {}
        for var, tgt in sorted(sw[3].items()):
            region = M.dominated_region(g, tgt) if len(g.preds()[tgt]) == 1 else {tgt}
            runs = []
            for b in region:
                t = g.blocks[b]["t"]
                if t[0] == "call" and t[1].get("d") in fx.fns and t[1].get("local"):
                    c = fx.fns[t[1]["d"]].parent
                    if c not in reach_run:
                        reach_run[c] = RUN in M.reachable_fns(fx, [c])
                    if reach_run[c]:
                        runs.append(c.split("::")[-1])
            if not runs:
                continue
            ok = var in vm_arms
            ck.instance("R1c.trampoline-covers", "JsFunction::%s (runs script through %s)" % (var, ", ".join(sorted(set(runs))[:2])), F.short_span(g.span), ok=ok)
            if not ok:
                ck.finding("R1c.trampoline-covers", "R1c.trampoline-covers/" + var, F.short_span(va[0].span),
                           "calling a JsFunction::%s runs script (%s) but BytecodeVM::setup_trampoline_call has no arm for it: called from bytecode it falls to the generic "
                           "path, which runs it in a nested VM on the native stack inside one step() - step and depth budgets of the host do not see it"
                           % (var, ", ".join(sorted(set(runs))[:2])))

    # ---------------- R4
    ck.rule("R4.size-taint", "script-controlled sizes reaching allocation sinks are bounded", floor=25)
    for f, bi, t, d, tainted, bnd in S.sites(fx):
        if d.endswith("Iterator::take"):
            continue  # lazy: allocates nothing
        ok = (not tainted) or bool(bnd)
        ck.instance("R4.size-taint", "%s -> %s" % (f.parent, d.split("::")[-1]), F.short_span(t[6]), ok=ok, nontrivial=tainted)
        if not ok:
            ck.finding("R4.size-taint", "R4.size-taint/%s/%s" % (f.parent, d.split("::")[-1]), F.short_span(t[6]),
                       "`%s` passes a script-controlled size to `%s` without an upper bound: a huge size aborts the process on allocation failure" % (f.parent, d))

    # ---------------- R5
    ck.rule("R5a.explicit-panics", "explicit panic entry points are reached only from the reasoned sites", floor=3)
    PANIC = re.compile(r"^(core::panicking::panic|std::rt::begin_panic|core::option::unwrap_failed|core::result::unwrap_failed|core::option::expect_failed|std::process::abort|core::slice::index::slice_|core::str::slice_error|core::cell::panic_already)|::(unwrap|expect|unwrap_unchecked)$")
    for f in fx.fns.values():
        if f.file.startswith(("src/ffi", "src/bin")):
            continue
        for bi, t in f.calls():
            d = t[1].get("d", "")
            if PANIC.search(d):
                ok = f.parent in EXPLICIT_PANICS_OK or M.only_called_from(fx, f.parent, set(EXPLICIT_PANICS_OK))
                ck.instance("R5a.explicit-panics", "%s -> %s" % (f.parent, d.split("::")[-1]), F.short_span(t[6]), ok=ok)
                if not ok:
                    ck.finding("R5a.explicit-panics", "R5a.explicit-panics/%s/%s" % (f.parent, d.split("::")[-1]), F.short_span(t[6]),
                               "`%s` can reach `%s`: a script-triggerable panic aborts the embedding process" % (f.parent, d))
    # R5c index expressions (zero-expected; shared with C05; fixture controls)
    import indexpanic
    indexpanic.rule(fx, ck, "R5c.index-panics", lambda g: not g.file.startswith(("src/ffi", "src/bin")), "a script-chosen index must not abort the host")
    cf = indexpanic.control(F.load_fixture())
    if cf:
        ck.closed_fail.append(cf)
    ck.rule("R5b.division", "integer divisors are non-zero constants or range-guarded", floor=40)
    narith = 0
    for f in fx.fns.values():
        if f.file.startswith(("src/ffi", "src/bin")) or f.derived:
            continue
        for bi, bl in enumerate(f.blocks):
            t = bl["t"]
            if t[0] != "assert":
                continue
            if t[1] not in ("DivisionByZero", "RemainderByZero"):
                narith += 1
                continue
            cond = t[2]
            divisor = None
            if cond[0] in ("c", "m"):
                for (b, si, rv) in f.defs().get(cond[1][0], []):
                    if si != "T" and rv[0] == "bin" and rv[1] in ("Eq", "Ne"):
                        divisor = rv[2] if M.const_int(rv[3]) == 0 else rv[3]
            v = c10.const_bound(fx, f, divisor) if divisor else None
            ok = v is not None and v != 0
            if not ok and divisor and divisor[0] in ("c", "m"):
                ok = range_contains_guard(fx, f, bi, divisor[1][0])
            if not ok and divisor and divisor[0] in ("c", "m") and not f.closure and f.vis != "Public":
                # the divisor is a parameter of a private helper: every caller passes a non-zero constant or a range-guarded value
                # (`format_magnitude_in_radix(n, radix as i64)` behind `(2..=36).contains(&radix)`)
                root = c10.root_of(f, divisor[1][0])
                root = root[1] if isinstance(root, tuple) and root[0] == "local" else None
                if isinstance(root, int) and 1 <= root <= f.argc:
                    _, callers_ = fx.callgraph()
                    sites_ = [(g, cb, ct) for g in fx.fns.values() for cb, ct in g.calls() if ct[1].get("d") == f.path]
                    if sites_:
                        ok = True
                        for g, cb, ct in sites_:
                            a = ct[2][root - 1] if root - 1 < len(ct[2]) else None
                            va = c10.const_bound(fx, g, a) if a else None
                            if va is not None and va != 0:
                                continue
                            if a and a[0] in ("c", "m") and range_contains_guard(fx, g, cb, a[1][0]):
                                continue
                            ok = False
            ck.instance("R5b.division", "%s/%s" % (f.parent, t[1]), F.short_span(t[8]), ok=ok)
            if not ok:
                ck.finding("R5b.division", "R5b.division/%s" % f.parent, F.short_span(t[8]),
                           "`%s` divides by a value that is not provably non-zero: division by zero panics in every build profile" % f.parent)
    ck.note("checked arithmetic sites (Overflow asserts) inventoried, not discharged: %d" % narith)

    # ---------------- R6b prototype chains stay acyclic (side condition of the prototype-walk loop)
    ck.rule("R6b.prototype-acyclic", "every write of JsObject.prototype targets an object allocated in the same function, or is dominated by the cycle check", floor=40)
    proto_ok = True
    for f, bi, sp, fresh in prototype_writes(fx):
        checked = cycle_checked(f, bi)
        ok = fresh or checked
        ck.instance("R6b.prototype-acyclic", "%s%s" % (f.parent, " (cycle check)" if checked else ""), F.short_span(sp), ok=ok)
        if not ok:
            proto_ok = False
            ck.finding("R6b.prototype-acyclic", "R6b.prototype-acyclic/" + f.parent, F.short_span(sp),
                       "`%s` sets the prototype of an existing object without the cycle check: a cyclic prototype chain makes `instanceof` spin forever inside one step() and property lookup overflow the stack" % f.parent)

    # ---------------- R6
    ck.rule("R6.dispatch-loops", "natural loops of the instruction dispatch are iterator / drain / counter driven", floor=10)
    for name in (EXEC, RUN, "interpreter::bytecode_vm::BytecodeVM::step", "interpreter::Interpreter::step"):
        f = fx.fns.get(name)
        if not ck.anchor(f is not None, "function " + name):
            continue
        for h, body in L.natural_loops(f):
            kinds = L.classify(fx, f, h, body)
            where = loop_span(f, h, body)
            driven = bool(kinds & {"iterator", "counter"})
            if name == RUN and not driven:
                ck.instance("R6.dispatch-loops", "run: the interpreter loop itself (one instruction per iteration; only eval() and the R1 roots call it)", where)
                continue
            key = loop_key(f, h, body)
            if not driven and "prototype" in key.split("+") and proto_ok:
                ck.instance("R6.dispatch-loops", "%s: prototype-chain walk (chains are acyclic by R6b)" % name.split("::")[-1], where)
                continue
            ck.instance("R6.dispatch-loops", "%s loop" % name.split("::")[-1], where, ok=driven)
            if not driven:
                ck.finding("R6.dispatch-loops", "R6.dispatch-loops/%s/%s" % (name.split("::")[-1], loop_key(f, h, body)), where,
                           "a loop inside `%s` is not driven by an iterator, a drain or a constant-step counter (exit tests: %s): if the data it walks can be "
                           "made cyclic or self-referential by a script, one step() never returns" % (name.split("::")[-1], ", ".join(sorted(kinds)) or "data dependent"))
    return ck.finish()


FRESH = re.compile(r"(::alloc$|::create_[a-z_]+$|::alloc_internal$)")


def prototype_writes(fx):
    """(fn, span, fresh?) for every write of JsObject.prototype"""
    out = []
    for f in fx.fns.values():
        if f.impl_trait and f.impl_trait.endswith("gc::Reset"):
            continue
        for bi, bl in enumerate(f.blocks):
            if bl["c"]:
                continue  # unwind copies of the assignment
            for s in bl["s"]:
                if s[0] != "a":
                    continue
                fl = F.place_fields(s[1])
                if not (fl and fl[-1][0] == "value::JsObject" and fl[-1][2] == "prototype"):
                    continue
                # whose prototype? follow RefMut <- borrow_mut(&obj) <- obj <- create_*/alloc
                fresh = s[2][0] == "agg" and s[2][1].get("v") == "None"  # clearing the prototype cannot close a cycle
                if s[2][0] == "use" and s[2][1][0] in ("c", "m") and not s[2][1][1][1]:
                    dnone = M.trace_back(f, s[2][1][1][0])
                    if dnone and dnone[1] != "T" and dnone[2][0] == "agg" and dnone[2][1].get("v") == "None":
                        fresh = True
                base = s[1][0]
                seen = 0
                cur = base
                while seen < 10:
                    seen += 1
                    d0 = M.trace_back(f, cur)
                    if d0 is None:
                        break
                    if d0[1] == "T":
                        name = d0[2][1].get("d", "")
                        if FRESH.search(name):
                            fresh = True
                            break
                        if d0[2][2] and d0[2][2][0][0] in ("c", "m"):
                            cur = d0[2][2][0][1][0]
                            continue
                        break
                    rv = d0[2]
                    if rv[0] == "ref":
                        cur = rv[2][0]
                        continue
                    if rv[0] == "use" and rv[1][0] in ("c", "m"):
                        cur = rv[1][1][0]
                        continue
                    break
                out.append((f, bi, s[3], fresh))
    return out


def cycle_checked(f, write_block):
    """a call of would_create_prototype_cycle precedes the write and its `cycle` outcome cannot reach it"""
    from c08 import bool_tests
    tests = bool_tests(f, lambda g, t: "cycle" if t[1].get("d", "").endswith("would_create_prototype_cycle") else None)
    for (sb, true_t, false_t, what) in tests:
        before = {sb} | f.reachable_from(sb)
        if write_block not in before:
            continue
        bad = {true_t} | f.reachable_from(true_t)
        if write_block not in bad:
            return True
    return False


def loop_span(f, h, body):
    for b in sorted(body):
        t = f.blocks[b]["t"]
        if t[0] == "call":
            return F.short_span(t[6])
        for s in f.blocks[b]["s"]:
            if s[0] == "a":
                return F.short_span(s[3])
    return F.short_span(f.span)


def loop_key(f, h, body):
    """line-free identification of a loop: the local callees and field names it touches"""
    names = set()
    for b in body:
        t = f.blocks[b]["t"]
        if t[0] == "call":
            names.add((t[1].get("d") or "fnptr").split("::")[-1])
        for s in f.blocks[b]["s"]:
            if s[0] == "a":
                for pl in F.rvalue_places(s[2]):
                    for (a, v, n) in F.place_fields(pl):
                        names.add(n)
    return "+".join(sorted(names))[:80]


def range_contains_guard(fx, f, block, local):
    """`if !(LO..=HI).contains(&x) { return }` with LO >= 1 dominating the use"""
    root = c10.root_of(f, local)
    for bi, t in f.calls():
        d = t[1].get("d", "")
        if not d.endswith("::contains") or "Range" not in d or len(t[2]) < 2 or t[4] < 0:
            continue
        a = t[2][1]
        if a[0] not in ("c", "m"):
            continue
        tgt = a[1][0]
        for _ in range(4):
            dd = f.defs().get(tgt, [])
            if len(dd) == 1 and dd[0][1] != "T" and dd[0][2][0] == "ref":
                tgt = dd[0][2][2][0]
            else:
                break
        if c10.root_of(f, tgt) != root:
            continue
        # range start
        r = t[2][0]
        lo = None
        if r[0] in ("c", "m"):
            rd = M.trace_back(f, c10.copy_root_local(f, r[1][0]))
            rl = r[1][0]
            dd = f.defs().get(rl, [])
            if len(dd) == 1 and dd[0][1] != "T" and dd[0][2][0] == "ref":
                rl = dd[0][2][2][0]
            d0 = M.trace_back(f, rl)
            if d0 and d0[1] == "T" and d0[2][1].get("d", "").endswith("RangeInclusive::<Idx>::new"):
                lo = c10.const_bound(fx, f, d0[2][2][0])
            elif d0 and d0[1] != "T" and d0[2][0] == "agg":
                lo = c10.const_bound(fx, f, d0[2][2][0])
        if lo is None and f.parent in RANGE_CONST_OK:
            lo = RANGE_CONST_OK[f.parent][0]  # the range is a promoted constant, invisible in the facts: value confirmed by reading
        if lo is None or lo < 1:
            continue
        # the block must be reachable only through the `contained` edge
        blk = f.blocks[t[4]]
        cur = t[3][0]
        neg = False
        for s in blk["s"]:
            if s[0] == "a" and s[2][0] == "un" and s[2][1] == "Not" and s[2][2][0] in ("c", "m") and s[2][2][1][0] == cur:
                cur = s[1][0]
                neg = not neg
        sw = blk["t"]
        if sw[0] == "switch" and sw[1][0] in ("c", "m") and sw[1][1][0] == cur:
            false_t = next((x for v, x in sw[2] if v == "0"), None)
            true_t = sw[3]
            outside = true_t if neg else false_t
            if outside is not None:
                reach = {outside} | f.reachable_from(outside)
                if block not in reach:
                    return True
    return False
