"""C03 R7: a token-set pre-filter in front of a dispatcher lets through every token the dispatcher accepts.

Pattern: `if self.starts_x() { self.parse_x() }` where `starts_x` is a boolean function over a set P of TokenKinds and `parse_x` (or a
function it reaches) dispatches on a set D of TokenKinds.  When the two sets are near-copies of one another (each covers at least nine tenths of
the other), the filter is a transcription of the dispatcher and a kind of D missing from P is a construct the gate refuses although the
grammar behind it accepts it (`id<1>(x)`: the call with type arguments is never tried and the text is read as comparisons).
Candidates are found from the code (gate relation: the dispatcher is reachable from a call in the region the filter's true edge dominates).
"""
import facts as F
import mir as M
from modlook import true_target

MIN_KINDS = 8
NEAR = 0.9


def kind_sets(fx, scope, tk):
    preds, disp = {}, {}
    for p, f in fx.fns.items():
        if f.derived or f.closure or not scope(f) or not f.sig:
            continue
        for bi, en, pl, arms, other, rest in M.enum_switches(fx, f):
            if str(en) != tk or len(arms) < MIN_KINDS:
                continue
            if fx.tys(f.sig[-1]) == "bool":
                preds.setdefault(p, set()).update(arms)
            else:
                cur = disp.get(p)
                if cur is None or len(arms) > len(cur):
                    disp[p] = set(arms)
    return preds, disp


def sites(fx, scope, tk="lexer::TokenKind"):
    """[(gate fn, predicate, dispatcher, missing kinds, span)]"""
    preds, disp = kind_sets(fx, scope, tk)
    out = []
    reach_cache = {}
    for p, f in sorted(fx.fns.items()):
        if f.derived or not scope(f):
            continue
        for bi, t in f.calls():
            P = t[1].get("d")
            if P not in preds:
                continue
            tt = true_target(f, bi)
            if tt is None:
                continue
            region = M.dominated_region(f, tt)
            called = {t2[1].get("d") for b2, t2 in f.calls() if b2 in region and t2[1].get("local")}
            called.discard(None)
            reached = set()
            for c in called:
                if c not in reach_cache:
                    reach_cache[c] = set(M.reachable_fns(fx, [c])) | {c}
                reached |= reach_cache[c]
            for D in sorted(reached & set(disp)):
                ps, ds = preds[P], disp[D]
                inter = len(ps & ds)
                if inter / len(ds) < NEAR or inter / len(ps) < NEAR:
                    continue
                out.append((f, P, D, sorted(ds - ps), t[6]))
    return out
