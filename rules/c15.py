"""C15 - number <-> text / integer conversions: the clause "conversions to 32-bit integers wrap
modulo 2^32".

Decided: a Rust `as i32`/`as u32` cast of an f64 saturates, so
  R1 no float->int cast occurs directly inside the bitwise / shift operator arms of the opcode
     interpreter: operands are converted through ToInt32/ToUint32 helper functions;
  R2 inside every such helper (discovered: local functions f64 -> i32|u32 called from those arms,
     transitively), the operand of each float->int cast is derived from an f64 remainder (`%`), i.e.
     is reduced modulo 2^32 before the cast.
  R3 readers; R4-R6 printers (rules/numfmt.py): digits come from the number itself, one default printer, no tie-to-even precision formatting.
Not decided: the printed values themselves (that `{}`/`{:e}` are shortest is the standard library's contract), notation thresholds' constants,
radix output, toExponential() without digits, and the helper's constants.
"""
import re

from common import Check
import facts as F
import mir as M

OP_ENUM = "compiler::bytecode::Op"
BITWISE = re.compile(r"^(BitAnd|BitOr|BitXor|BitNot|LShift|RShift|URShift)$")
INT32 = ("i32", "u32")
MATHS = re.compile(r"(^|::)(trunc|floor|ceil|round|abs|fabs|copysign)$")


def reduced_locals(fx, f):
    """greatest fixed point: locals all of whose definitions are derived from an f64 `%`"""
    defs = f.defs()
    red = set(defs)

    def op_ok(op, allow_const=True):
        if op[0] == "k":
            return allow_const
        return op[0] in ("c", "m") and not op[1][1] and op[1][0] in red

    changed = True
    while changed:
        changed = False
        for l in list(red):
            good = True
            for (bi, si, rv) in defs[l]:
                if si == "T":
                    d = rv[1].get("d", "")
                    if not (MATHS.search(d) and rv[2] and all(op_ok(a, False) for a in rv[2][:1])):
                        good = False
                elif rv[0] == "bin" and rv[1] == "Rem" and fx.tys(rv[4]) in ("f64", "f32"):
                    pass
                elif rv[0] == "use":
                    if not op_ok(rv[1], False):
                        good = False
                elif rv[0] == "bin" and rv[1] in ("Add", "Sub"):
                    a, b = rv[2], rv[3]
                    if not (op_ok(a) and op_ok(b) and not (a[0] == "k" and b[0] == "k")):
                        good = False
                else:
                    good = False
            if not good:
                red.discard(l)
                changed = True
    return red


def float_casts(fx, f, blocks=None):
    for bi, bl in enumerate(f.blocks):
        if blocks is not None and bi not in blocks:
            continue
        for s in bl["s"]:
            if s[0] == "a" and s[2][0] == "cast" and s[2][1] == "FloatToInt":
                yield bi, s


def helper_bad_casts(fx, f):
    red = reduced_locals(fx, f)
    bad = []
    n = 0
    for bi, s in float_casts(fx, f):
        n += 1
        op = s[2][2]
        if not (op[0] in ("c", "m") and not op[1][1] and op[1][0] in red):
            bad.append(s)
    return n, bad


def is_helper_sig(fx, f):
    if len(f.sig) != 2:
        return False
    return fx.tys(f.sig[0]) == "f64" and fx.tys(f.sig[1]) in INT32


def run(tier):
    ck = Check("C15", tier, "match-arm regions of the opcode interpreter + who-may-cast rule + backward def-chain (greatest fixed point) inside the conversion helpers",
               ["shortest round-trip number printing and notation thresholds (run-time values)",
                "toFixed / toPrecision / toExponential / radix formatting", "numeric literal and string parsing",
                "the constants used by the ToInt32 helper"])
    fx = F.load("A")
    ck.configs.append("A: cargo +nightly check --lib --features c-api")
    ex = fx.one("BytecodeVM::execute_op")
    ck.anchor(OP_ENUM in fx.adts, "enum " + OP_ENUM)
    ck.rule("R1.no-saturating-cast", "no float->int cast directly in a bitwise/shift operator arm", floor=7)
    helpers = set()
    arms_seen = set()
    for bi, enum, place, arms, other, rest in M.enum_switches(fx, ex):
        if enum != OP_ENUM:
            continue
        for var, tgt in arms.items():
            if not BITWISE.match(var):
                continue
            arms_seen.add(var)
            region = M.dominated_region(ex, tgt)
            casts = list(float_casts(fx, ex, region))
            ck.instance("R1.no-saturating-cast", "execute_op/Op::" + var, F.short_span(ex.blocks[tgt]["t"][-1] if isinstance(ex.blocks[tgt]["t"][-1], str) else ex.span), ok=not casts)
            for cb, s in casts:
                ck.finding("R1.no-saturating-cast", "R1.no-saturating-cast/Op::%s/%s" % (var, fx.tys(s[2][4])), F.short_span(s[3]),
                           "operator arm Op::%s converts its operand with a saturating `as %s` cast instead of ToInt32/ToUint32 (e.g. 2**32|0)" % (var, fx.tys(s[2][4])))
            nconv = 0
            for b in region:
                t = ex.blocks[b]["t"]
                if t[0] == "call" and t[1].get("local"):
                    g = fx.fns.get(t[1]["d"])
                    if g is not None and is_helper_sig(fx, g):
                        helpers.add(g.path)
                        nconv += 1
            if not casts and nconv == 0:
                ck.finding("R1.no-saturating-cast", "R1.no-conversion/Op::%s" % var, F.short_span(ex.span),
                           "operator arm Op::%s performs no ToInt32/ToUint32 conversion at all" % var)
    ck.anchor(len(arms_seen) >= 7, "7 bitwise/shift arms of execute_op (found %s)" % sorted(arms_seen))

    # transitive helpers
    work = list(helpers)
    while work:
        h = work.pop()
        for bi, t in fx.fns[h].calls():
            d = t[1].get("d")
            g = fx.fns.get(d)
            if g is not None and is_helper_sig(fx, g) and g.path not in helpers:
                helpers.add(g.path)
                work.append(g.path)
    ck.rule("R2.modular-helper", "in every ToInt32/ToUint32 helper the operand of each float->int cast derives from an f64 `%` (modular reduction)", floor=0)
    ncasts = 0
    for h in sorted(helpers):
        n, bad = helper_bad_casts(fx, fx.fns[h])
        ncasts += n
        ck.instance("R2.modular-helper", h, F.short_span(fx.fns[h].span), ok=not bad)
        for s in bad:
            ck.finding("R2.modular-helper", "R2.modular-helper/%s" % h, F.short_span(s[3]),
                       "helper `%s` casts an f64 that is not reduced modulo 2^32 first: the conversion saturates" % h)
    if helpers and ncasts == 0:
        ck.closed_fail.append("R2: conversion helpers %s contain no float->int cast (conversion happens somewhere unseen)" % sorted(helpers))

    # ---------------- R3 text -> double
    ck.rule("R3.correctly-rounded-reader", "numeric literals and numeric strings become doubles only through the correctly rounded parser (str::parse::<f64>) or ONE integer->float cast; the readers do no f64 arithmetic", floor=4)
    readers = [f for f in fx.fns.values() if f.file.endswith("src/lexer.rs") or f.path == "value::string_to_number"]
    ck.anchor(any(f.path.endswith("scan_number") for f in readers) and any(f.path == "value::string_to_number" for f in readers), "Lexer::scan_number and value::string_to_number")
    for f in readers:
        if f.derived:
            continue
        arith = []
        for bl in f.blocks:
            for s in bl["s"]:
                if s[0] == "a" and s[2][0] == "bin" and s[2][1] in ("Add", "Sub", "Mul", "Div", "Rem") and fx.tys(s[2][4]) in ("f64", "f32"):
                    arith.append(s)
        produces = []
        for bl in f.blocks:
            for s in bl["s"]:
                if s[0] == "a" and s[2][0] == "agg" and s[2][1].get("v") == "Number" and s[2][1].get("p") in ("lexer::TokenKind", "value::JsValue"):
                    produces.append(s)
        if not arith and not produces and not f.path.endswith(("scan_number", "string_to_number")):
            continue
        ck.instance("R3.correctly-rounded-reader", f.path, F.short_span(f.span), ok=not arith)
        for s in arith:
            ck.finding("R3.correctly-rounded-reader", "R3.correctly-rounded-reader/%s" % f.parent, F.short_span(s[3]),
                       "`%s` computes an f64 with `%s` while reading a number: digit-wise accumulation rounds at every step, so long literals are not the correctly rounded double" % (f.parent, s[2][1]))
        for s in produces:
            op = s[2][2][0]
            ok = False
            if op[0] == "k":
                ok = True
            elif op[0] in ("c", "m") and not op[1][1]:
                d0 = M.trace_back(f, op[1][0])
                if d0 and d0[1] != "T" and d0[2][0] == "cast" and d0[2][1] == "IntToFloat":
                    ok = True
                elif d0 and d0[1] == "T":
                    # parse::<f64>() possibly through unwrap_or / ok / `?`
                    seen = 0
                    cur = d0
                    while cur and cur[1] == "T" and seen < 6:
                        seen += 1
                        name = cur[2][1].get("d", "")
                        if name.endswith("::parse") and cur[2][1].get("targs") and fx.tys(cur[2][1]["targs"][0]) == "f64":
                            ok = True
                            break
                        a = cur[2][2]
                        if a and a[0][0] in ("c", "m") and not a[0][1][1]:
                            cur = M.trace_back(f, a[0][1][0])
                        else:
                            break
                elif d0 and d0[1] != "T" and d0[2][0] == "use":
                    ok = True  # copy of an existing number (e.g. cloning a token)
            ck.instance("R3.correctly-rounded-reader", "%s builds %s::Number" % (f.path, s[2][1]["p"].split("::")[-1]), F.short_span(s[3]), ok=ok)
            if not ok:
                ck.finding("R3.correctly-rounded-reader", "R3.number-provenance/%s" % f.parent, F.short_span(s[3]),
                           "`%s` builds a Number whose value comes neither from str::parse::<f64> nor from a single integer->float cast" % f.parent)

    # R3d: one reader.  Rust's `str::parse::<f64>` is not StringToNumber: it accepts "inf", "infinity", "nan" in any case and rejects
    # "", " 1 ", "0x10", "Infinity"-only spellings the language defines.  Script text therefore becomes a double only inside the designated
    # readers (which screen the text first) or their private helpers; every other native calls a reader.
    READERS = ("value::string_to_number", "value::radix_digits_to_number", "interpreter::builtins::global::global_parse_float")
    ck.rule("R3d.one-text-reader", "in src/value.rs and src/interpreter, `parse::<f64>` is applied to script text only inside the designated readers "
                                   "(string_to_number, radix_digits_to_number, the parseFloat prefix reader) or helpers called only from them", floor=3)
    for rd in READERS:
        ck.anchor(rd in fx.fns, "reader " + rd)
    enum_arms = {}
    for p3, f3 in sorted(fx.fns.items()):
        if f3.derived or not f3.file.startswith(("src/value.rs", "src/interpreter")):
            continue
        top3 = f3.parent if f3.closure else f3.path
        for bi, t in f3.calls():
            d = t[1].get("d") or ""
            targs3 = [fx.tys(x) for x in t[1].get("targs", [])]
            if not (d.endswith(("str::<impl str>::parse", "JsString::parse")) and targs3 and targs3[0] == "f64"):
                continue
            ok = top3 in READERS or M.only_called_from(fx, top3, set(READERS))
            why = "designated reader" if top3 in READERS else "helper of a reader"
            if not ok:
                # reverse lookup of an enum member by value (`E["1.5"]`) inside the arms of ExoticObject::Enum / in EnumData: the text is a
                # property key that is compared with member values, not converted for the script; enums are lowered to plain objects
                if top3.startswith("value::EnumData::"):
                    ok, why = True, "EnumData reverse lookup by value (not a conversion handed to the script)"
                else:
                    if p3 not in enum_arms:
                        enum_arms[p3] = set()
                        for b2, en, pl, arms, other, rest in M.enum_switches(fx, f3):
                            if str(en).endswith("ExoticObject") and "Enum" in arms and all(q == b2 for q in f3.preds()[arms["Enum"]]):
                                enum_arms[p3] |= M.dominated_region(f3, arms["Enum"])
                    if bi in enum_arms[p3]:
                        ok, why = True, "reverse lookup of an enum member by value inside the ExoticObject::Enum arm"
            ck.instance("R3d.one-text-reader", "%s [%s]" % (f3.path, why if ok else "not a reader"), F.short_span(t[6]), ok=ok)
            if not ok:
                ck.finding("R3d.one-text-reader", "R3d.one-text-reader/%s" % top3, F.short_span(t[6]),
                           "`%s` converts script text with Rust's `parse::<f64>` instead of the StringToNumber reader: `0 == \"\"`, `1 == \" 1 \"` and `16 == \"0x10\"` are false, "
                           "`Infinity == \"inf\"` is true, `Number.parseFloat(\"inf\")` is Infinity and `Number.parseFloat(\"3.5px\")` is NaN" % top3)

    # R3c: a fixed-width integer parser never produces a script number.  `i64::from_str_radix` / `u64::from_str_radix` / `parse::<i64>()` fail on
    # text that is a perfectly good number beyond 64 bits; whatever the caller substitutes (0, NaN) is wrong, and an integer accumulator over the
    # digits overflows (a panic in debug builds, a wrapped value in release).  Wide text goes through the one reader with an overflow fall-back.
    ck.rule("R3c.no-fixed-width-reader", "no script number (JsValue::Number / TokenKind::Number) is computed from a fixed-width integer parse or from a checked "
                                         "integer multiply-add over digits", floor=0)
    from c09 import ancestors
    import loops as L
    n3c = 0
    for p3, f3 in sorted(fx.fns.items()):
        if f3.derived or not f3.file.startswith(("src/lexer.rs", "src/value.rs", "src/interpreter")):
            continue
        if f3.file.endswith("builtins/date.rs"):
            continue    # calendar fields: the format bounds them (a year that does not fit an i32 is not a date), the result is a time value, not the text's number
        nums = [s3 for bl in f3.blocks for s3 in bl["s"] if s3[0] == "a" and s3[2][0] == "agg" and isinstance(s3[2][1], dict) and s3[2][1].get("v") == "Number"
                and str(s3[2][1].get("p", "")).endswith(("JsValue", "TokenKind")) and s3[2][2] and s3[2][2][0][0] in ("c", "m")]
        rets_f64 = fx.tys(f3.locals[0]) in ("f64", "std::option::Option<f64>")
        if not nums and not rets_f64:
            continue
        srcs = set()
        for s3 in nums:
            srcs |= ancestors(f3, s3[2][2][0][1][0])
        if rets_f64:
            srcs |= ancestors(f3, 0)
        top3 = f3.parent if f3.closure else f3.path
        for bi, t in f3.calls():
            d = t[1].get("d") or ""
            m3 = re.search(r"core::num::<impl (i8|u8|i16|u16|i32|u32|i64|u64|isize|usize)>::from_str_radix$", d)
            targs3 = [fx.tys(x) for x in t[1].get("targs", [])]
            p_int = d.endswith(("str::<impl str>::parse", "JsString::parse")) and targs3 and re.match(r"^(i|u)(8|16|32|64|size)$", targs3[0])
            if not (m3 or p_int) or t[3][1] or t[3][0] not in srcs:
                continue
            n3c += 1
            ck.instance("R3c.no-fixed-width-reader", "%s: %s feeds a Number" % (f3.path, (m3.group(1) + "::from_str_radix") if m3 else "parse::<%s>" % targs3[0]), F.short_span(t[6]), ok=False)
            ck.finding("R3c.no-fixed-width-reader", "R3c.no-fixed-width-reader/%s/%s" % (top3, m3.group(1) if m3 else targs3[0]), F.short_span(t[6]),
                       "`%s` turns text into a number through a %s parse: digits that do not fit (`0xFFFFFFFFFFFFFFFF`, 20 decimal digits) make the parse fail and "
                       "whatever is substituted (0, NaN) is not the number the text spells" % (f3.path, m3.group(1) if m3 else targs3[0]))
        # integer accumulators: `acc = acc * radix + digit` on an integer inside a loop, flowing into the number
        loop_blocks = set()
        for hd, body in L.natural_loops(f3):
            loop_blocks |= body
        for bi, bl in enumerate(f3.blocks):
            t = bl["t"]
            if bi in loop_blocks and t[0] == "assert" and t[1].startswith("Overflow") and t[1].split(":")[1] == "Mul" and t[7] is not None and \
                    re.match(r"^(i|u)(32|64|size)$", fx.tys(t[7])):
                # the product feeds the number?
                prod = {s3[1][0] for s3 in bl["s"] if s3[0] == "a" and s3[2][0] == "bin" and s3[2][1].startswith("Mul")}
                if prod & srcs:
                    n3c += 1
                    ck.instance("R3c.no-fixed-width-reader", "%s: integer multiply-add accumulator feeds a Number" % f3.path, F.short_span(t[8]), ok=False)
                    ck.finding("R3c.no-fixed-width-reader", "R3c.no-fixed-width-reader/%s/accumulator" % top3, F.short_span(t[8]),
                               "`%s` accumulates the digits in a %s: `parseInt('99999999999999999999')` overflows (a panic in debug builds, a wrapped value in release)"
                               % (f3.path, fx.tys(t[7])))
    for g3 in fx.fns.values():
        if not g3.derived and g3.file.startswith(("src/lexer.rs",)):
            ck.instance("R3c.no-fixed-width-reader", g3.path, None, nontrivial=False)
    # R1b: anywhere else (constant folding in the compiler, natives) an integer shift / bitwise operation on a value that was cast
    # straight from an f64 is the same mistake in another place: the 32-bit wrap-around of the operator is lost (or done in 64 bits)
    ck.rule("R1b.no-cast-then-bitwise", "no integer shift / bitwise operation on a value cast directly from an f64 (operands come from ToInt32 / ToUint32)", floor=0)
    from numfmt import cast_then_bitwise
    for g, st in cast_then_bitwise(fx, lambda g: g.file.startswith(("src/compiler", "src/interpreter", "src/value.rs"))):
        ck.instance("R1b.no-cast-then-bitwise", "%s: %s on %s" % (g.path, st[2][1], fx.tys(st[2][4])), F.short_span(st[3]), ok=False)
        ck.finding("R1b.no-cast-then-bitwise", "R1b.no-cast-then-bitwise/%s/%s" % (g.parent if g.closure else g.path, st[2][1].replace("WithOverflow", "")), F.short_span(st[3]),
                   "`%s` applies `%s` to an integer it cast from an f64 itself: the operator's 32-bit semantics (ToInt32 / ToUint32, modulo 2^32) are "
                   "bypassed - a compile-time fold of `1 << 31` in 64 bits gives 2147483648 where the VM gives -2147483648" % (g.path, st[2][1]))
    for g in fx.fns.values():
        if not g.derived and g.file.startswith(("src/compiler", "src/interpreter", "src/value.rs")):
            ck.instance("R1b.no-cast-then-bitwise", g.path, None, nontrivial=False)
    if not cast_then_bitwise(F.load_fixture(), lambda g: g.path.startswith("c15::fold")):
        ck.closed_fail.append("R1b control failed: the 64-bit shift fold of the fixture was not reported")

    # R4-R6 number printing
    import numfmt
    if numfmt.learn_plain(F.load_fixture()) is None:
        ck.closed_fail.append("R6: the format template of the fixture's plain `{}` / `{:.0}` printers could not be read (template encoding changed?)")
    numfmt.rules(fx, ck, lambda g: g.file.startswith(("src/value.rs", "src/interpreter")))
    numfmt.to_string_rule(fx, ck, lambda g: g.file.startswith(("src/compiler", "src/interpreter", "src/value.rs")))
    numfmt.cast_rule(fx, ck, lambda g: g.file.endswith(("src/value.rs", "builtins/number.rs")))
    ckc = Check("C15", tier, "", [])
    numfmt.rules(F.load_fixture(), ckc, lambda g: g.path.startswith("c15::print"), printer_root="c15::print::number_to_string", pre="ctl:")
    numfmt.cast_rule(F.load_fixture(), ckc, lambda g: g.path.startswith("c15::print"), printer_root="c15::print::number_to_string", pre="ctl:")
    nts = numfmt.to_string_rule(F.load_fixture(), ckc, lambda g: g.path.startswith("c15::print"), printer_root="c15::print::number_to_string")
    ts = sorted(fd[1] for fd in ckc.findings if fd[1].endswith("/to_string"))
    if ts != ["R5.one-printer/c15::print::third_printer/to_string"] or nts != 1:
        ck.closed_fail.append("R5 to_string control failed: fixture reports %s over %d f64 sites (want third_printer only)" % (ts, nts))
    gotc = {fd[0] for fd in ckc.findings}
    if any("guarded_int" in fd[1] for fd in ckc.findings):
        ck.closed_fail.append("R4b control failed: the range-guarded cast of the fixture was reported")
    if not {"R4.digits-from-the-number", "R5.one-printer", "R6.tie-rounding", "R4b.no-saturating-cast"} <= gotc:
        ck.closed_fail.append("R4-R6 control failed: fixture printers reported by %s" % sorted(gotc))

    # positive control
    ctl = F.load_fixture()
    bad = helper_bad_casts(ctl, ctl.one("c15::bad_to_int32"))[1]
    good = helper_bad_casts(ctl, ctl.one("c15::good_to_uint32"))[1]
    if not bad or good:
        ck.closed_fail.append("R2 positive control failed (bad=%d good=%d)" % (len(bad), len(good)))
    ck.note("positive control: fixture bad_to_int32 reported, good_to_uint32 silent")
    ck.assume("compound assignment operators compile to the same opcodes (no second implementation of the bitwise operators)")
    return ck.finish()
