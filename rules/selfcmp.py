"""C04 E9 (and any emitter of run-time tests): a value is never classified by comparing it with itself.

The enum lowering gives a computed member its reverse entry when the value "is a number".  The only opcode sequence
that is true for every number is a test of the type (`typeof v === "number"`); every test that compares the value
with something computed from the value itself (`+v === v`, `v === v`, `v - 0 == v` ...) is false for NaN, which is
a number.  Rule (zero expected, contradiction style): no function of the compiler emits an equality opcode whose two
operand registers are the same register, or a register and the destination of a unary opcode (other than Typeof)
applied to that register in the same function.
"""
import facts as F
import mir as M

CMP = ("StrictEq", "StrictNotEq", "Eq", "NotEq")


def root(f, local, depth=0):
    """the local a register value was first bound to, seen through single-definition copies"""
    d = f.defs().get(local, [])
    if len(d) != 1 or depth > 12:
        return local
    bi, si, rv = d[0]
    if si != "T" and rv[0] == "use" and rv[1][0] in ("c", "m") and not rv[1][1][1]:
        return root(f, rv[1][1][0], depth + 1)
    return local


def op_aggs(f, op_suffix):
    for bi, bl in enumerate(f.blocks):
        for s in bl["s"]:
            if s[0] == "a" and s[2][0] == "agg" and s[2][1].get("k") == "adt" and s[2][1].get("p", "").endswith(op_suffix) and s[2][1].get("fields"):
                yield bi, s


def rule(fx, scope, op_suffix="::Op"):
    """yields (f, span, variant, ok, why) for every equality opcode built in scope"""
    for p, f in sorted(fx.fns.items()):
        if f.derived or not scope(f):
            continue
        unary = []  # (root of dst, root of src, variant)
        cmps = []
        for bi, s in op_aggs(f, op_suffix):
            info, ops = s[2][1], s[2][2]
            fields = info["fields"]
            regs = {}
            for nm, o in zip(fields, ops):
                if o[0] in ("c", "m") and not o[1][1]:
                    regs[nm] = root(f, o[1][0])
            if info["v"] in CMP and len(fields) == 3:
                a, b = [regs.get(n) for n in fields[1:3]]
                cmps.append((s[3], info["v"], a, b))
            elif len(fields) == 2 and fields[0] == "dst" and info["v"] != "Typeof" and len(regs) == 2:
                unary.append((regs[fields[0]], regs[fields[1]], info["v"]))
        for sp, v, a, b in cmps:
            why = None
            if a is not None and a == b:
                why = "compares a register with itself"
            else:
                for d, s_, uv in unary:
                    if (d, s_) in ((a, b), (b, a)) and d is not None:
                        why = "compares a register with Op::%s of that same register" % uv
            yield f, sp, v, why is None, why
