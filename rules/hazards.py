"""Shared flow analyses: may-GC / may-re-enter function sets and "RefCell guard held across a
hazardous call" (forward may-analysis over MIR).  Used by C02, C06 and C17."""
import re

import facts as F
import mir as M

ALLOC_SINKS = ("gc::Space::<T>::alloc_internal", "gc::Space::<T>::collect", "gc::Space::<T>::force_collect")
RUN_SINKS = ("interpreter::bytecode_vm::BytecodeVM::run",)

_cache = {}


def reaching(fx, sinks, key):
    """functions (closure-merged parent paths) from which one of `sinks` is reachable"""
    ck = (id(fx), key)
    if ck in _cache:
        return _cache[ck]
    callees, callers = fx.callgraph()
    seen = set()
    work = [s for s in sinks]
    while work:
        x = work.pop()
        if x in seen:
            continue
        seen.add(x)
        work.extend(callers.get(x, ()))
    _cache[ck] = seen
    return seen


def may_gc(fx):
    return reaching(fx, ALLOC_SINKS, "gc")


def may_reenter(fx):
    return reaching(fx, RUN_SINKS, "run")


def calls_fnptr(fx):
    """parent paths of functions that call through a function pointer (NativeFn etc.)"""
    ck = (id(fx), "ptr")
    if ck in _cache:
        return _cache[ck]
    out = set()
    for f in fx.fns.values():
        for bi, t in f.calls():
            if "ptr" in t[1]:
                out.add(f.parent)
    # and everything that reaches them
    callees, callers = fx.callgraph()
    seen = set()
    work = list(out)
    while work:
        x = work.pop()
        if x in seen:
            continue
        seen.add(x)
        work.extend(callers.get(x, ()))
    _cache[ck] = seen
    return seen


REF_RE = re.compile(r"^std::cell::(Ref|RefMut)<'_, (.+)>$")


def ref_kind(fx, ti):
    """('Ref'|'RefMut', inner type string) if the type is (or wraps, via Option) a RefCell guard"""
    s = fx.tys(ti)
    m = REF_RE.match(s)
    if m:
        return m.group(1), m.group(2)
    m = re.match(r"^std::option::Option<std::cell::(Ref|RefMut)<'_, (.+)>>$", s)
    if m:
        return m.group(1), m.group(2)
    return None


def trace_borrowed_types(fx):
    """inner types X such that the collector's mark phase performs RefCell<X>::borrow()"""
    out = {"value::JsObject"}  # GcBox.data.borrow() in Space::mark
    tr = [f for f in fx.fns.values() if f.impl_trait and f.impl_trait.endswith("gc::Traceable") and not f.derived]
    roots = [f.parent for f in tr]
    reach = M.reachable_fns(fx, roots)
    for p in reach:
        for f in fx.body_group(fx.fns[p]) if p in fx.fns else []:
            for bi, t in f.calls():
                d = t[1].get("d", "")
                if d == "std::cell::RefCell::<T>::borrow" and t[1].get("targs"):
                    out.add(fx.tys(t[1]["targs"][0]))
    return out


def held_across(fx, f, hazard):
    """forward may-analysis.  `hazard(t)` -> reason string or None for a call terminator.
    yields (block, terminator, held_local, ('Ref'|'RefMut', inner), reason)"""
    kinds = {}
    for l, ti in enumerate(f.locals):
        k = ref_kind(fx, ti)
        if k:
            kinds[l] = k
    if not kinds:
        return []
    n = len(f.blocks)
    IN = [None] * n
    IN[0] = frozenset()
    work = [0]
    out = []
    seen_reports = set()

    def transfer(bi, state, report):
        st = set(state)
        bl = f.blocks[bi]
        for s in bl["s"]:
            if s[0] == "a":
                dst, rv = s[1], s[2]
                # moves out of a held local
                for op in F.rvalue_operands(rv):
                    if op[0] == "m" and not op[1][1] and op[1][0] in st:
                        st.discard(op[1][0])
                        if not dst[1] and dst[0] in kinds:
                            st.add(dst[0])
                if not dst[1] and dst[0] in kinds and rv[0] == "agg":
                    pass
            elif s[0] == "sd":
                st.discard(s[1])
        t = bl["t"]
        if t[0] == "call":
            moved = {a[1][0] for a in t[2] if a[0] == "m" and not a[1][1]}
            live = st - moved
            if report and live:
                why = hazard(t)
                if why:
                    for l in sorted(live):
                        report(bi, t, l, kinds[l], why)
            st -= moved
            dst = t[3]
            if not dst[1] and dst[0] in kinds:
                st.add(dst[0])
        elif t[0] == "drop":
            if not t[1][1]:
                st.discard(t[1][0])
        return frozenset(st)

    # fixpoint
    OUT = [None] * n
    while work:
        b = work.pop()
        o = transfer(b, IN[b], None)
        if OUT[b] == o:
            continue
        OUT[b] = o
        for s in f.succ(b):
            new = o if IN[s] is None else (IN[s] | o)
            if IN[s] != new:
                IN[s] = new
                work.append(s)
            elif OUT[s] is None:
                work.append(s)

    def rep(bi, t, l, kind, why):
        key = (bi, l)
        if key in seen_reports:
            return
        seen_reports.add(key)
        out.append((bi, t, l, kind, why))

    for b in range(n):
        if IN[b] is not None:
            transfer(b, IN[b], rep)
    return out
