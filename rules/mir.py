"""Analysis helpers over the dumped MIR (pure python, no execution of tsrun code)."""
import facts as F


# ---------------------------------------------------------------- type helpers

def adts_in_type(fx, ti, acc=None):
    """all ADT paths mentioned by a type (through refs, tuples, generic arguments)"""
    if acc is None:
        acc = set()
    t = fx.ty(ti)
    k = t["k"]
    if k == "adt":
        acc.add(t["p"])
        for a in t["a"]:
            adts_in_type(fx, a, acc)
    elif k in ("ref", "ptr", "array", "slice"):
        adts_in_type(fx, t["t"], acc)
    elif k in ("tuple", "closure"):
        for a in t["a"]:
            adts_in_type(fx, a, acc)
    # a function pointer holds no data of its argument types: do not descend into "fnptr"
    return acc


def adt_edges(fx, paths=None):
    """adt path -> set of local ADT paths mentioned by its field types"""
    e = {}
    for p, a in fx.adts.items():
        if paths is not None and p not in paths:
            continue
        acc = set()
        for v in a["variants"]:
            for f in v["fields"]:
                adts_in_type(fx, f["ty"], acc)
        e[p] = {x for x in acc if x in fx.adts}
    return e


def reach(edges, roots, blocked=()):
    seen = set()
    work = list(roots)
    while work:
        x = work.pop()
        if x in seen or x in blocked:
            continue
        seen.add(x)
        work.extend(edges.get(x, ()))
    return seen


def peel(fx, ti):
    """strip references/raw pointers/Box/Rc/Option-like single-arg wrappers down to the first ADT path"""
    t = fx.ty(ti)
    while t["k"] in ("ref", "ptr"):
        t = fx.ty(t["t"])
    return t


# ---------------------------------------------------------------- match arms

def enum_switches(fx, fn):
    """yield (block, enum_path, place, {variant_name: target_block}, otherwise_block) for every
    `match` on an enum discriminant in fn"""
    for bi, bl in enumerate(fn.blocks):
        t = bl["t"]
        if t[0] != "switch" or t[1][0] not in ("c", "m"):
            continue
        dl = t[1][1]
        if dl[1]:
            continue
        src = None
        for s in reversed(bl["s"]):
            if s[0] == "a" and s[1][0] == dl[0] and not s[1][1]:
                if s[2][0] == "disc":
                    src = s[2]
                break
        if src is None:
            continue
        et = fx.ty(src[2])
        if et["k"] != "adt" or et["p"] not in fx.adts and not et["p"].startswith(("std::", "core::")):
            continue
        names = {}
        adt = fx.adts.get(et["p"])
        if adt is not None:
            names = {v["discr"]: v["name"] for v in adt["variants"]}
        elif et["p"] in ("std::option::Option", "core::option::Option"):
            names = {"0": "None", "1": "Some"}
        elif et["p"] in ("std::result::Result", "core::result::Result"):
            names = {"0": "Ok", "1": "Err"}
        arms = {}
        for val, tgt in t[2]:
            arms[names.get(val, val)] = tgt
        other = t[3]
        # variants not listed fall to `otherwise` (unless it is unreachable)
        rest = [n for n in names.values() if n not in arms]
        yield bi, et["p"], src[1], arms, other, rest


def dominated_region(fn, head, switch_block=None):
    """blocks dominated by `head` (the body of a match arm)"""
    out = set()
    idom = fn.idom()
    for b in range(len(fn.blocks)):
        if idom[b] is None:
            continue
        x = b
        while True:
            if x == head:
                out.add(b)
                break
            if x == 0:
                break
            x = idom[x]
    return out


# ---------------------------------------------------------------- uses / flow

def stmt_reads(s):
    """places read by a statement"""
    if s[0] == "a":
        return F.rvalue_places(s[2])
    return []


def term_reads(t):
    k = t[0]
    out = []
    if k == "call":
        for a in t[2]:
            if a[0] in ("c", "m"):
                out.append(a[1])
        if "op" in t[1] and t[1]["op"][0] in ("c", "m"):
            out.append(t[1]["op"][1])
    elif k == "switch":
        if t[1][0] in ("c", "m"):
            out.append(t[1][1])
    elif k == "drop":
        pass
    elif k == "assert":
        if t[2][0] in ("c", "m"):
            out.append(t[2][1])
    return out


def all_places(fn):
    """yield (block, kind, place, span) for every place occurrence: kind in r(ead)/w(rite)/b(orrow)/d(rop)"""
    for bi, bl in enumerate(fn.blocks):
        for s in bl["s"]:
            if s[0] == "a":
                yield bi, "w", s[1], s[3]
                rv = s[2]
                if rv[0] in ("ref", "rawptr"):
                    yield bi, "b", rv[2], s[3]
                elif rv[0] == "disc":
                    yield bi, "r", rv[1], s[3]
                for op in F.rvalue_operands(rv):
                    if op[0] in ("c", "m"):
                        yield bi, "r", op[1], s[3]
            elif s[0] == "setdisc":
                yield bi, "w", s[1], None
        t = bl["t"]
        if t[0] == "call":
            for a in t[2]:
                if a[0] in ("c", "m"):
                    yield bi, "r", a[1], t[6]
            yield bi, "w", t[3], t[6]
        elif t[0] == "drop":
            yield bi, "d", t[1], t[4]
        elif t[0] == "switch" and t[1][0] in ("c", "m"):
            yield bi, "r", t[1][1], t[4]


def const_str(op):
    """string constant of an operand: a `&str` literal, or the text behind a promoted `&"text"`"""
    if op[0] == "k" and isinstance(op[2], dict):
        if "str" in op[2]:
            return op[2]["str"]
        if "pstr" in op[2]:
            return op[2]["pstr"]
    return None


def const_int(op):
    if op[0] == "k" and isinstance(op[2], dict) and "int" in op[2]:
        return int(op[2]["int"])
    return None


def const_fn(op):
    if op[0] == "k" and isinstance(op[2], dict) and "fn" in op[2]:
        return op[2]["fn"]
    return None


def callee_name(t):
    """resolved callee path of a call terminator, or None for fn-pointer calls"""
    return t[1].get("d")


def reachable_fns(fx, roots, stop=()):
    """transitive closure over the (closure-merged) call graph"""
    callees, _ = fx.callgraph()
    seen = set()
    work = list(roots)
    while work:
        x = work.pop()
        if x in seen or x in stop:
            continue
        seen.add(x)
        work.extend(callees.get(x, ()))
    return seen


def shortest_path(fx, src, targets, stop=()):
    """shortest call path src -> any of targets (list of fn paths) or None"""
    callees, _ = fx.callgraph()
    prev = {src: None}
    q = [src]
    i = 0
    while i < len(q):
        x = q[i]
        i += 1
        if x in targets and x != src:
            out = []
            while x is not None:
                out.append(x)
                x = prev[x]
            return out[::-1]
        for c in sorted(callees.get(x, ())):
            if c not in prev and c not in stop:
                prev[c] = x
                q.append(c)
    return None


# ---------------------------------------------------------------- effect signatures (F5)

EFFECT_ADTS = ("interpreter::Interpreter", "interpreter::bytecode_vm::BytecodeVM", "interpreter::bytecode_vm::TrampolineFrame")
_eff_cache = {}


def direct_effects_of_blocks(fx, f, blocks=None):
    """effects performed by the given blocks of f: field writes, ledger takes, constructions"""
    import exits as E
    out = set()
    calls = set()
    for bi, bl in enumerate(f.blocks):
        if blocks is not None and bi not in blocks:
            continue
        for s in bl["s"]:
            if s[0] == "a":
                for (adt, v, name) in F.place_fields(s[1])[:1]:
                    if adt in EFFECT_ADTS:
                        out.add("W %s.%s" % (adt.split("::")[-1], name))
                rv = s[2]
                if rv[0] == "agg" and rv[1].get("k") == "adt" and rv[1]["p"] in fx.adts:
                    out.add("mk %s%s" % (rv[1]["p"].split("::")[-1], ("::" + rv[1]["v"]) if rv[1]["v"] else ""))
                if rv[0] == "ref" and rv[1] is True:
                    for (adt, v, name) in F.place_fields(rv[2])[:1]:
                        if adt in EFFECT_ADTS:
                            out.add("M %s.%s" % (adt.split("::")[-1], name))
        t = bl["t"]
        if t[0] == "call":
            d = t[1].get("d")
            if d is None:
                out.add("call <fn pointer>")
                continue
            if d == "std::mem::take" and t[2] and t[2][0][0] in ("c", "m"):
                fl = E.field_of_ref(f, t[2][0][1][0])
                if fl:
                    out.add("take %s.%s" % (fl[0].split("::")[-1], fl[2]))
            if t[1].get("local"):
                calls.add(d)
    return out, calls


def transitive_effects(fx):
    """fn path (closure merged) -> transitive effect set"""
    key = id(fx)
    if key in _eff_cache:
        return _eff_cache[key]
    direct = {}
    callees = {}
    for f in fx.fns.values():
        e, c = direct_effects_of_blocks(fx, f)
        direct.setdefault(f.parent, set()).update(e)
        callees.setdefault(f.parent, set()).update(c)
    # closures are merged into parents; map closure callee paths to parents
    par = {p: fn.parent for p, fn in fx.fns.items()}
    for k in callees:
        callees[k] = {par.get(c, c) for c in callees[k]}
    eff = {k: set(v) for k, v in direct.items()}
    changed = True
    while changed:
        changed = False
        for k, cs in callees.items():
            e = eff[k]
            n0 = len(e)
            for c in cs:
                if c in eff and c != k:
                    e |= eff[c]
            if len(e) != n0:
                changed = True
    _eff_cache[key] = eff
    return eff


def region_effects(fx, f, blocks):
    """effects of a CFG region: direct effects of the blocks plus transitive effects of local callees"""
    eff = transitive_effects(fx)
    e, calls = direct_effects_of_blocks(fx, f, blocks)
    par = {p: fn.parent for p, fn in fx.fns.items()}
    out = set(e)
    for c in calls:
        out |= eff.get(par.get(c, c), set())
    return out, calls


def trace_back(f, local, depth=0):
    """defining rvalue / call of `local`, seen through single-definition copies and moves"""
    d = f.defs().get(local, [])
    if len(d) != 1 or depth > 10:
        return None
    bi, si, rv = d[0]
    if si != "T" and rv[0] == "use" and rv[1][0] in ("c", "m") and not rv[1][1][1]:
        r = trace_back(f, rv[1][1][0], depth + 1)
        return r if r is not None else d[0]
    return d[0]


def only_called_from(fx, fn, allowed):
    """True iff `fn` has callers and every upward call path from it reaches a function of `allowed`
    before reaching a root: a helper extracted from a designated function inherits its licence."""
    _, callers = fx.callgraph()
    seen = set()
    work = [fn]
    first = True
    while work:
        x = work.pop()
        if x in seen:
            continue
        seen.add(x)
        if not first and x in allowed:
            continue
        cs = [c for c in callers.get(x, ()) if c != x]
        if not cs:
            return False  # a root (public entry, native reached through a pointer) not in the table
        first = False
        work.extend(cs)
    return True


def reach_bool_sensitive(fx, f, starts, stop=(), within=None, limit=6000, assume=None):
    """blocks reachable from `starts`, path sensitive in boolean temporaries: a block that sets `_t = const b` (the arms of `matches!`, `&&`,
    `||`) and later switches on `_t` continues on the matching edge only.  `stop` blocks are reached but not expanded.
    `assume` maps call blocks to the boolean their call is taken to return ("what if every identity test says no")."""
    seen = set()
    out = set()
    work = [(b, ()) for b in starts]
    while work:
        b, env = work.pop()
        if (b, env) in seen or (within is not None and b not in within) or len(seen) > limit:
            continue
        seen.add((b, env))
        out.add(b)
        if b in stop:
            continue
        e = dict(env)
        for st in f.blocks[b]["s"]:
            if st[0] == "a" and not st[1][1]:
                l = st[1][0]
                if st[2][0] == "use" and st[2][1][0] == "k" and fx.tys(f.locals[l]) == "bool":
                    e[l] = const_int(st[2][1])
                elif st[2][0] == "use" and st[2][1][0] in ("c", "m") and not st[2][1][1][1] and st[2][1][1][0] in e:
                    e[l] = e[st[2][1][1][0]]
                elif st[2][0] == "un" and st[2][1] == "Not" and st[2][2][0] in ("c", "m") and not st[2][2][1][1] and st[2][2][1][0] in e:
                    e[l] = 1 - e[st[2][2][1][0]]
                else:
                    e.pop(l, None)
        t = f.blocks[b]["t"]
        if t[0] == "call" and not t[3][1]:
            e.pop(t[3][0], None)
            if assume and b in assume:
                e[t[3][0]] = assume[b]
        env2 = tuple(sorted(e.items()))
        if t[0] == "switch" and t[1][0] in ("c", "m") and not t[1][1][1] and t[1][1][0] in e:
            val = str(e[t[1][1][0]])
            tg = [tb for v_, tb in t[2] if v_ == val]
            work.append(((tg[0] if tg else t[3]), env2))
        else:
            for nb in f.succ(b):
                work.append((nb, env2))
    return out
