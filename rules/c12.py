"""C12 - execution is deterministic and interpreter instances are isolated.

Decided (structural necessary conditions, DESIGN.md section 4/C12):
  R1 no shared mutable state: no `static mut`, no static with interior mutability, no thread-local
  R2 ambient nondeterminism (clock, entropy, environment, process/thread ids) is read only inside
     the injected platform providers
  R3 every hash container type instantiated anywhere in the crate has an unseeded (Fx) hasher
  R4 addresses stay inside comparison/hash positions: pointer->integer conversions only in the
     designated identity functions, their results only compared / hashed / used as set members,
     and containers keyed by an address-hashed type are iterated only where order cannot be observed
  R5 (type-level, see witness crate) Interpreter/Gc/Guard/RuntimeValue are !Send + !Sync
Not decided: bit-identical traces (values).
"""
import re

from common import Check
import facts as F

AMBIENT = [
    r"^std::time::SystemTime::now$", r"^std::time::Instant::now$", r"^std::time::Instant::elapsed$",
    r"^std::time::SystemTime::elapsed$",
    r"RandomState", r"getrandom", r"^std::env::", r"^std::process::id$", r"^std::thread::current$",
    r"^std::thread::spawn$", r"^std::fs::", r"^std::net::", r"^std::hash::DefaultHasher::new$",
    r"^std::collections::hash_map::DefaultHasher::new$",
]
# who may read the clock / entropy: the std platform providers, which the host can replace
AMBIENT_ALLOWED_PREFIX = ("platform::std_impl::",)

FX_HASHERS = ("std::hash::BuildHasherDefault<rustc_hash::FxHasher>", "rustc_hash::FxBuildHasher",
              "core::hash::BuildHasherDefault<rustc_hash::FxHasher>")
UNORDERED = ("std::collections::HashMap", "std::collections::HashSet", "hashbrown::HashMap", "hashbrown::HashSet",
             "hashbrown::map::HashMap", "hashbrown::set::HashSet")
ORDERED = ("indexmap::IndexMap", "indexmap::IndexSet", "indexmap::map::IndexMap", "indexmap::set::IndexSet")
HASHER_ARG = {"Map": 2, "Set": 1}

# functions that may turn a pointer into an integer, with the reason (confirmed by reading)
ADDR_FNS = {
    "gc::Gc::<T>::id": "object identity for SameValueZero / visited sets; result checked by R4b",
    "<value::VarKey as std::hash::Hash>::hash": "interned-string identity hash; feeds only the Hasher",
}
ITER_METHODS = ("::iter", "::iter_mut", "::keys", "::values", "::values_mut", "::drain", "::into_iter", "::retain",
                "::into_keys", "::into_values", "::extract_if")
# who may iterate an address-keyed unordered container: order-insensitive consumers only
ADDR_ITER_ALLOWED = {
    "<value::JsObject as gc::Traceable>::trace": "marks every entry; marking is order-insensitive",
    "interpreter::Interpreter::env_vars_for_trace": "order-insensitive",
}


def is_ptr(fx, ti):
    return fx.ty(ti)["k"] == "ptr" or fx.ty(ti)["s"].startswith("std::ptr::NonNull<")


def is_int(fx, ti):
    return fx.ty(ti)["s"] in ("usize", "u64", "isize", "i64", "u32", "i32", "u128", "i128")


def statics_rule(ck, fx, report):
    n = 0
    for s in fx.statics:
        bad = []
        if s["mut"]:
            bad.append("static mut")
        if not s["freeze"]:
            bad.append("interior mutability")
        if s["thread_local"]:
            bad.append("thread_local")
        if bad:
            n += 1
            report(s, bad)
    return n


def ambient_sites(fx):
    out = []
    pats = [re.compile(p) for p in AMBIENT]
    for f in fx.fns.values():
        for bi, t in f.calls():
            c = t[1]
            for name in (c.get("d"), c.get("u")):
                if name and any(p.search(name) for p in pats):
                    out.append((f, name, t[6]))
                    break
    return out


def hasher_types(fx):
    """(type row, hasher string, ok)"""
    out = []
    for t in fx.types:
        if t["k"] != "adt":
            continue
        p = t["p"]
        if p in UNORDERED or p in ORDERED:
            idx = HASHER_ARG["Map" if p.endswith("Map") else "Set"]
            if len(t["a"]) <= idx:
                out.append((t, "<missing>", False))
                continue
            hs = fx.tys(t["a"][idx])
            out.append((t, hs, hs in FX_HASHERS))
    return out


def ptr_to_int_sites(fx):
    out = []
    for f in fx.fns.values():
        for bl in f.blocks:
            for s in bl["s"]:
                if s[0] == "a" and s[2][0] == "cast":
                    k, frm, to = s[2][1], s[2][3], s[2][4]
                    if k == "PointerExposeProvenance" or (k == "Transmute" and is_ptr(fx, frm) and is_int(fx, to)):
                        out.append((f, k, s[3]))
            t = bl["t"]
            if t[0] == "call" and "d" in t[1]:
                d = t[1]["d"]
                if re.search(r"::(addr|expose_provenance|expose_addr)$", d) and "ptr" in d:
                    out.append((f, d, t[6]))
    return out


def classify_id_uses(fx, f, start_local):
    """Follow an address-valued local; return list of (span, description) of uses that are not
    comparison / hashing / set-membership."""
    bad = []
    tracked = {start_local}
    changed = True
    while changed:
        changed = False
        for bl in f.blocks:
            for s in bl["s"]:
                if s[0] != "a":
                    continue
                dst, rv = s[1], s[2]
                srcs = [p[0] for p in F.rvalue_places(rv)]
                if any(x in tracked for x in srcs):
                    k = rv[0]
                    if k in ("use", "ref") or (k == "cast" and rv[1] == "IntToInt"):
                        if not dst[1] and dst[0] not in tracked:
                            tracked.add(dst[0])
                            changed = True
    for bl in f.blocks:
        for s in bl["s"]:
            if s[0] != "a":
                continue
            dst, rv = s[1], s[2]
            srcs = [p[0] for p in F.rvalue_places(rv)]
            if not any(x in tracked for x in srcs):
                continue
            k = rv[0]
            if k in ("use", "ref") and not dst[1]:
                continue
            if k == "cast" and rv[1] == "IntToInt" and not dst[1]:
                continue
            if k == "bin" and rv[1] in ("Eq", "Ne"):
                continue
            bad.append((s[3], "address-valued integer used by `%s`" % (rv[1] if k in ("bin", "cast", "un") else k)))
        t = bl["t"]
        if t[0] == "call":
            used = [a for a in t[2] if a[0] in ("c", "m") and a[1][0] in tracked]
            if not used:
                continue
            d = t[1].get("d", "<fn pointer>")
            ok = (
                d.endswith("hash::Hash>::hash") or "impl std::hash::Hash for" in d
                or re.search(r"HashSet::<[^>]*>::(insert|contains|remove)$", d)
                or d in ("core::slice::<impl [T]>::contains", "std::vec::Vec::<T, A>::push")  # visited stack membership
                or re.search(r"^std::cmp::impls::<impl std::cmp::PartialEq", d)
                or d.endswith("PartialEq>::eq") or d.endswith("PartialEq>::ne")
            )
            if not ok:
                bad.append((t[6], "address-valued integer passed to `%s`" % d))
        if t[0] == "switch" and t[1][0] in ("c", "m") and t[1][1][0] in tracked:
            bad.append((t[4], "address-valued integer switched on"))
    return bad


def address_hashed_types(fx):
    """type strings (ADT paths) whose Hash impl hashes an address"""
    addr = set()
    for f in fx.fns.values():
        if f.impl_trait and f.impl_trait.endswith("hash::Hash") and not f.derived:
            reaches = False
            for bi, t in f.calls():
                d = t[1].get("d", "")
                if d in ADDR_FNS or "ptr::NonNull<T> as std::hash::Hash" in d or "as_ptr" in d or re.search(r"impl std::hash::Hash for \*", d):
                    reaches = True
            if f.path in ADDR_FNS:
                reaches = True
            if reaches and f.self_ty is not None:
                t = fx.ty(f.self_ty)
                if t["k"] == "adt":
                    addr.add(t["p"])
    return addr


def type_mentions(fx, ti, paths, depth=0):
    t = fx.ty(ti)
    if t["k"] == "adt":
        if t["p"] in paths:
            return True
        return any(type_mentions(fx, a, paths, depth + 1) for a in t["a"])
    if t["k"] in ("ref", "ptr", "array", "slice"):
        return type_mentions(fx, t["t"], paths, depth + 1)
    if t["k"] == "tuple":
        return any(type_mentions(fx, a, paths, depth + 1) for a in t["a"])
    return False


def addr_keyed_iterations(fx, addr_types):
    """calls of an iteration method on an unordered container whose key is address-hashed (or usize)"""
    out = []
    for f in fx.fns.values():
        for bi, t in f.calls():
            d = t[1].get("d")
            if not d or not any(d.endswith(m) for m in ITER_METHODS):
                continue
            if not (d.startswith("std::collections::Hash") or d.startswith("<&'a std::collections::Hash")
                    or d.startswith("<&'a mut std::collections::Hash") or d.startswith("<std::collections::Hash")
                    or d.startswith("hashbrown::")):
                continue
            targs = t[1].get("targs", [])
            if not targs:
                continue
            key = targs[0]
            ks = fx.tys(key)
            if type_mentions(fx, key, addr_types) or ks in ("usize",) or fx.ty(key)["k"] == "ptr":
                out.append((f, d, ks, t[6]))
    return out


ORDER_CALLS = re.compile(r"(::sort(_unstable)?(_by(_key)?)?$|::binary_search(_by(_key)?)?$|Ord>::(cmp|max|min|clamp)$|PartialOrd>::(partial_cmp|lt|le|gt|ge)$|::is_sorted$|::select_nth_unstable$)")


def _is_addr_type(fx, ti):
    s_ = fx.tys(ti)
    return s_.startswith(("*const ", "*mut ", "std::ptr::NonNull<", "core::ptr::NonNull<"))


def addr_order_sites(fx):
    """(fn, description, span): an ordering operation whose element / operand type is a pointer"""
    out = []
    for f in fx.fns.values():
        if f.derived or not f.file.startswith("src/"):
            continue
        for bi, t in f.calls():
            d = t[1].get("d", "")
            if not ORDER_CALLS.search(d):
                continue
            if d.endswith(("_by", "_by_key")):
                continue   # the key is chosen by a closure: judged by what the closure compares
            targs = t[1].get("targs") or []
            hit = any(_is_addr_type(fx, a) for a in targs) or "NonNull<" in d.split(" as ")[0] or d.startswith(("<*const", "<*mut"))
            if hit:
                out.append((f, "%s over %s" % (d.split("::")[-1], ", ".join(fx.tys(a) for a in targs) or d), t[6]))
        for bl in f.blocks:
            for st in bl["s"]:
                if st[0] == "a" and st[2][0] == "bin" and st[2][1] in ("Lt", "Le", "Gt", "Ge") and len(st[2]) > 4 and st[2][4] is not None and _is_addr_type(fx, st[2][4]):
                    out.append((f, "%s on %s" % (st[2][1], fx.tys(st[2][4])), st[3]))
    return out


def run(tier):
    ck = Check("C12", tier, "who-may-call / type-walk / intraprocedural flow rules over resolved MIR + compile_fail witnesses",
               ["bit-identical step traces and values across repetitions (run-time values)",
                "determinism of host-supplied providers"])
    fx = F.load("A")
    ctl = F.load_fixture()
    ck.configs.append("A: cargo +nightly check --lib --features c-api (superset of default)")

    # ---------------- R1
    ck.rule("R1.statics", "no static mut / static with interior mutability / thread_local in the crate (zero expected)")
    for s in fx.statics:
        ck.instance("R1.statics", s["path"], F.short_span(s["span"]), ok=not (s["mut"] or not s["freeze"] or s["thread_local"]))
    statics_rule(ck, fx, lambda s, bad: ck.finding("R1.statics", "R1.statics/" + s["path"], F.short_span(s["span"]),
                                                    "shared mutable state: %s `%s`" % (", ".join(bad), s["path"])))
    # the rule is also an obligation over the whole crate even when no static exists
    ck.instance("R1.statics", "<crate tsrun: %d statics of any kind>" % len(fx.statics), None)
    nctl = statics_rule(ck, ctl, lambda s, bad: None)
    ck.instance("R1.statics", "<positive control: fixture statics reported=%d>" % nctl, "witness/fixtures/ctl", ok=nctl >= 3)
    if nctl < 3:
        ck.closed_fail.append("R1 positive control: the rule reported %d of the >=3 mutable statics of the fixture crate" % nctl)

    # ---------------- R2
    ck.rule("R2.ambient", "calls of clock / entropy / environment / process / fs / net entry points only inside platform::std_impl", floor=3)
    for f, name, sp in ambient_sites(fx):
        ok = f.parent.startswith(AMBIENT_ALLOWED_PREFIX) or any(("<" + p) in f.parent or (" " + p) in f.parent for p in AMBIENT_ALLOWED_PREFIX)
        ck.instance("R2.ambient", "%s -> %s" % (f.parent, name), F.short_span(sp), ok=ok)
        if not ok:
            ck.finding("R2.ambient", "R2.ambient/%s/%s" % (f.parent, name), F.short_span(sp),
                       "ambient nondeterminism: `%s` called from `%s`, outside the injectable platform providers" % (name, f.parent))
    cs = ambient_sites(ctl)
    if len(cs) < 2:
        ck.closed_fail.append("R2 positive control: fixture's clock reads not reported")

    # ---------------- R3
    ck.rule("R3.hashers", "every HashMap/HashSet/IndexMap/IndexSet type in the crate's type table uses an unseeded Fx hasher", floor=20)
    for t, hs, ok in hasher_types(fx):
        ck.instance("R3.hashers", t["s"], None, ok=ok)
        if not ok:
            users = []
            ti = fx.types.index(t)
            for f in fx.fns.values():
                if ti in f.locals:
                    users.append(f.parent)
                    if len(users) > 2:
                        break
            ck.finding("R3.hashers", "R3.hashers/" + t["s"], ", ".join(sorted(set(users))) or None,
                       "hash container `%s` uses hasher `%s` (randomly seeded or unknown): iteration order varies between processes" % (t["s"], hs))
    if not any(not ok for _, _, ok in hasher_types(ctl)):
        ck.closed_fail.append("R3 positive control: fixture's RandomState map not reported")

    # ---------------- R4a who may convert pointer to integer
    ck.rule("R4a.ptr2int", "pointer->integer conversions occur only in the designated identity functions", floor=2)
    for f, k, sp in ptr_to_int_sites(fx):
        ok = f.parent in ADDR_FNS
        ck.instance("R4a.ptr2int", "%s:%s" % (f.parent, k), F.short_span(sp), ok=ok)
        if not ok:
            ck.finding("R4a.ptr2int", "R4a.ptr2int/%s" % f.parent, F.short_span(sp),
                       "`%s` converts a pointer to an integer (%s); addresses differ between runs" % (f.parent, k))
    if not ptr_to_int_sites(ctl):
        ck.closed_fail.append("R4a positive control: fixture's pointer cast not reported")
    for a in ADDR_FNS:
        ck.anchor(a in fx.fns, "function " + a)

    # ---------------- R4b results of identity functions are only compared / hashed
    ck.rule("R4b.id-flow", "an address-valued integer (result of Gc::id) is used only in ==/!=, Hash::hash or HashSet membership", floor=5)
    for f in fx.fns.values():
        for bi, t in f.calls():
            if t[1].get("d") == "gc::Gc::<T>::id" and not t[3][1]:
                bad = classify_id_uses(fx, f, t[3][0])
                ck.instance("R4b.id-flow", f.parent + "@id", F.short_span(t[6]), ok=not bad)
                for sp, why in bad:
                    ck.finding("R4b.id-flow", "R4b.id-flow/%s" % f.parent, F.short_span(sp),
                               "%s in `%s`: an object address can reach observable output" % (why, f.parent))

    # ---------------- R4c address-keyed unordered containers are not iterated observably
    addr_types = address_hashed_types(fx)
    ck.anchor({"gc::Gc", "value::VarKey", "value::JsMapKey"} <= addr_types, "address-hashed types Gc, VarKey, JsMapKey discovered from their Hash impls (found %s)" % sorted(addr_types))
    ck.rule("R4c.addr-iter", "unordered containers keyed by an address-hashed type (or usize) are iterated only by order-insensitive consumers", floor=1)
    for f, d, ks, sp in addr_keyed_iterations(fx, addr_types):
        ok = f.parent in ADDR_ITER_ALLOWED
        ck.instance("R4c.addr-iter", "%s iterates map keyed by %s" % (f.parent, ks), F.short_span(sp), ok=ok)
        if not ok:
            ck.finding("R4c.addr-iter", "R4c.addr-iter/%s/%s" % (f.parent, ks), F.short_span(sp),
                       "`%s` iterates (`%s`) an unordered container keyed by `%s`, whose hash is an address: order differs between runs" % (f.parent, d, ks))
    # ordered containers keyed by address-hashed types are fine (insertion order); count them
    ck.rule("R4d.ordered", "JsMapKey (object-valued keys) appears as a key only in insertion-ordered containers")
    for t in fx.types:
        if t["k"] == "adt" and (t["p"] in UNORDERED or t["p"] in ORDERED) and t["a"]:
            if type_mentions(fx, t["a"][0], {"value::JsMapKey"}):
                ok = t["p"] in ORDERED
                ck.instance("R4d.ordered", t["s"], None, ok=ok)
                if not ok:
                    ck.finding("R4d.ordered", "R4d.ordered/" + t["s"], None, "`%s`: Map/Set keys in an unordered container (script-visible iteration order would depend on addresses)" % t["s"])

    # ---------------- R4e no ordering by address
    ck.rule("R4e.addr-order", "no sort / binary search / ordered comparison over raw pointers or NonNull (allocation addresses differ between runs and processes)")
    n_order = 0
    for f, what, sp in addr_order_sites(fx):
        n_order += 1
        ck.instance("R4e.addr-order", "%s: %s" % (f.parent, what), F.short_span(sp), ok=False)
        ck.finding("R4e.addr-order", "R4e.addr-order/%s/%s" % (f.parent, what.split()[0]), F.short_span(sp),
                   "`%s` orders values by their address (%s): which slot, handle or entry comes first then depends on where the allocator placed them, "
                   "so two runs of one program can differ" % (f.parent, what))
    ctl_hits = {f.path for f, what, sp in addr_order_sites(ctl)}
    if not ({"c12order::bad_sort", "c12order::bad_cmp"} <= ctl_hits) or "c12order::good_sort" in ctl_hits:
        ck.closed_fail.append("R4e positive control failed (hits=%s)" % sorted(ctl_hits))
    ck.note("R4e: %d address-ordering sites on this tree; positive control: fixture bad_sort / bad_cmp reported, good_sort silent" % n_order)

    # ---------------- R5 witnesses
    import witness
    witness.run(ck, "c12", ["Interpreter", "Gc", "Guard", "RuntimeValue", "Heap"], tier)

    ck.assume("Rust ownership: all other mutable state is reachable only through the owning `Interpreter` value")
    ck.assume("FxHasher has no per-process seed (rustc-hash 2.x)")
    return ck.finish()
