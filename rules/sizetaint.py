"""C06 R4: script-controlled sizes reaching allocation sinks without an upper bound."""
import re

import facts as F
import mir as M
import c10

SINK = re.compile(r"(^std::vec::Vec::<T>::with_capacity$|Vec::<T, A>::(resize|reserve|reserve_exact|resize_with)$|^std::vec::from_elem$|<impl str>::repeat$"
                  r"|^std::string::String::with_capacity$|^std::iter::Iterator::take$|slice::<impl \[T\]>::repeat$|^prelude::index_(map|set)_with_capacity$)")
NUM_SOURCES = re.compile(r"(::to_number$|::to_length$|::to_integer|::to_uint32$|::to_int32$|get_array_like_length$|::to_index$|::coerce_to_number$)")


def closure_has_float_cast(fx, path):
    g = fx.fns.get(path)
    if g is None:
        return False
    for bl in g.blocks:
        for s in bl["s"]:
            if s[0] == "a" and s[2][0] == "cast" and s[2][1] == "FloatToInt":
                return True
    return False


def script_sized(fx, f, l, depth=0, seen=None):
    """does local l derive from a script number converted to an integer?"""
    seen = seen if seen is not None else set()
    if l in seen or depth > 14:
        return False
    seen.add(l)
    for (bi, si, rv) in f.defs().get(l, []):
        if si == "T":
            d = rv[1].get("d", "")
            if NUM_SOURCES.search(d):
                return True
            for a in rv[2]:
                if a[0] in ("c", "m"):
                    t = fx.ty(f.locals[a[1][0]])
                    if t["k"] == "closure" and closure_has_float_cast(fx, t["p"]):
                        return True
                    if script_sized(fx, f, a[1][0], depth + 1, seen):
                        return True
                elif a[0] == "k" and isinstance(a[2], dict) and "fn" in a[2]:
                    pass
        else:
            if rv[0] == "cast" and rv[1] == "FloatToInt":
                return True
            if rv[0] == "agg" and rv[1].get("k") == "closure":
                continue
            for pl in F.rvalue_places(rv):
                # the payload of PropertyKey::Index is whatever index the script wrote
                if any(adt == "value::PropertyKey" and vn == "Index" for (adt, vn, _) in F.place_fields(pl)):
                    return True
                if script_sized(fx, f, pl[0], depth + 1, seen):
                    return True
    return False


def bounded(fx, f, block, local):
    """a dominating comparison bounds the size from above (any constant bound), or the value passed
    through `min(_, CONST)`"""
    guards = c10.guards_for(fx, f)
    root = c10.root_of(f, local)
    if c10.guarded(fx, f, block, root, 2 ** 40, guards):
        return True
    # min(x, CONST) / clamp
    seen = set()
    work = [local]
    while work:
        l = work.pop()
        if l in seen:
            continue
        seen.add(l)
        for (bi, si, rv) in f.defs().get(l, []):
            if si == "T":
                d = rv[1].get("d", "")
                if re.search(r"::(min|clamp)$", d):
                    return True
                for a in rv[2]:
                    if a[0] in ("c", "m"):
                        work.append(a[1][0])
            elif rv[0] in ("use", "cast"):
                op = rv[1] if rv[0] == "use" else rv[2]
                if op[0] in ("c", "m"):
                    work.append(op[1][0])
    return False


def sites(fx, scope=("src/interpreter", "src/value.rs", "src/api.rs", "src/gc.rs", "src/string_dict.rs")):
    for f in fx.fns.values():
        if not f.file.startswith(scope) or f.derived:
            continue
        for bi, t in f.calls():
            d = t[1].get("d", "")
            if not SINK.search(d):
                continue
            size = None
            for a in t[2][::-1]:
                if a[0] in ("c", "m") and not a[1][1] and fx.tys(f.locals[a[1][0]]) in ("usize", "u32", "u64"):
                    size = a
                    break
            if size is None:
                continue
            tainted = script_sized(fx, f, size[1][0])
            yield f, bi, t, d, tainted, (bounded(fx, f, bi, size[1][0]) if tainted else None)
