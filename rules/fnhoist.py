"""C01 R23: function declarations are hoisted to the top of their statement list.

`f(); function f() {}` works in every statement list of the language (program, function body, block, catch / finally block, the clauses
of a switch, a namespace body).  Structurally: every loop that compiles the statements of a list one by one (`compile_statement_impl`
under an iterator) comes after a call of the *function hoister* - a function that walks a statement list and compiles its function
declarations (`compile_function_declaration` in a loop), or a wrapper that calls one.  "After" is dominance of the loop header by the
call, or by the header of an earlier loop that contains the call (the clauses of a switch are hoisted clause by clause before the
tests are emitted).  A list compiler without a hoister call of its own (`compile_statements`) passes the obligation to its callers.
"""
import facts as F
import loops as L


def list_loops(fx, f, stmt_call="::compile_statement_impl"):
    cs = [bi for bi, t in f.calls() if (t[1].get("d") or "").endswith(stmt_call)]
    if not cs:
        return []
    out = []
    for hd, body in L.natural_loops(f):
        if not any(b in body for b in cs):
            continue
        if not any(bi in body and (t[1].get("u") or "").endswith("Iterator::next") for bi, t in f.calls()):
            continue
        out.append((hd, body))
    # innermost only: a loop whose body contains another listed loop is the outer loop over clauses
    inner = [(hd, body) for hd, body in out if not any(h2 != hd and h2 in body and b2 < body for h2, b2 in out)]
    return inner


def hoisters(fx, scope, decl_call="::compile_function_declaration"):
    base = set()
    for p, f in fx.fns.items():
        if f.derived or f.closure or not scope(f):
            continue
        loops = L.natural_loops(f)
        for bi, t in f.calls():
            if (t[1].get("d") or "").endswith(decl_call) and any(bi in body for hd, body in loops):
                base.add(p)
    out = set(base)
    for p, f in fx.fns.items():
        if f.derived or f.closure or not scope(f) or p in out:
            continue
        if any(t[1].get("d") in base for _, t in f.calls()) and not list_loops(fx, f):
            out.add(p)
    return out


def covered(f, hs_blocks, loops, target_block, body=()):
    for hb in hs_blocks:
        if hb in body:
            continue
        if f.dominates(hb, target_block):
            return True
        for hd2, body2 in loops:
            if hb in body2 and target_block not in body2 and f.dominates(hd2, target_block):
                return True
    return False


def rule(fx, scope):
    """[(fn, span, ok, why)]"""
    hs = hoisters(fx, scope)
    rows = []
    passing = {}   # list compilers without a hoister call: obligation goes to the callers
    for p, f in sorted(fx.fns.items()):
        if f.derived or f.closure or not scope(f):
            continue
        ll = list_loops(fx, f)
        if not ll:
            continue
        loops = L.natural_loops(f)
        hb = [bi for bi, t in f.calls() if t[1].get("d") in hs]
        if not hb and p not in hs and hs:
            passing[p] = f
            continue
        for hd, body in ll:
            ok = covered(f, hb, loops, hd, body)
            t = f.blocks[hd]["t"]
            rows.append((f, t[-1] if isinstance(t[-1], str) else f.span, ok, "statement loop"))
    for p, g in sorted(passing.items()):
        sites = [(f, bi, t) for f in fx.fns.values() if not f.derived and scope(f) for bi, t in f.calls() if t[1].get("d") == p]
        if not sites:
            rows.append((g, g.span, False, "statement loop without a hoister, and no caller"))
        for f, bi, t in sites:
            hb = [b2 for b2, t2 in f.calls() if t2[1].get("d") in hs]
            ok = covered(f, hb, L.natural_loops(f), bi)
            rows.append((f, t[6], ok, "call of the list compiler %s" % p.split("::")[-1]))
    return hs, rows


def hoister_forms(fx, scope, decl_call="::compile_function_declaration", stmt_enum="ast::Statement"):
    """[(hoister fn, statement variants from whose arm the function-declaration compiler is reached)]: `function f(){}` and `export function f(){}` both
    declare a hoisted function"""
    import mir as M
    out = []
    for p in sorted(hoisters(fx, scope)):
        f = fx.fns[p]
        calls = [bi for bi, t in f.calls() if (t[1].get("d") or "").endswith(decl_call)]
        if not calls:
            continue
        forms = set()
        for bi, en, pl, arms, other, rest in M.enum_switches(fx, f):
            if not str(en).endswith(stmt_enum.split("::")[-1]):
                continue
            for v, tgt in arms.items():
                reach = f.reachable_from(tgt, stop={bi}) | {tgt}
                if any(c in reach for c in calls):
                    forms.add(v)
        out.append((f, forms))
    return out
