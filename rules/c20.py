"""C20 - error reports point at the code that failed: structural clauses of position bookkeeping.

Positions are run-time values (functions of the layout of the source) and "inside the offending token" is
not decided here.  The machinery that produces them has parts whose correctness is visible in the shape of the
code; each rule below is a necessary condition - breaking it puts a position outside the token for some layout:

  L1 single-consumer: the source characters are consumed (`next()` on `Lexer.chars`) only by functions that
     update `line`/`column` for the consumed character; a second consumer skips text without counting it.
  L2 counting discipline: `Lexer.line` changes only by `+ 1`, together with `column = 1`, on the edges of the
     comparisons of the consumed character with the line terminators - and the terminator set is exactly
     {LF, U+2028, U+2029} (adding CR counts CRLF twice, dropping one loses a line); `column` otherwise changes
     by `+ 1` or is copied from a saved position (checkpoint, span).
  L3 token spans: every `Span` built in the lexer takes line from a *start-of-token* source (`start_line`, or
     a copy of `line` made before the token's characters are consumed) and column from the matching column
     source - never swapped, never the position after the token; `next_token` records the start position
     after skipping trivia and before consuming the first character.
  P1 location roles: wherever a (line, column) pair is handed to an error or a stack frame, `line` comes from
     a `.line` and `column` from a `.column` of the same span value.
  M1 source map writer: instructions are appended to `BytecodeBuilder.code` only by functions that record
     (offset = `code.len()` before the push, span = the current span) in the source map; nothing inserts or
     removes instructions in the middle (offsets would shift away from their entries); entries are appended in
     increasing offset order (binary search needs it).
  M2 source map reader: the lookup returns the entry *at or before* the offset (on the `Err(i)` edge of the
     binary search the index used is `i - 1`).
  T1 trace order and frames: the trace builder pushes the current frame first and walks the trampoline stack
     from its top (`rev()`), and both kinds of frame take their location from `ip - 1` of their own chunk
     (sibling agreement) with name, file, line, column from that same chunk / span.

Not decided: the position values themselves, spans of AST nodes built by the parser, which span the compiler
selects for an instruction.
"""
from common import Check
import facts as F
import mir as M
from c09 import ancestors, edge_dominates

LT = {10: "LF", 0x2028: "LS", 0x2029: "PS"}


def leaves(f, op, depth=0, seen=None):
    """value origins of an operand through copies/moves/casts and tuple fields of checked arithmetic:
    ('field', adt, name, base_local) | ('const', int) | ('param', i) | ('call', callee, block) | ('bin', op, [leaves], [leaves])"""
    seen = seen if seen is not None else set()
    if op[0] == "k":
        v = M.const_int(op)
        return {("const", v)}
    local, proj = op[1][0], op[1][1]
    fl = [e for e in proj if isinstance(e, list) and e[0] == "f"]
    if fl and fl[-1][3] not in ("tuple", None):
        return {("field", fl[-1][3], fl[-1][2], local)}
    key = (local, len(proj))
    if key in seen or depth > 14:
        return set()
    seen.add(key)
    if 1 <= local <= f.argc and not f.defs().get(local):
        return {("param", local)}
    out = set()
    for bi, si, rv in f.defs().get(local, []):
        if si == "T":
            out.add(("call", rv[1].get("d") or "?", bi))
        elif rv[0] == "use":
            out |= leaves(f, rv[1], depth + 1, seen)
        elif rv[0] == "cast":
            out |= leaves(f, rv[2], depth + 1, seen)
        elif rv[0] == "bin":
            a = frozenset(leaves(f, rv[2], depth + 1, seen))
            b = frozenset(leaves(f, rv[3], depth + 1, seen))
            out.add(("bin", rv[1].replace("WithOverflow", ""), a, b))
        elif rv[0] == "agg":
            out.add(("agg", rv[1].get("p")))
        else:
            out.add(("other", rv[0]))
    return out


def field_names(lv):
    return {x[2] for x in lv if x[0] == "field"}


def goto_chain(f, b):
    """blocks reached from b through statement-only blocks ending in goto (a merge of `a || b || c`)"""
    out = [b]
    for _ in range(6):
        t = f.blocks[b]["t"]
        if t[0] == "goto":
            b = t[1]
            out.append(b)
        else:
            break
    return out


def char_classes_reaching(f, target):
    """integer constants c such that the true edge of `x == c` (or the arm `c` of a switch on x) leads to `target`"""
    out = {}
    for bi, bl in enumerate(f.blocks):
        t = bl["t"]
        if t[0] != "switch" or t[1][0] not in ("c", "m"):
            continue
        dl = t[1][1][0]
        d = M.trace_back(f, dl)
        if d and d[1] != "T" and d[2][0] == "bin" and d[2][1] == "Eq":
            k = M.const_int(d[2][2]) if d[2][2][0] == "k" else (M.const_int(d[2][3]) if d[2][3][0] == "k" else None)
            if k is not None and target in goto_chain(f, t[3]):
                out[k] = bi
        elif d and d[1] != "T" and d[2][0] == "bin" and d[2][1] == "Ne":
            k = M.const_int(d[2][2]) if d[2][2][0] == "k" else (M.const_int(d[2][3]) if d[2][3][0] == "k" else None)
            zero = [tb for v, tb in t[2] if v == "0"]
            if k is not None and zero and target in goto_chain(f, zero[0]):
                out[k] = bi
        elif d and d[1] == "T" and d[2][1].get("local") and f_ty(f, dl) == "bool" and target in goto_chain(f, t[3]):
            # `if is_line_terminator(ch)`: the helper's summary (characters for which it returns true)
            h = _fx[0].fns.get(d[2][1].get("d"))
            if h is not None and h.argc >= 1:
                for k in bool_char_summary(h):
                    out[k] = bi
        else:
            # direct switch on the character
            if "char" == f_ty(f, dl):
                for v, tb in t[2]:
                    if target in goto_chain(f, tb):
                        out[int(v)] = bi
    return out


def bool_char_summary(h):
    """characters for which a `fn(char) -> bool` helper returns true (comparisons with constants, `matches!`)"""
    out = set()
    for bi, bl in enumerate(h.blocks):
        for s in bl["s"]:
            if s[0] == "a" and not s[1][1] and s[1][0] == 0:
                if s[2][0] == "use" and s[2][1][0] == "k" and M.const_int(s[2][1]) == 1:
                    out |= set(char_classes_reaching(h, bi))
                elif s[2][0] == "bin" and s[2][1] == "Eq":
                    k = M.const_int(s[2][2]) if s[2][2][0] == "k" else (M.const_int(s[2][3]) if s[2][3][0] == "k" else None)
                    if k is not None:
                        out.add(k)
                elif s[2][0] == "use" and s[2][1][0] in ("c", "m"):
                    dd = M.trace_back(h, s[2][1][1][0])
                    if dd and dd[1] != "T" and dd[2][0] == "bin" and dd[2][1] == "Eq":
                        k = M.const_int(dd[2][2]) if dd[2][2][0] == "k" else (M.const_int(dd[2][3]) if dd[2][3][0] == "k" else None)
                        if k is not None:
                            out.add(k)
    return out


_fx = [None]


def f_ty(f, local):
    return _fx[0].tys(f.locals[local])


def writes_of(f, adt_suffix, field):
    """[(block, stmt index, rvalue, span)] of assignments to <adt>.<field>"""
    out = []
    for bi, bl in enumerate(f.blocks):
        for si, s in enumerate(bl["s"]):
            if s[0] != "a":
                continue
            fl = F.place_fields(s[1])
            if fl and fl[-1][0].endswith(adt_suffix) and fl[-1][2] == field and isinstance(s[1][1][-1], list):
                out.append((bi, si, s[2], s[3]))
    return out


def run(tier, fx=None, ck=None, control=False):
    own = ck is None
    if own:
        ck = Check("C20", tier, "who-may-consume / who-may-write rules for the lexer's position counters, belief agreement over the line-terminator set, "
                                "value-origin rules for token spans, (line, column) pairs, source-map entries and the map lookup index, sibling "
                                "agreement of the two frame kinds of the stack-trace builder",
                   ["the position values themselves (that a reported line/column lies inside the offending token for every layout)",
                    "the spans the parser gives to AST nodes and the span the compiler selects for each instruction",
                    "frames of calls made by natives (nested VM runs are separate traces)"])
        fx = F.load("A")
        ck.configs.append("A: cargo +nightly check --lib --features c-api")
    _fx[0] = fx
    pre = "" if not control else "ctl:"
    LEX = "c20::Lexer" if control else "lexer::Lexer"
    lexfns = {p: f for p, f in fx.fns.items() if p.startswith(LEX + "::")}
    if not ck.anchor(bool(lexfns), pre + "functions of " + LEX):
        return ck.finish() if own else None

    # ------------------------------------------------------------ L1
    ck.rule("L1.single-consumer", "every function that consumes source characters (next() on Lexer.chars) updates line and column", floor=1)
    consumers = []
    for p, f in sorted(lexfns.items()):
        for bi, t in f.calls():
            if not (t[1].get("u") or "").endswith(("Iterator::next", "Iterator::nth", "Iterator::skip", "Iterator::next_if", "Peekable::<I>::next_if",
                                                   "Iterator::skip_while", "Iterator::advance_by", "Peekable::<I>::next_if_eq")) \
                    and not (t[1].get("d") or "").endswith(("::next_if", "::next_if_eq", "::nth", "::advance_by")):
                continue
            if not t[2] or t[2][0][0] not in ("c", "m"):
                continue
            lv = leaves(f, t[2][0])
            d = M.trace_back(f, t[2][0][1][0])
            on_chars = False
            if d and d[1] != "T" and d[2][0] == "ref":
                on_chars = any(x[0].endswith("Lexer") and x[2] == "chars" for x in F.place_fields(d[2][2]))
            if not on_chars:
                continue
            wl = writes_of(f, "Lexer", "line")
            wc = writes_of(f, "Lexer", "column")
            ok = bool(wl) and bool(wc) and all(f.dominates(bi, w[0]) for w in wl + wc)
            consumers.append((p, ok))
            ck.instance("L1.single-consumer", "%s consumes Lexer.chars" % p, F.short_span(t[6]), ok=ok)
            if not ok:
                ck.finding("L1.single-consumer", "L1.single-consumer/%s" % p, F.short_span(t[6]),
                           "`%s` takes characters from `Lexer.chars` without updating `line`/`column` for them: every position after the "
                           "text it skips is off by what it skipped" % p)
    ck.anchor(any(ok for p, ok in consumers), pre + "a counting consumer of Lexer.chars (advance)")

    # ------------------------------------------------------------ L2
    ck.rule("L2.counting", "line changes only by +1 with column = 1 on the line-terminator edges {LF, LS, PS}; column by +1 or from a saved position", floor=4)
    for p, f in sorted(lexfns.items()):
        for fld in ("line", "column"):
            for bi, si, rv, sp in writes_of(f, "Lexer", fld):
                if rv[0] != "use":
                    ck.instance("L2.counting", "%s: %s <- %s" % (p, fld, rv[0]), F.short_span(sp), ok=False)
                    ck.finding("L2.counting", "L2.counting/%s/%s/%s" % (p, fld, rv[0]), F.short_span(sp), "`%s` computes `%s` in an unexpected way" % (p, fld))
                    continue
                lv = leaves(f, rv[1])
                kinds = set()
                for x in lv:
                    if x[0] == "const":
                        kinds.add("const:%s" % x[1])
                    elif x[0] == "field":
                        kinds.add("saved:%s.%s" % (x[1].split("::")[-1], x[2]))
                    elif x[0] == "bin" and x[1] == "Add" and ({("const", 1)} in (set(x[2]), set(x[3]))):
                        other = set(x[3]) if set(x[2]) == {("const", 1)} else set(x[2])
                        names = field_names(other)
                        kinds.add("inc:%s" % ",".join(sorted(names)) if names else "inc:?")
                    elif x[0] == "param":
                        kinds.add("param")
                    else:
                        kinds.add("other:%s" % (x[0],))
                ok = True
                why = ""
                for k in kinds:
                    if k.startswith("inc:"):
                        src = k[4:]
                        if fld == "line":
                            if src != "line":
                                ok, why = False, "line is set to %s + 1" % src
                            else:
                                cls = char_classes_reaching(f, goto_chain(f, bi)[0]) or char_classes_reaching(f, _pred_start(f, bi))
                                got = set(cls)
                                if got != set(LT):
                                    ok = False
                                    extra = sorted(got - set(LT))
                                    miss = sorted(LT[c] for c in set(LT) - got)
                                    why = "the line counter is advanced for the character set %s: %s" % (
                                        sorted(got), ("U+%04X also counts as a line end (CR LF would count twice)" % extra[0]) if extra
                                        else ("%s does not start a new line" % ", ".join(miss)))
                                # column reset in the same straight-line region
                                resets = [w for w in writes_of(f, "Lexer", "column") if w[2][0] == "use" and leaves(f, w[2][1]) == {("const", 1)}
                                          and (w[0] == bi or f.dominates(bi, w[0]) or f.dominates(w[0], bi))]
                                if ok and not resets:
                                    ok, why = False, "the column is not reset to 1 where the line counter advances"
                        else:
                            if src == "column":
                                pass
                            elif src in ("column", "start_column") or src:
                                # a saved column + 1 (position after a one-column token)
                                pass
                            else:
                                ok, why = False, "column is incremented from an unknown source"
                    elif k.startswith("const:"):
                        v = k[6:]
                        if v != "1":
                            ok, why = False, "%s is set to the constant %s (positions are 1-based)" % (fld, v)
                    elif k.startswith("saved:"):
                        nm = k.split(".")[-1]
                        want = ("line", "start_line") if fld == "line" else ("column", "start_column")
                        if nm not in want:
                            ok, why = False, "%s is restored from `%s`" % (fld, nm)
                    elif k == "param":
                        pass
                    else:
                        ok, why = False, "%s is computed by %s" % (fld, k)
                ck.instance("L2.counting", "%s: %s <- %s" % (p, fld, "|".join(sorted(kinds))), F.short_span(sp), ok=ok)
                if not ok:
                    ck.finding("L2.counting", "L2.counting/%s/%s" % (p, fld), F.short_span(sp), "`%s`: %s" % (p, why))

    # ------------------------------------------------------------ L3
    ck.rule("L3.token-spans", "Span line/column in the lexer come from the start-of-token position, never swapped", floor=3)
    span_new = [p for p in fx.fns if p.endswith("Span::new")]
    for p, f in sorted(lexfns.items()):
        for bi, t in f.calls():
            d = t[1].get("d") or ""
            if d.endswith("Span::new") and len(t[2]) == 4:
                roles = {"line": t[2][2], "column": t[2][3]}
            elif d.endswith("Token::eof") and len(t[2]) == 3:
                roles = {"line": t[2][1], "column": t[2][2]}
            else:
                continue
            ok = True
            why = ""
            desc = []
            for role, op in roles.items():
                lv = leaves(f, op)
                names = field_names(lv)
                desc.append("%s<-%s" % (role, ",".join(sorted(names)) or "?"))
                want = {"line": {"line", "start_line"}, "column": {"column", "start_column"}}[role]
                if not names or not names <= want or any(x[0] not in ("field",) for x in lv):
                    ok = False
                    why = "the %s of a token span comes from %s" % (role, sorted(names) or sorted(x[0] for x in lv))
                    continue
                # a copy of the *current* position must be made before the token's characters are consumed
                cur = "line" if role == "line" else "column"
                if cur in names and not d.endswith("Token::eof"):
                    for l in ancestors(f, op[1][0]) if op[0] in ("c", "m") else ():
                        for dbi, si, rv in f.defs().get(l, []):
                            if si != "T" and rv[0] == "use" and rv[1][0] in ("c", "m") and \
                                    any(x[2] == cur and x[0].endswith("Lexer") for x in F.place_fields(rv[1][1])):
                                adv = [cb for cb, ct in f.calls() if (ct[1].get("d") or "") in {c for c, okc in consumers} and
                                       cb != dbi and f.dominates(cb, dbi)]
                                if adv:
                                    ok = False
                                    why = "the %s of the span is read after characters of the token were consumed" % role
            ck.instance("L3.token-spans", "%s: %s" % (p, " ".join(desc)), F.short_span(t[6]), ok=ok)
            if not ok:
                ck.finding("L3.token-spans", "L3.token-spans/%s" % p, F.short_span(t[6]), "`%s`: %s" % (p, why))
    # next_token: start_* recorded after the trivia skip and before the first consumption
    for p, f in sorted(lexfns.items()):
        ws = writes_of(f, "Lexer", "start_line") + writes_of(f, "Lexer", "start_column")
        cur_copy = [w for w in ws if w[2][0] == "use" and field_names(leaves(f, w[2][1])) & {"line", "column"}]
        if not cur_copy:
            continue
        cons = [cb for cb, ct in f.calls() if (ct[1].get("d") or "") in {c for c, okc in consumers}]
        skippers = [cb for cb, ct in f.calls() if ct[1].get("local") and (ct[1].get("d") or "") in lexfns and
                    (ct[1].get("d") or "") not in {c for c, okc in consumers} and reaches_consumer(fx, ct[1].get("d"), {c for c, okc in consumers})]
        for w in cur_copy:
            before = [cb for cb in cons + skippers if f.dominates(cb, w[0]) and cb != w[0]]
            after = [cb for cb in cons + skippers if f.dominates(w[0], cb) and cb != w[0]]
            # every consumer that precedes the copy must be a trivia skipper (consumes no token text): a call to a helper, not to advance
            ok = not [cb for cb in before if cb in cons]
            ck.instance("L3.token-spans", "%s records the token start before consuming it" % p, F.short_span(w[3]), ok=ok)
            if not ok:
                ck.finding("L3.token-spans", "L3.token-spans/%s/start-after-consume" % p, F.short_span(w[3]),
                           "`%s` records the start position of a token after it consumed a character of it" % p)

    # ------------------------------------------------------------ P1
    ck.rule("P1.location-roles", "(line, column) pairs handed to errors and frames: line from .line, column from .column of one span", floor=10)
    pair_callees = {}
    for p, f in fx.fns.items():
        if f.closure:
            continue
        names = {}
        for n, pl in f.vars:
            if 1 <= pl[0] <= f.argc and not pl[1]:
                names[n] = pl[0] - 1
        if "line" in names and "column" in names and fx.tys(f.locals[names["line"] + 1]) == "u32":
            pair_callees[p] = (names["line"], names["column"])
    for p, f in sorted(fx.fns.items()):
        if control and not p.startswith("c20::"):
            continue
        sites = []
        for bi, t in f.calls():
            d = t[1].get("d")
            if d in pair_callees and len(t[2]) > max(pair_callees[d]):
                sites.append((t[2][pair_callees[d][0]], t[2][pair_callees[d][1]], t[6], d.split("::")[-1]))
        for bi, bl in enumerate(f.blocks):
            for s in bl["s"]:
                if s[0] == "a" and s[2][0] == "agg" and s[2][1].get("k") == "adt":
                    fields = s[2][1].get("fields") or []
                    if "line" in fields and "column" in fields and len(s[2][2]) == len(fields):
                        sites.append((s[2][2][fields.index("line")], s[2][2][fields.index("column")], s[3], s[2][1].get("p", "?").split("::")[-1]))
        for lo, co, sp, what in sites:
            ll, cl = leaves(f, lo), leaves(f, co)
            lf, cf = field_names(ll), field_names(cl)
            trivial = not lf and not cf   # parameters / constants: forwarding functions
            ok = True
            why = ""
            if lf and not lf <= {"line", "start_line"}:
                ok, why = False, "`line` is given the value of `.%s`" % sorted(lf)[0]
            if cf and not cf <= {"column", "start_column"}:
                ok, why = False, "`column` is given the value of `.%s`" % sorted(cf)[0]
            if ok and lf and cf:
                lb = {x[3] for x in ll if x[0] == "field"}
                cb = {x[3] for x in cl if x[0] == "field"}
                if lb != cb and not (_same_root(f, lb, cb)):
                    ok, why = False, "line and column are taken from two different span values"
            ck.instance("P1.location-roles", "%s -> %s(line<-%s, column<-%s)" % (p, what, ",".join(sorted(lf)) or "arg", ",".join(sorted(cf)) or "arg"),
                        F.short_span(sp), nontrivial=not trivial, ok=ok)
            if not ok:
                ck.finding("P1.location-roles", "P1.location-roles/%s/%s" % (p, what), F.short_span(sp), "`%s` builds a location for `%s`: %s" % (p, what, why))

    # ------------------------------------------------------------ M1 / M2
    source_map(fx, ck, pre, control)
    # ------------------------------------------------------------ T1
    trace(fx, ck, pre, control)

    if not own:
        return None
    # ---- N1 every nested chunk names its file
    import nestedcomp
    ck.rule("N1.nested-chunks-name-their-file", "every function that creates the compiler of a nested function body copies `source_file` into it, as its siblings do "
            "(frames of constructors and expression-bodied arrows are reported under the file of their code)", floor=3)
    union1, rows1 = nestedcomp.rule(fx)
    ck.anchor("source_file" in union1, "a creator of nested compilers copies Compiler.source_file (inherited fields: %s)" % sorted(union1))
    for f1, sp1, inh1, miss1, via1 in rows1:
        ok1 = "source_file" not in miss1
        ck.instance("N1.nested-chunks-name-their-file", "%s%s" % (f1.path, " (through %s)" % via1.split("::")[-1] if via1 else ""), F.short_span(sp1), ok=ok1)
        if not ok1:
            ck.finding("N1.nested-chunks-name-their-file", "N1.nested-chunks-name-their-file/%s" % f1.path, F.short_span(sp1),
                       "`%s` compiles a nested function body with a fresh compiler that is not told the source file: its frames are reported as `<eval>` "
                       "(`const f = (o) => o.a.b` in /m.ts: `at f (<eval>:1:23)`), while the bodies compiled by its siblings name the file" % f1.path)
    # ---- F1 a program is compiled under the path of the run it belongs to
    from c09 import ancestors as anc_f1
    ck.rule("F1.compiled-under-its-own-path", "the source name handed to Compiler::compile_program_with_source derives from a ModulePath parameter of the function or from "
            "Interpreter.current_module_path (which every run installs), never from a field that is set once per interpreter", floor=3)
    nf1 = 0
    for pf, ff in sorted(fx.fns.items()):
        if ff.derived or not (ff.parent if ff.closure else pf).startswith("interpreter::"):
            continue
        for bi, t in ff.calls():
            if not (t[1].get("d") or "").endswith("Compiler::compile_program_with_source") or len(t[2]) < 2 or t[2][1][0] not in ("c", "m"):
                continue
            nf1 += 1
            anc = anc_f1(ff, t[2][1][1][0])
            fields, params = set(), set()
            for l in anc:
                if 1 <= l <= ff.argc and "ModulePath" in fx.tys(ff.locals[l]):
                    params.add(l)
                for (db, si, rv) in ff.defs().get(l, []):
                    if si == "T":
                        continue
                    for pl in F.rvalue_places(rv):
                        for a_, v_, n_ in F.place_fields(pl):
                            if a_ == "interpreter::Interpreter" and "path" in n_:
                                fields.add(n_)
                        # a closure reads what it captured: the captured reference is an ancestor too
                        if ff.closure and pl[0] == 1 and "ModulePath" in fx.tys(ff.locals[l]):
                            params.add(l)
            if ff.closure:
                # the closure compiles under a path it captured: follow the captured ModulePath values into the enclosing function
                par = fx.fns.get(ff.parent)
                params = set()
                if par is not None:
                    for bl_ in par.blocks:
                        for s_ in bl_["s"]:
                            if s_[0] == "a" and s_[2][0] == "agg" and isinstance(s_[2][1], dict) and s_[2][1].get("k") == "closure" and s_[2][1].get("p") == pf:
                                for cap in s_[2][2]:
                                    if cap[0] not in ("c", "m") or "ModulePath" not in fx.tys(par.locals[cap[1][0]]):
                                        continue
                                    for l in anc_f1(par, cap[1][0]):
                                        if 1 <= l <= par.argc and "ModulePath" in fx.tys(par.locals[l]):
                                            params.add(l)
                                        for (db, si, rv) in par.defs().get(l, []):
                                            if si == "T":
                                                continue
                                            for pl in F.rvalue_places(rv):
                                                for a_, v_, n_ in F.place_fields(pl):
                                                    if a_ == "interpreter::Interpreter" and "path" in n_:
                                                        fields.add(n_)
            okf = bool(params) or fields == {"current_module_path"}
            ck.instance("F1.compiled-under-its-own-path", "%s: source name from %s" % (pf, "a ModulePath parameter" if params else (", ".join(sorted(fields)) or "a captured path")),
                        F.short_span(t[6]), ok=okf)
            if not okf:
                ck.finding("F1.compiled-under-its-own-path", "F1.compiled-under-its-own-path/%s" % (ff.parent if ff.closure else pf), F.short_span(t[6]),
                           "`%s` compiles a program under a name taken from `%s`: that field is not the path of the run at hand (main_module_path is set by the first run of an "
                           "interpreter only), so the frames of a later program name the earlier file while their lines and columns are positions in the real one"
                           % (pf, ", ".join(sorted(fields)) or "?"))
    ck.anchor(nf1 >= 3, "calls of Compiler::compile_program_with_source in the interpreter (found %d)" % nf1)
    ctl = F.load_fixture()
    uc, rc = nestedcomp.rule(ctl, comp="nestedcomp::Compiler")
    gotn = sorted((f.path.split("::")[-1], sorted(miss)) for f, sp, inh, miss, via in rc)
    if gotn != [("bad_arrow", ["class_context_stack", "source_file"]), ("bad_ctor", ["source_file"]), ("good_body", []), ("good_via", [])]:
        ck.closed_fail.append("N1 control failed: fixture gives %s" % gotn)
    ck.note("N1 controls: fixture bad_ctor / bad_arrow reported, good_body and good_via (through the good creator) silent")
    ck2 = Check("C20", tier, "", [])
    run(tier, ctl, ck2, control=True)
    _fx[0] = fx
    got = {f[0] for f in ck2.findings}
    need = {"L1.single-consumer", "L2.counting", "L3.token-spans", "P1.location-roles", "M1.map-writer", "M1c.entry-per-change", "M2.map-reader", "T1.trace"}
    if not need <= got:
        ck.closed_fail.append("control failed: the fixture must be reported by %s, got %s" % (sorted(need), sorted(got)))
    ck.note("positive control (fixture c20) reported by: %s" % sorted(got))
    return ck.finish()


def _pred_start(f, bi):
    """the block whose statements compute the incremented value stored in bi (assert blocks split `x += 1`)"""
    ps = f.preds()[bi]
    return ps[0] if len(ps) == 1 else bi


def _same_root(f, a, b):
    ra = set()
    for l in a:
        ra |= ancestors(f, l)
    rb = set()
    for l in b:
        rb |= ancestors(f, l)
    return bool(ra & rb)


_rc = {}


def reaches_consumer(fx, p, consumers):
    if p in _rc:
        return _rc[p]
    cg, _ = fx.callgraph()
    seen = set()
    work = [p]
    r = False
    while work:
        x = work.pop()
        if x in seen:
            continue
        seen.add(x)
        if x in consumers:
            r = True
            break
        work.extend(c for c in cg.get(x, ()) if c in fx.fns)
    _rc[p] = r
    return r


def source_map(fx, ck, pre, control):
    ck.rule("M1.map-writer", "instructions are appended only by functions that record (code.len() before the push, current span); no insertion/removal in the middle",
            floor=2)
    B = "c20::Builder" if control else "BytecodeBuilder"
    nb = 0
    for p, f in sorted(fx.fns.items()):
        if control and not p.startswith("c20::"):
            continue
        for bi, t in f.calls():
            d = t[1].get("d") or ""
            m = d.split("::")[-1]
            if "Vec::<" not in d or not t[2] or t[2][0][0] not in ("c", "m"):
                continue
            dd = M.trace_back(f, t[2][0][1][0])
            if not (dd and dd[1] != "T" and dd[2][0] == "ref"):
                continue
            fl = F.place_fields(dd[2][2])
            if not fl or not fl[-1][0].endswith(B.split("::")[-1]) or fl[-1][2] not in ("code", "source_map"):
                continue
            fld = fl[-1][2]
            if m in ("insert", "remove", "swap_remove", "truncate", "drain", "retain", "pop", "clear", "split_off", "dedup", "dedup_by_key", "sort_by_key"):
                nb += 1
                ck.instance("M1.map-writer", "%s: %s.%s" % (p, fld, m), F.short_span(t[6]), ok=False)
                ck.finding("M1.map-writer", "M1.map-writer/%s/%s.%s" % (p, fld, m), F.short_span(t[6]),
                           "`%s` calls `%s.%s`: instructions (or map entries) move while the recorded offsets stay, so later instructions are "
                           "attributed to the wrong source span" % (p, fld, m))
            if m != "push":
                continue
            nb += 1
            if fld == "code":
                # the same function records a source map entry whose offset is code.len() taken before this push
                entries = [(b2, s, None) for b2, bl in enumerate(f.blocks) for s in bl["s"]
                           if s[0] == "a" and s[2][0] == "agg" and s[2][1].get("k") == "adt" and s[2][1].get("p", "").endswith("SourceMapEntry")]
                # ... or a helper called from here that is handed the index
                for cb, ct in f.calls():
                    g = fx.fns.get(ct[1].get("d")) if ct[1].get("local") else None
                    if g is None or g.path == f.path:
                        continue
                    for b2, bl in enumerate(g.blocks):
                        for s2 in bl["s"]:
                            if s2[0] == "a" and s2[2][0] == "agg" and s2[2][1].get("k") == "adt" and s2[2][1].get("p", "").endswith("SourceMapEntry"):
                                entries.append((b2, s2, (g, cb, ct)))
                ok = bool(entries)
                why = "records no source-map entry"
                for b2, s, via in entries:
                    fields = s[2][1].get("fields") or []
                    off = s[2][2][fields.index("bytecode_offset")] if "bytecode_offset" in fields else None
                    spn = s[2][2][fields.index("span")] if "span" in fields else None
                    if via is not None:
                        g, cb, ct = via
                        glv = leaves(g, off) if off else set()
                        lv = set()
                        for x in glv:
                            if x[0] == "param" and x[1] - 1 < len(ct[2]):
                                lv |= leaves(f, ct[2][x[1] - 1])
                            else:
                                lv.add(("other", "helper"))
                        sl_h = leaves(g, spn) if spn else set()
                        span_ok_h = any(y[0] == "field" and y[2] == "current_span" for y in sl_h) or \
                            any("current_span" in str(F.place_fields(pl)) for l in (ancestors(g, spn[1][0]) if spn and spn[0] in ("c", "m") else ())
                                for dbi, si, rv in g.defs().get(l, []) if si != "T" for pl in F.rvalue_places(rv))
                    else:
                        lv = leaves(f, off) if off else set()
                        span_ok_h = None
                    # `code.len()` read before the push, or `code.len() - 1` read after it
                    forms = []
                    for x in lv:
                        if x[0] == "call" and x[1].endswith("::len"):
                            forms.append((x, "before"))
                        elif x[0] == "bin" and x[1] == "Sub" and set(x[3]) == {("const", 1)} and len(x[2]) == 1 and \
                                list(x[2])[0][0] == "call" and list(x[2])[0][1].endswith("::len"):
                            forms.append((list(x[2])[0], "after"))
                        else:
                            forms.append((x, "?"))
                    if not forms or any(w == "?" for x, w in forms):
                        ok, why = False, "the recorded offset is not the index of the appended instruction (%s)" % sorted(x[0] for x in lv)
                        continue
                    for x, when in forms:
                        lb = x[2]
                        arg = f.blocks[lb]["t"][2][0]
                        d2 = M.trace_back(f, arg[1][0]) if arg[0] in ("c", "m") else None
                        on_code = bool(d2 and d2[1] != "T" and d2[2][0] == "ref" and any(y[2] == "code" for y in F.place_fields(d2[2][2])))
                        if not on_code:
                            ok, why = False, "the recorded offset is the length of another vector"
                        elif when == "before" and (not f.dominates(lb, bi) or lb == bi):
                            ok, why = False, "the offset `code.len()` is read after the instruction was appended (off by one)"
                        elif when == "after" and (not f.dominates(bi, lb) or lb == bi):
                            ok, why = False, "the offset `code.len() - 1` is read before the instruction was appended (off by one)"
                    sl = leaves(f, spn) if spn else set()
                    if span_ok_h is not None:
                        if not span_ok_h:
                            ok, why = False, "the recorded span is not the builder's current span"
                    elif not any(y[0] == "field" and y[2] == "current_span" for y in sl) and \
                            not any("current_span" in str(F.place_fields(pl)) for l in (ancestors(f, spn[1][0]) if spn and spn[0] in ("c", "m") else ())
                                    for dbi, si, rv in f.defs().get(l, []) if si != "T" for pl in F.rvalue_places(rv)):
                        ok, why = False, "the recorded span is not the builder's current span"
                ck.instance("M1.map-writer", "%s appends an instruction and records its span" % p, F.short_span(t[6]), ok=ok)
                if not ok:
                    ck.finding("M1.map-writer", "M1.map-writer/%s/push" % p, F.short_span(t[6]), "`%s` appends to `code` but %s" % (p, why))
            else:
                ck.instance("M1.map-writer", "%s appends a source-map entry" % p, F.short_span(t[6]), nontrivial=False)
    ck.anchor(nb >= 2, pre + "pushes onto BytecodeBuilder.code / source_map")
    # M1c: an entry may be suppressed only when the span did not change: the test that gates the push compares
    # the last entry's span with the new one for (in)equality, never by order - the compiler emits the update clause
    # of a `for`, the bodies of `switch` cases and constructor bodies *after* textually later code.
    ck.rule("M1c.entry-per-change", "the test gating a source-map entry compares spans for equality only (emission order is not source order)", floor=1)
    nc = 0
    for p, f in sorted(fx.fns.items()):
        if control and not p.startswith("c20::"):
            continue
        top = fx.fns.get(f.parent) if f.closure else f
        if top is None:
            continue
        pushes_map = False
        for g in fx.body_group(top):
            for bl in g.blocks:
                for s in bl["s"]:
                    if s[0] == "a" and s[2][0] == "agg" and s[2][1].get("k") == "adt" and s[2][1].get("p", "").endswith("SourceMapEntry"):
                        pushes_map = True
        if not pushes_map:
            continue
        for bi, bl in enumerate(f.blocks):
            for s in bl["s"]:
                if s[0] != "a" or s[2][0] != "bin" or s[2][1] not in ("Eq", "Ne", "Lt", "Le", "Gt", "Ge"):
                    continue
                sides = [leaves(f, s[2][2]), leaves(f, s[2][3])]
                entry_side = any(any(x[0] == "field" and x[1].endswith("Span") for x in sd) for sd in sides) and \
                    any("SourceMapEntry" in str(op) for op in (s[2][2], s[2][3])) or \
                    any("SourceMapEntry" in str(st) for st in bl["s"] if st[0] == "a" and st[1][0] in
                        {o[1][0] for o in (s[2][2], s[2][3]) if o[0] in ("c", "m")})
                if not entry_side:
                    continue
                nc += 1
                ok = s[2][1] in ("Eq", "Ne")
                ck.instance("M1c.entry-per-change", "%s: last entry's span %s new span" % (p, s[2][1]), F.short_span(s[3]), ok=ok)
                if not ok:
                    ck.finding("M1c.entry-per-change", "M1c.entry-per-change/%s/%s" % (top.path, s[2][1]), F.short_span(s[3]),
                               "`%s` decides whether to record a source-map entry by an ordering comparison (`%s`) with the last entry's span: "
                               "code emitted out of source order (the update clause of a `for`, `switch` case bodies, a constructor below its fields) "
                               "gets no entry and is attributed to the textually later code emitted before it" % (top.path, s[2][1]))
    ck.anchor(nc >= 1 or control, pre + "span comparison gating the source-map push")

    ck.rule("M2.map-reader", "the source-map lookup returns the entry at or before the offset (Err(i) -> i - 1)", floor=1)
    n = 0
    for p, f in sorted(fx.fns.items()):
        if control and not p.startswith("c20::"):
            continue
        for bi, t in f.calls():
            d = t[1].get("d") or ""
            if "binary_search" not in d:
                continue
            dd = None
            anc = ancestors(f, t[2][0][1][0]) if t[2] and t[2][0][0] in ("c", "m") else set()
            on_map = any(any(y[2] == "source_map" for y in F.place_fields(pl)) for l in anc for dbi, si, rv in f.defs().get(l, []) if si != "T"
                         for pl in F.rvalue_places(rv))
            if not on_map:
                continue
            n += 1
            res = t[3][0]
            # indexes used with get()/index on the Err edge
            ok = True
            why = ""
            found_err = False
            for b2, t2 in f.calls():
                d2 = t2[1].get("d") or ""
                if not (d2.endswith("::get") or d2.endswith("Index>::index") or d2.endswith("::get_unchecked")) or len(t2[2]) < 2:
                    continue
                lv = leaves(f, t2[2][1])
                for x in lv:
                    if x[0] == "field" and x[2] == "0" and x[1].endswith("Result"):
                        # direct payload: must be the Ok payload
                        var = _variant_of(f, t2[2][1])
                        if var == "Err":
                            found_err = True
                            ok, why = False, "on the `Err(i)` edge the entry `i` is returned: that is the first entry *after* the offset"
                    if x[0] == "bin":
                        var = None
                        for side in (x[2], x[3]):
                            for y in side:
                                if y[0] == "field" and y[1].endswith("Result"):
                                    var = "Err"
                        if var == "Err":
                            found_err = True
                            if not (x[1] == "Sub" and set(x[3]) == {("const", 1)}):
                                ok, why = False, "on the `Err(i)` edge the index is computed by `%s`, not `i - 1`" % x[1]
            if not found_err:
                ok, why = False, "the `Err(i)` result of the binary search (offset between two entries) is not mapped to the entry before it"
            ck.instance("M2.map-reader", "%s: Err(i) -> entry i - 1" % p, F.short_span(t[6]), ok=ok)
            if not ok:
                ck.finding("M2.map-reader", "M2.map-reader/%s" % p, F.short_span(t[6]), "`%s`: %s" % (p, why))
    ck.anchor(n >= 1, pre + "binary search over the source map")


def _variant_of(f, op):
    """variant name in the downcast projection of the place an operand copies from"""
    if op[0] not in ("c", "m"):
        return None
    for e in op[1][1]:
        if isinstance(e, list) and e[0] == "d":
            return e[1]
    d = M.trace_back(f, op[1][0])
    if d and d[1] != "T":
        for pl in F.rvalue_places(d[2]):
            for e in pl[1]:
                if isinstance(e, list) and e[0] == "d":
                    return e[1]
    return None


def chunk_roots(fx, f, op):
    """descriptors of the chunk a value is taken from: fields named `chunk` (with their ADT) and chunk-typed parameters among the ancestors"""
    out = set()
    if op is None or op[0] not in ("c", "m"):
        return out
    for l in ancestors(f, op[1][0]):
        if 1 <= l <= f.argc and "Chunk" in fx.tys(f.locals[l]) and "Vm" not in fx.tys(f.locals[l]) and "VM" not in fx.tys(f.locals[l]):
            out.add(("param", l))
        for bi, si, rv in f.defs().get(l, []):
            if si == "T":
                continue
            for pl in F.rvalue_places(rv):
                for a, v, n in F.place_fields(pl):
                    if n == "chunk":
                        out.add(("field", a.split("::")[-1]))
    for e in op[1][1]:
        if isinstance(e, list) and e[0] == "f" and e[2] == "chunk":
            out.add(("field", (e[3] or "").split("::")[-1]))
    return out


def trace(fx, ck, pre, control):
    ck.rule("T1.trace", "the trace builder lists the current frame first, then the trampoline stack from its top; every frame is located at ip - 1 of its "
                        "own chunk and takes file, line and column from that chunk / span", floor=2)
    builders = []
    for p, f in sorted(fx.fns.items()):
        if f.closure or (control and not p.startswith("c20::")):
            continue
        if "Vec<" in fx.tys(f.locals[0]) and "StackFrame>" in fx.tys(f.locals[0]):
            builders.append(f)
    if not ck.anchor(bool(builders), pre + "stack-trace builder (returns Vec<StackFrame>)"):
        return
    # frame constructors: the builder itself or helpers it calls (a frame may be built by `stack_frame_at(chunk, ip)`)
    ctors = []
    for bf in builders:
        # (the helper may be called from a closure of the builder: `.filter_map(|(chunk, ip)| self.describe_frame(chunk, ip))`)
        cand = [bf] + [fx.fns[t[1]["d"]] for g0 in fx.body_group(bf) for bi, t in g0.calls() if t[1].get("local") and t[1].get("d") in fx.fns]
        for g in cand:
            if any(s[0] == "a" and s[2][0] == "agg" and s[2][1].get("p", "").endswith("StackFrame") for bl in g.blocks for s in bl["s"]) and g not in ctors:
                ctors.append(g)
    ck.anchor(bool(ctors), pre + "construction of StackFrame reachable from the trace builder")
    for f in builders:
        p = f.path
        helper_calls = [bi for bi, t in f.calls() if t[1].get("d") in {g.path for g in ctors if g is not f}]
        frames_here = [bi for bi, bl in enumerate(f.blocks) for s in bl["s"]
                       if s[0] == "a" and s[2][0] == "agg" and s[2][1].get("p", "").endswith("StackFrame")] + helper_calls
        its = []
        for bi, t in f.calls():
            d = t[1].get("d") or ""
            if d.endswith("::iter") or d.endswith("IntoIterator>::into_iter"):
                anc = ancestors(f, t[2][0][1][0]) if t[2] and t[2][0][0] in ("c", "m") else set()
                on_stack = any(any("stack" in y[2] or "frames" in y[2] for y in F.place_fields(pl)) for l in anc for dbi, si, rv in f.defs().get(l, [])
                               if si != "T" for pl in F.rvalue_places(rv))
                if on_stack:
                    its.append((bi, t))
        for bi, t in its:
            if "Rev<" in fx.tys(f.locals[t[2][0][1][0]]):
                continue   # the into_iter of an already reversed iterator
            res = t[3][0]
            rev = any((t2[1].get("u") or "").endswith("Iterator::rev") and t2[2] and t2[2][0][0] in ("c", "m") and res in ancestors(f, t2[2][0][1][0])
                      for b2, t2 in f.calls())
            ck.instance("T1.trace", "%s walks the frame stack from its top" % p, F.short_span(t[6]), ok=rev)
            if not rev:
                ck.finding("T1.trace", "T1.trace/%s/order" % p, F.short_span(t[6]),
                           "`%s` walks the trampoline stack from the bottom: callers are listed outermost first" % p)
        ck.anchor(bool(its), pre + "iteration over the trampoline stack in " + p)
        if its and frames_here:
            loop_b = its[0][0]
            first = [bi for bi in frames_here if not f.dominates(loop_b, bi)]
            ok = bool(first)
            ck.instance("T1.trace", "%s pushes the current frame before the outer frames" % p, F.short_span(f.span), ok=ok)
            if not ok:
                ck.finding("T1.trace", "T1.trace/%s/current-first" % p, F.short_span(f.span), "`%s` does not list the current frame before the callers" % p)
    for f in ctors:
        p = f.path
        frames = [(bi, s) for bi, bl in enumerate(f.blocks) for s in bl["s"]
                  if s[0] == "a" and s[2][0] == "agg" and s[2][1].get("p", "").endswith("StackFrame")]
        for bi, s in frames:
            fields = s[2][1].get("fields") or []
            sig = {}
            for role in ("line", "column"):
                if role in fields:
                    sig[role] = ",".join(sorted(field_names(leaves(f, s[2][2][fields.index(role)])))) or "?"
            look = [(b2, t2) for b2, t2 in f.calls() if (t2[1].get("d") or "").endswith("get_source_location") and f.dominates(b2, bi)]
            near = None
            for b2, t2 in look:
                if near is None or f.dominates(near[0], b2):
                    near = (b2, t2)
            lookup_roots = set()
            if near is not None and len(near[1][2]) > 1:
                lv = leaves(f, near[1][2][1])
                forms = set()
                for x in lv:
                    if x[0] == "bin" and x[1] == "Sub" and set(x[3]) == {("const", 1)}:
                        forms.add("ip-1")
                    elif x[0] == "call" and x[1].endswith(("saturating_sub", "checked_sub", "wrapping_sub")):
                        a = f.blocks[x[2]]["t"][2]
                        forms.add("ip-1" if len(a) > 1 and M.const_int(a[1]) == 1 else "ip-?")
                    elif x[0] == "const":
                        forms.add("const:%s" % x[1])
                    elif x[0] == "field":
                        forms.add("raw:%s" % x[2])
                    elif x[0] == "param":
                        forms.add("raw:param")
                    else:
                        forms.add(x[0])
                sig["ip"] = "|".join(sorted(forms))
                lookup_roots = chunk_roots(fx, f, near[1][2][0])
            ok = sig.get("line") == "line" and sig.get("column") == "column" and "ip-1" in sig.get("ip", "") and "raw:" not in sig.get("ip", "")
            why = "the saved `ip` points past the instruction that was executing, so the location must be looked up at `ip - 1`, and line/column must come from that span"
            # file / function name from the chunk that was looked up
            for role in ("file", "function_name"):
                if role in fields and lookup_roots:
                    rr = chunk_roots(fx, f, s[2][2][fields.index(role)])
                    sig[role] = "same chunk" if (rr & lookup_roots) else ("other chunk %s" % sorted(rr) if rr else "?")
                    if rr and not (rr & lookup_roots):
                        ok = False
                        why = "`%s` is taken from %s while the location was looked up in %s: across modules the frame names a file the position does not belong to" % (
                            role, sorted(rr), sorted(lookup_roots))
            ck.instance("T1.trace", "%s frame: %s" % (p, sorted(sig.items())), F.short_span(s[3]), ok=ok)
            if not ok:
                ck.finding("T1.trace", "T1.trace/%s/frame/%s" % (p, "+".join("%s=%s" % kv for kv in sorted(sig.items()))), F.short_span(s[3]),
                           "`%s` builds a frame with %s: %s" % (p, sorted(sig.items()), why))
