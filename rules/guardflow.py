"""Guardflow (C02 group 4): rooting hazards for FRESH objects.

A value of origin FRESH is one whose only root is a guard the current function holds:
  (a) extracted from a `Guarded` returned by a callee (the callee hands over the guard exactly
      because the value may be otherwise unreachable),
  (b) allocated through `create_*(&guard, ..)` / `Guard::alloc` with a *local* guard.
Forward may-analysis over MIR: for every tracked local the set of live local guard holders that
protect it; a holder dies when it is dropped, moved into a call, overwritten or goes out of
storage.  Armed report: at a call that may collect (reaches Space::alloc_internal/collect or goes
through a function pointer) a tracked value has no live protector and is still used afterwards
(backward liveness in which drops are not uses), or is passed to that very call.
Values from parameters, interpreter fields or heap reads are never tracked (caller/heap rooted by
convention), so removing a redundant guard on an input does not alarm.

A third origin, DETACHED (rule G4d): a Gc-bearing value moved *out of* shared heap state - the result of
`mem::take` / `mem::replace` / `Option::take` / `pop` / `remove` / `swap_remove` / `drain` / `pop_front` /
`split_off` applied to a place behind a `RefMut` (a `borrow_mut()` of a `Gc` object or of an
`Rc<RefCell<..>>` state the tracer walks).  The heap no longer references what was taken, so from
that point the value is exactly as rooted as a fresh allocation with no guard: it is tracked with an
empty protector set.  Guarding every element in a loop over the container (`for v in &c {
guard.guard(..) }`) or through a helper that takes `(&Guard, &container)` protects the container.
"""
import re

import facts as F
import mir as M
import hazards as H

NONOBJ = -1  # pseudo guard holder: "known not to be an object on this path"
GUARD_TY = re.compile(r"gc::Guard<")
HOLDER_TY = re.compile(r"gc::Guard<|value::Guarded|RuntimeValue")
VALUE_TY = re.compile(r"^(value::JsValue|gc::Gc<value::JsObject>|std::option::Option<value::JsValue>|std::option::Option<gc::Gc<value::JsObject>>)$")
VEC_TY = re.compile(r"^(std::vec::Vec<(value::JsValue|gc::Gc<value::JsObject>|\(value::JsValue, value::JsValue\)|\(value::PropertyKey, value::JsValue\))>|\[value::JsValue; \d+\]|\(value::JsValue, value::JsValue\))$")


def type_has_guard(fx, ti):
    return bool(HOLDER_TY.search(fx.tys(ti)))


def is_value(fx, ti):
    return bool(VALUE_TY.match(fx.tys(ti)))


def is_vec(fx, ti):
    return bool(VEC_TY.match(fx.tys(ti))) or is_container(fx, ti)


_cont = {}
_bearing = {}
DETACHERS = ("std::mem::take", "std::mem::replace", "std::option::Option::<T>::take", "std::vec::Vec::<T, A>::pop",
             "std::vec::Vec::<T, A>::remove", "std::vec::Vec::<T, A>::swap_remove", "std::vec::Vec::<T, A>::drain",
             "std::vec::Vec::<T, A>::split_off", "std::collections::VecDeque::<T, A>::pop_front",
             "std::collections::VecDeque::<T, A>::pop_back", "std::collections::HashMap::<K, V, S, A>::remove",
             "std::collections::HashMap::<K, V, S, A>::drain")
# calls whose result is (a view of / an element of / a copy of) their first argument
DERIVING = ("clone::Clone>::clone", "::cheap_clone", "::clone", "Deref>::deref", "DerefMut>::deref_mut", "::next", "::iter",
            "::iter_mut", "IntoIterator>::into_iter", "::as_ref", "::as_mut", "::unwrap", "::expect", "Index<I>>::index",
            "::get", "::as_slice", "::borrow", "::first", "::last", "::values", "::keys", "::enumerate", "::rev",
            "::peekable", "::as_deref", "::cloned", "::copied", "::into_iter", "Iterator::filter", "Iterator::filter_map", "Iterator::map",
            "Iterator::skip", "Iterator::take", "Iterator::chain", "Iterator::flatten")


def derives(c):
    """the call's result is derived from its first argument (resolved or trait-level name)"""
    return (c.get("d") or "").endswith(DERIVING) or (c.get("u") or "").endswith(DERIVING)


def creates_iter(c):
    return any((c.get(k) or "").endswith(("::iter", "::iter_mut", "::into_iter", "::values", "::drain")) for k in ("d", "u"))


def bearing_adts(fx):
    """local ADTs whose fields (transitively) can hold a Gc handle"""
    k = id(fx)
    if k not in _bearing:
        edges = M.adt_edges(fx)
        b = {"gc::Gc"}
        ch = True
        while ch:
            ch = False
            for p in fx.adts:
                if p not in b and edges.get(p, set()) & b:
                    b.add(p)
                    ch = True
        b -= {x for x in b if x.startswith("gc::") and x != "gc::Gc"}
        _bearing[k] = b | {"value::JsValue", "value::JsMapKey"}
    return _bearing[k]


def is_container(fx, ti):
    """an owned std/indexmap container (or JsMapKey wrapper) that holds JsValues / handles by value"""
    k = (id(fx), ti)
    if k not in _cont:
        t = fx.ty(ti)
        ok = False
        if t["k"] == "adt" and not type_has_guard(fx, ti):
            p = t["p"]
            if p == "value::JsMapKey":
                ok = True
            elif p.startswith(("std::vec::", "std::collections::", "indexmap::", "std::option::Option", "std::iter::", "std::slice::")) or "IntoIter" in p or "Iter" in p:
                m = M.adts_in_type(fx, ti)
                ok = bool(m & bearing_adts(fx)) and "&" not in t["s"][:1]
        _cont[k] = ok
    return _cont[k]


def is_bearing_struct(fx, ti):
    """a local struct/enum that holds Gc handles by value (PromiseHandler, a pending completion ..)"""
    t = fx.ty(ti)
    return t["k"] == "adt" and t["p"] in fx.adts and t["p"] in bearing_adts(fx) and not type_has_guard(fx, ti) \
        and t["p"] not in ("interpreter::Interpreter", "interpreter::bytecode_vm::BytecodeVM", "value::JsObject")


def trackable(fx, ti):
    if is_value(fx, ti) or is_vec(fx, ti) or is_bearing_struct(fx, ti):
        return True
    t = fx.ty(ti)
    return t["k"] == "tuple" and not type_has_guard(fx, ti) and any(trackable(fx, a) for a in t["a"])


def liveness(f):
    """live-in sets per block; drops and storage markers are not uses"""
    n = len(f.blocks)
    use = [set() for _ in range(n)]
    deff = [set() for _ in range(n)]
    for bi, bl in enumerate(f.blocks):
        u, d = use[bi], deff[bi]
        for s in bl["s"]:
            if s[0] != "a":
                continue
            for pl in ([] if s[2][0] == "disc" else F.rvalue_places(s[2])):  # reading a discriminant (drop flags) does not touch the object
                if pl[0] not in d:
                    u.add(pl[0])
                for e in pl[1]:
                    if isinstance(e, list) and e[0] == "i" and e[1] not in d:
                        u.add(e[1])
            if s[1][1]:
                if s[1][0] not in d:
                    u.add(s[1][0])
            else:
                d.add(s[1][0])
        t = bl["t"]
        if t[0] == "call":
            for a in t[2]:
                if a[0] in ("c", "m") and a[1][0] not in d:
                    u.add(a[1][0])
            if "op" in t[1] and t[1]["op"][0] in ("c", "m") and t[1]["op"][1][0] not in d:
                u.add(t[1]["op"][1][0])
            if not t[3][1]:
                d.add(t[3][0])
            elif t[3][0] not in d:
                u.add(t[3][0])
        elif t[0] == "switch" and t[1][0] in ("c", "m"):
            if t[1][1][0] not in d:
                u.add(t[1][1][0])
        elif t[0] == "assert" and t[2][0] in ("c", "m"):
            if t[2][1][0] not in d:
                u.add(t[2][1][0])
        elif t[0] == "ret":
            if 0 not in d:
                u.add(0)
    live_in = [set() for _ in range(n)]
    live_out = [set() for _ in range(n)]
    changed = True
    order = list(range(n))[::-1]
    while changed:
        changed = False
        for b in order:
            out = set()
            for s in f.succ(b):
                out |= live_in[s]
            inn = use[b] | (out - deff[b])
            if out != live_out[b] or inn != live_in[b]:
                live_out[b] = out
                live_in[b] = inn
                changed = True
    return live_in, live_out


def add_protector(prot, x, p):
    prot[x] = {a | {p} for a in prot[x]}


def purge(prot, old):
    for x in list(prot):
        if any(old in a for a in prot[x]):
            prot[x] = {a - {old} for a in prot[x]}


def retarget(prot, old, new):
    for x in list(prot):
        prot[x] = {((a - {old}) | {new}) if old in a else a for a in prot[x]}


class Flow:
    def __init__(self, fx, f, maygc, fnptr_is_gc=True):
        self.fx = fx
        self.f = f
        self.maygc = maygc
        self.reports = []
        self.detached = set()
        self.fnptr_is_gc = fnptr_is_gc
        self.live_in, self.live_out = liveness(f)
        self.refs = {}
        for bi, bl in enumerate(f.blocks):
            for s in bl["s"]:
                if s[0] == "a" and s[2][0] == "ref" and not s[1][1]:
                    self.refs[s[1][0]] = s[2][2]
        # iterator-loop guarding: `for v in &C { .. guard.guard(<derived from v>) .. }` protects C from the
        # point where the iterator is created (block -> [(container local, guard local or None)])
        self.loop_guards = {}
        for bi, t in f.calls():
            name = t[1].get("d") or ""
            gop = vop = None
            if name == "gc::Guard::<T>::guard" and len(t[2]) > 1:
                gop, vop = t[2][0], t[2][1]
            elif t[1].get("local") and t[1].get("d") and t[1]["d"] != f.path and rooting_summary(fx, t[1]["d"]):
                gi, vi = rooting_summary(fx, t[1]["d"])
                if gi - 1 < len(t[2]) and vi - 1 < len(t[2]):
                    gop, vop = t[2][gi - 1], t[2][vi - 1]
            if gop is None or gop[0] not in ("c", "m") or vop[0] not in ("c", "m"):
                continue
            g = self.deref_local(gop[1][0])
            for (cb, cont) in self.derive_chain(vop[1][0])[1]:
                self.loop_guards.setdefault(cb, []).append((cont, g))

        # the same through an iterator chain: `C.iter().filter_map(..).for_each(|o| guard.guard(o.clone()))` - the closure handed to for_each
        # roots what it is given in a guard it captured
        for bi, t in f.calls():
            if not (t[1].get("u") or "").endswith(("Iterator::for_each", "Iterator::try_for_each")) or len(t[2]) < 2:
                continue
            it, cl = t[2][0], t[2][1]
            if it[0] not in ("c", "m") or cl[0] not in ("c", "m"):
                continue
            cd = f.defs().get(cl[1][0], [])
            if len(cd) != 1 or cd[0][1] == "T" or cd[0][2][0] != "agg" or not isinstance(cd[0][2][1], dict) or cd[0][2][1].get("k") != "closure":
                continue
            body = fx.fns.get(cd[0][2][1].get("p"))
            if body is None or not any((t2[1].get("d") or "") == "gc::Guard::<T>::guard" for _, t2 in body.calls()):
                continue
            g = None
            for cap in cd[0][2][2]:
                if cap[0] in ("c", "m") and "Guard<" in fx.tys(f.locals[cap[1][0]]):
                    g = self.deref_local(cap[1][0])
            for (cb, cont) in self.derive_chain(it[1][0])[1]:
                self.loop_guards.setdefault(cb, []).append((cont, g))

    # ---- helpers
    def deref_local(self, local, depth=0):
        """the local a reference local points to (whole local or its field), or None"""
        pl = self.refs.get(local)
        if pl is None:
            d = self.f.defs().get(local, [])
            if depth < 6 and len(d) == 1 and d[0][1] == "T" and (d[0][2][1].get("u") or "").endswith(("Deref::deref", "DerefMut::deref_mut")) \
                    and d[0][2][2] and d[0][2][2][0][0] in ("c", "m") and not d[0][2][2][0][1][1]:
                # `&*vec` as a slice: what the Vec's deref hands out is the Vec's contents
                return self.deref_local(d[0][2][2][0][1][0], depth + 1)
            if depth < 6 and len(d) == 1 and d[0][1] != "T":
                rv = d[0][2]
                op = rv[1] if rv[0] == "use" else (rv[2] if rv[0] == "cast" else None)
                if op and op[0] in ("c", "m") and not op[1][1]:
                    return self.deref_local(op[1][0], depth + 1)
            return None
        if pl[1] in ([], ) or all(isinstance(e, list) and e[0] in ("f", "d") for e in pl[1]):
            return pl[0]
        if pl[1] and pl[1][0] == "*" and depth < 4:
            if 1 <= pl[0] <= self.f.argc:
                return pl[0]  # behind a reference parameter
            return self.deref_local(pl[0], depth + 1)
        return None

    def derive_chain(self, local):
        """(locals the value of `local` was derived from, [(block of an iterator-creating call, container local)]):
        backwards through copies, references, field projections, clones, derefs and iterator steps"""
        f = self.f
        seen = set()
        iters = []
        work = [(local, 0)]
        while work:
            l, dep = work.pop()
            if l in seen or dep > 14:
                continue
            seen.add(l)
            for bi, si, rv in f.defs().get(l, []):
                if si == "T":
                    name = rv[1].get("d") or ""
                    if derives(rv[1]) and rv[2] and rv[2][0][0] in ("c", "m"):
                        a0 = rv[2][0][1][0]
                        work.append((a0, dep + 1))
                        if creates_iter(rv[1]):
                            tgt = self.deref_local(a0)
                            iters.append((bi, tgt if tgt is not None else a0))
                    continue
                if rv[0] == "use" and rv[1][0] in ("c", "m"):
                    work.append((rv[1][1][0], dep + 1))
                elif rv[0] == "ref":
                    work.append((rv[2][0], dep + 1))
                elif rv[0] == "cast" and rv[2][0] in ("c", "m"):
                    work.append((rv[2][1][0], dep + 1))
                elif rv[0] == "agg":
                    for o in rv[2]:
                        if o[0] in ("c", "m"):
                            work.append((o[1][0], dep + 1))
        return seen, iters

    def behind_refmut(self, local, depth=0):
        """True iff the reference in `local` points into a `RefMut` (shared heap state borrowed mutably)"""
        f, fx = self.f, self.fx
        if depth > 10:
            return False
        if "std::cell::RefMut<" in fx.tys(f.locals[local]):
            return True
        for bi, si, rv in f.defs().get(local, []):
            if si == "T":
                name = rv[1].get("d") or ""
                # deref_mut / as_mut / `?` / ok_or_else / an accessor `fn elements_mut(&mut self) -> Option<&mut Vec<..>>`:
                # a call that returns a mutable reference hands on (part of) what its reference arguments point to
                if "&mut " in fx.tys(f.locals[local]) or name.endswith(("DerefMut>::deref_mut", "::as_mut", "Deref>::deref")):
                    for a in rv[2]:
                        if a[0] in ("c", "m") and not a[1][1] and ("&" in fx.tys(f.locals[a[1][0]]) or "RefMut<" in fx.tys(f.locals[a[1][0]])) \
                                and self.behind_refmut(a[1][0], depth + 1):
                            return True
            elif rv[0] == "ref":
                if self.behind_refmut(rv[2][0], depth + 1):
                    return True
            elif rv[0] == "use" and rv[1][0] in ("c", "m"):
                if self.behind_refmut(rv[1][1][0], depth + 1):
                    return True
        return False

    def detached_closure(self):
        """locals whose value derives from a detached one (for the wording of reports)"""
        if not hasattr(self, "_dc"):
            dc = set(self.detached)
            ch = True
            while ch:
                ch = False
                for l, ds in self.f.defs().items():
                    if l in dc:
                        continue
                    for bi, si, rv in ds:
                        srcs = []
                        if si == "T":
                            srcs = [a[1][0] for a in rv[2] if a[0] in ("c", "m")]
                            srcs += [x for x in (self.deref_local(y) for y in srcs) if x is not None]
                        else:
                            srcs = [pl[0] for pl in F.rvalue_places(rv)]
                        if any(x in dc for x in srcs):
                            dc.add(l)
                            ch = True
                            break
            self._dc = dc
        return self._dc

    def is_param_rooted(self, local):
        return 1 <= local <= self.f.argc

    # ---- transfer
    def step_stmt(self, st, s):
        holders, prot = st
        f, fx = self.f, self.fx
        if s[0] == "sd":
            holders.discard(s[1])
            purge(prot, s[1])
            prot.pop(s[1], None)
            return
        if s[0] != "a":
            return
        dst, rv = s[1], s[2]
        if dst[1]:
            # store into a field of a local aggregate: if the stored value is a holder/guard, dst becomes a holder
            for op in F.rvalue_operands(rv):
                if op[0] == "m" and not op[1][1] and op[1][0] in holders and type_has_guard(fx, f.locals[dst[0]]):
                    holders.discard(op[1][0])
                    holders.add(dst[0])
            return
        d = dst[0]
        dty = f.locals[d]
        # the old content of d (a guard, if any) is dropped by the overwrite: nothing is protected by it any more
        if not any(pl[0] == d for pl in F.rvalue_places(rv)):
            purge(prot, d)
        new_holder = False
        new_prot = None
        k = rv[0]
        if k == "use" and rv[1][0] in ("c", "m"):
            src = rv[1][1]
            sl = src[0]
            whole = not src[1]
            if type_has_guard(fx, dty):
                if sl in holders:
                    new_holder = True
                    if rv[1][0] == "m":
                        # moving the guard-bearing part out of sl: sl no longer protects
                        holders.discard(sl)
                        # values extracted earlier from sl are now protected by d
                        retarget(prot, sl, d)
            if trackable(fx, dty):
                if sl in holders and not whole:
                    new_prot = {frozenset([sl])}
                elif sl in prot:
                    new_prot = set(prot[sl])
        elif k == "agg":
            ops = rv[2]
            if type_has_guard(fx, dty):
                for op in ops:
                    if op[0] == "m" and not op[1][1] and op[1][0] in holders:
                        holders.discard(op[1][0])
                        new_holder = True
                        retarget(prot, op[1][0], d)
            if trackable(fx, dty):
                for op in ops:
                    if op[0] in ("c", "m") and not op[1][1] and op[1][0] in prot:
                        new_prot = set(prot[op[1][0]]) if new_prot is None else (new_prot | prot[op[1][0]])
            if new_holder:
                # values moved into a guarded aggregate together with the guard
                for op in ops:
                    if op[0] in ("c", "m") and not op[1][1] and op[1][0] in prot:
                        add_protector(prot, op[1][0], d)
        holders.discard(d)
        prot.pop(d, None)
        if new_holder or type_has_guard(fx, dty):
            # a local of guard-bearing type always counts as a (possibly empty) holder: protection
            # alternatives name it only on the paths where a guard was actually moved into it
            holders.add(d)
        if new_prot is not None:
            prot[d] = new_prot

    def step_term(self, st, bi, t, report):
        holders, prot = st
        f, fx = self.f, self.fx
        if t[0] == "drop":
            if not t[1][1]:
                holders.discard(t[1][0])
                purge(prot, t[1][0])
                prot.pop(t[1][0], None)
            return
        if t[0] != "call":
            return
        c = t[1]
        d = c.get("d")
        args = t[2]
        gc = (d in self.maygc) if d is not None else self.fnptr_is_gc
        if gc and report is not None:
            live_after = self.live_out[bi]
            argl = {a[1][0] for a in args if a[0] in ("c", "m")}
            # values behind reference arguments
            for a in list(argl):
                tl = self.deref_local(a)
                if tl is not None:
                    argl.add(tl)
            # a detached value moved into a local callee that roots that parameter before its first collection point is safe there
            handed_over = set()
            if c.get("local") and d is not None:
                for k, a in enumerate(args):
                    if a[0] == "m" and not a[1][1] and a[1][0] in prot and callee_roots_param(fx, self.maygc, d, k + 1):
                        handed_over.add(a[1][0])
            for x, alts in prot.items():
                if all((a & holders) or (NONOBJ in a) for a in alts):
                    continue
                used_after = x in live_after and x != t[3][0]
                if x in handed_over and not used_after:
                    continue
                if used_after or x in argl:
                    report(bi, t, x, used_after)
        # effects of the call
        moved = [a[1][0] for a in args if a[0] == "m" and not a[1][1]]
        dst = t[3]
        dl = dst[0] if not dst[1] else None
        if dl is not None and dl not in moved:
            purge(prot, dl)
        dty = f.locals[dl] if dl is not None else None
        name = d or ""
        # re-rooting idioms
        if name == "gc::Guard::<T>::guard" and args and args[0][0] in ("c", "m"):
            g = self.deref_local(args[0][1][0])
            gl = g if g in holders else None
            obj = args[1] if len(args) > 1 else None
            src = self.clone_source(obj)
            if src is not None and src in prot:
                if gl is not None:
                    add_protector(prot, src, gl)
                elif g is None or g not in holders:
                    # guard that is not a local holder: a field of self / a parameter -> outlives this function
                    prot.pop(src, None)
        elif c.get("local") and d is not None and rooting_summary(fx, d):
            gi, vi = rooting_summary(fx, d)
            if gi - 1 < len(args) and vi - 1 < len(args) and args[gi - 1][0] in ("c", "m") and args[vi - 1][0] in ("c", "m"):
                g = self.deref_local(args[gi - 1][1][0])
                v = self.deref_local(args[vi - 1][1][0])
                if v is None:
                    v = args[vi - 1][1][0]
                # the value argument may be a view of the tracked local (`&vec` coerced to a slice, a clone ..)
                for v in ([v] if v in prot else [x for x in self.derive_chain(args[vi - 1][1][0])[0] if x in prot]):
                    if g is not None and g in holders:
                        add_protector(prot, v, g)
                    elif g is None or g not in holders:
                        prot.pop(v, None)
        elif name.endswith("Interpreter::guard_value") and len(args) > 1:
            v = self.deref_local(args[1][1][0]) if args[1][0] in ("c", "m") else None
            if dl is not None:
                holders.add(dl)
                if v is not None and v in prot:
                    add_protector(prot, v, dl)
        for m in moved:
            if m in holders:
                holders.discard(m)
                # the guard travels into the callee; if the callee returns a holder it carries on
                if dl is not None and dty is not None and type_has_guard(fx, dty):
                    for x in list(prot):
                        prot[x] = {(a | {dl}) if m in a else a for a in prot[x]}
        if dl is None:
            return
        holders.discard(dl)
        prot.pop(dl, None)
        ret_guard = type_has_guard(fx, dty)
        if ret_guard:
            if c.get("local") or d is None or "ops::Try" in name or "convert::From" in name or "Option" in name or "Result" in name:
                # a holder comes back if a holder went in, or if a local callee produced one
                went_in = any(a[0] in ("c", "m") and not a[1][1] and (a[1][0] in moved) for a in args)
                if (c.get("local") and not name.endswith(("::unguarded", "Guarded::unguarded"))) or d is None:
                    holders.add(dl)
                elif went_in:
                    holders.add(dl)
            if name.endswith("::unguarded"):
                pass
        if trackable(fx, dty):
            # clone / copy of a tracked value
            if (name.endswith("clone::Clone>::clone") or name.endswith("CheapClone>::cheap_clone") or name.endswith("::cheap_clone") or name.endswith("::clone")) and args:
                src = self.deref_local(args[0][1][0]) if args[0][0] in ("c", "m") else None
                if src is not None and src in prot:
                    prot[dl] = set(prot[src])
            elif c.get("local") and args:
                # fresh allocation through a local guard:  create_*(&guard, ..) / guard.alloc()
                for a in args:
                    if a[0] in ("c", "m") and fx.tys(f.locals[a[1][0]]).startswith("&gc::Guard<"):
                        g = self.deref_local(a[1][0])
                        if g is not None and g in holders and fx.tys(dty).startswith(("gc::Gc<", "value::JsValue")):
                            prot[dl] = {frozenset([g])}
        # DETACHED origin: a Gc-bearing value moved out of mutably borrowed shared heap state
        if d is not None and is_detacher(fx, name) and args and args[0][0] in ("c", "m") and trackable(fx, dty) \
                and self.behind_refmut(args[0][1][0]):
            prot[dl] = {frozenset()}
            self.detached.add(dl)
        # a loop that guards every element protects the container from the creation of its iterator on
        for cont, g in self.loop_guards.get(bi, ()):
            if cont in prot:
                if g is not None and g in holders:
                    add_protector(prot, cont, g)
                elif g is None:
                    prot.pop(cont, None)
        # an element / view taken from a tracked container through a reference is as protected as the container
        if dl is not None and dl not in prot and d is not None and not c.get("local") and trackable(fx, dty) and derives(c) \
                and args and args[0][0] in ("c", "m"):
            src = self.deref_local(args[0][1][0])
            if src is not None and src in prot and src != dl:
                prot[dl] = set(prot[src])
        # stores into local containers:  C.push(v) / C.insert(k, v) / C.entry(k) ...  (first argument `&mut C`)
        if d is not None and not c.get("local") and len(args) >= 2 and args[0][0] in ("c", "m") and fx.tys(f.locals[args[0][1][0]]).startswith("&mut "):
            cont = self.deref_local(args[0][1][0])
            if cont is not None and is_vec(fx, f.locals[cont]):
                for a in args[1:]:
                    if a[0] in ("c", "m") and not a[1][1] and a[1][0] in prot:
                        prot[cont] = set(prot[a[1][0]]) if cont not in prot else (prot[cont] | prot[a[1][0]])
                # `entry(k).or_default().push(v)`: the returned handle aliases the container
        # by-value transformations of tracked containers (into_iter, map, collect, unwrap ...)
        if dl is not None and dl not in prot and d is not None and not c.get("local") and (trackable(fx, dty)):
            alts = None
            for a in args:
                if a[0] == "m" and not a[1][1] and a[1][0] in prot:
                    alts = set(prot[a[1][0]]) if alts is None else (alts | prot[a[1][0]])
            if alts is not None:
                prot[dl] = alts

    def nonobject_edges(self, b):
        """(local, {successor blocks}) if block b switches on the discriminant of a tracked JsValue
        local: on every successor other than the `Object` arm the value is not an object"""
        if not hasattr(self, "_sw"):
            self._sw = {}
            for sb, en, place, arms, other, rest in M.enum_switches(self.fx, self.f):
                if en != "value::JsValue" or "Object" not in arms:
                    continue
                base = place[0]
                if place[1] and place[1][0] == "*":
                    base = self.deref_local(place[0])
                elif place[1]:
                    base = None
                if base is None:
                    continue
                succs = {t for v, t in arms.items() if v != "Object"} | ({other} if other != arms["Object"] else set())
                succs.discard(arms["Object"])
                self._sw[sb] = (base, succs)
        return self._sw.get(b)

    def clone_source(self, op):
        """the tracked local an operand was cloned / copied from"""
        if op is None or op[0] not in ("c", "m") or op[1][1]:
            return None
        l = op[1][0]
        seen = 0
        while seen < 6:
            seen += 1
            d = self.f.defs().get(l, [])
            if len(d) != 1:
                return l
            bi, si, rv = d[0]
            if si == "T":
                name = rv[1].get("d", "")
                if name.endswith(("clone::Clone>::clone", "cheap_clone", "::clone")) and rv[2] and rv[2][0][0] in ("c", "m"):
                    src = self.deref_local(rv[2][0][1][0])
                    return src if src is not None else l
                return l
            if rv[0] == "use" and rv[1][0] in ("c", "m") and not rv[1][1][1]:
                l = rv[1][1][0]
                continue
            if rv[0] == "agg":
                for o in rv[2]:
                    if o[0] in ("c", "m") and not o[1][1]:
                        l = o[1][0]
                        break
                else:
                    return l
                continue
            return l
        return l

    def run(self, seed=()):
        f = self.f
        n = len(f.blocks)
        IN = [None] * n
        # `seed`: parameters to treat as detached values (referenced by nothing but the parameter): used to ask whether a callee
        # roots what it is handed before it reaches a collection point
        IN[0] = (frozenset(), tuple(sorted((p, frozenset([frozenset()])) for p in seed)))
        for p in seed:
            self.detached.add(p)
        work = [0]

        def freeze(st):
            return (frozenset(st[0]), tuple(sorted((k, frozenset(v)) for k, v in st[1].items())))

        def thaw(fr):
            return (set(fr[0]), {k: set(v) for k, v in fr[1]})

        def cap(alts):
            if len(alts) <= 6:
                return alts
            inter = None
            for a in alts:
                inter = a if inter is None else (inter & a)
            return frozenset([inter])

        def join(a, b):
            # may-analysis for "unprotected": holders intersect (a guard must be alive on all paths to protect),
            # protectors intersect, tracked set unions
            ha, pa = a
            hb, pb = b
            h = ha & hb
            da, db = dict(pa), dict(pb)
            p = {}
            for k in set(da) | set(db):
                if k in da and k in db:
                    p[k] = cap(da[k] | db[k])
                else:
                    p[k] = da.get(k, db.get(k))
            return (h, tuple(sorted(p.items())))

        OUT = {}
        iters = 0
        while work and iters < 20000:
            iters += 1
            b = work.pop()
            st = thaw(IN[b])
            for s in f.blocks[b]["s"]:
                self.step_stmt(st, s)
            self.step_term(st, b, f.blocks[b]["t"], None)
            o = freeze(st)
            if OUT.get(b) == o:
                continue
            OUT[b] = o
            refine = self.nonobject_edges(b)
            for s in f.succ(b):
                o2 = o
                if refine and s in refine[1]:
                    st2 = thaw(o)
                    if refine[0] in st2[1]:
                        add_protector(st2[1], refine[0], NONOBJ)
                        st2[0].add(NONOBJ)
                        o2 = freeze(st2)
                new = o2 if IN[s] is None else join(IN[s], o2)
                if IN[s] != new:
                    IN[s] = new
                    work.append(s)
        seen = set()

        def rep(bi, t, x, used_after):
            key = (bi, x)
            if key in seen:
                return
            seen.add(key)
            self.reports.append((bi, t, x, used_after))

        for b in range(n):
            if IN[b] is None:
                continue
            st = thaw(IN[b])
            for s in f.blocks[b]["s"]:
                self.step_stmt(st, s)
            self.step_term(st, b, f.blocks[b]["t"], rep)
        return self.reports


_root_summ = {}
_param_root = {}


def callee_roots_param(fx, maygc, path, i):
    """True iff the local function `path` roots its by-value parameter #i (a container / struct of handles) before any call in it that
    may collect: the flow analysis of the callee, started with that parameter unprotected, reports nothing for it"""
    key = (id(fx), path, i)
    if key in _param_root:
        return _param_root[key]
    _param_root[key] = False      # recursion stop
    g = fx.fns.get(path)
    res = False
    if g is not None and not g.closure and 1 <= i <= g.argc and trackable(fx, g.locals[i]) and not fx.tys(g.locals[i]).startswith("&"):
        fl = Flow(fx, g, maygc)
        reports = fl.run(seed=(i,))
        dc = fl.detached_closure()
        res = not [r for r in reports if r[2] == i or r[2] in dc]
    _param_root[key] = res
    return res


def rooting_summary(fx, path):
    """(guard_param_index, value_param_index) if the local function guards (a clone of) one of its
    parameters into a `&Guard` parameter - the `guard_if_object(&guard, &value)` helper shape"""
    key = (id(fx), path)
    if key in _root_summ:
        return _root_summ[key]
    res = None
    _root_summ[key] = None  # recursion stop
    g = fx.fns.get(path)
    if g is not None and not g.closure:
        gp = [i for i in range(1, g.argc + 1) if fx.tys(g.locals[i]).startswith("&gc::Guard<")]
        if gp:
            fl = Flow(fx, g, set())
            for bi, t in g.calls():
                if t[1].get("d") == "gc::Guard::<T>::guard" and len(t[2]) > 1 and t[2][0][0] in ("c", "m"):
                    recv = t[2][0][1][0]
                    r0 = recv
                    for _ in range(4):
                        d0 = M.trace_back(g, r0)
                        if d0 and d0[1] != "T" and d0[2][0] in ("use", "ref"):
                            nxt = d0[2][1][1][0] if d0[2][0] == "use" and d0[2][1][0] in ("c", "m") else (d0[2][2][0] if d0[2][0] == "ref" else None)
                            if nxt is None:
                                break
                            r0 = nxt
                        else:
                            break
                    if r0 in gp:
                        src = fl.clone_source(t[2][1])
                        s0 = src
                        for _ in range(6):
                            if s0 is None or 1 <= s0 <= g.argc:
                                break
                            nxt = fl.deref_local(s0)
                            if nxt is None:
                                d0 = M.trace_back(g, s0)
                                if d0 and d0[1] != "T" and d0[2][0] == "use" and d0[2][1][0] in ("c", "m"):
                                    nxt = d0[2][1][1][0]
                            s0 = nxt
                        if s0 is not None and 1 <= s0 <= g.argc and s0 not in gp:
                            res = (r0, s0)
                        elif res is None and t[2][1][0] in ("c", "m"):
                            # guards something derived from a parameter (elements / fields of `&[T]`, `&Vec<T>`, `&T`)
                            ps = [x for x in fl.derive_chain(t[2][1][1][0])[0] if 1 <= x <= g.argc and x not in gp
                                  and fx.tys(g.locals[x]).startswith("&")]
                            if ps:
                                res = (r0, min(ps))
    _root_summ[key] = res
    return res


_det_summ = {}


def detaching_fns(fx):
    """local functions `fn(&mut self-like, ..) -> T` whose result is moved out of what their first parameter
    points to (it derives from a DETACHER - or from another such function - applied to a place behind
    parameter 1): calling one on mutably borrowed heap state detaches the result like `mem::take` does"""
    k = id(fx)
    if k in _det_summ:
        return _det_summ[k]
    res = set()
    _det_summ[k] = res
    cands = [g for g in fx.fns.values() if not g.closure and not g.derived and g.argc >= 1 and fx.tys(g.locals[1]).startswith("&mut ")
             and trackable(fx, g.locals[0]) and not g.file.startswith("src/gc.rs")]
    flows = {}
    ch = True
    while ch:
        ch = False
        for g in cands:
            if g.path in res:
                continue
            fl = flows.get(g.path)
            if fl is None:
                fl = flows[g.path] = Flow(fx, g, set())
            ret = fl.derive_chain(0)[0]
            for bi, t in g.calls():
                name = t[1].get("d") or ""
                if not (name.startswith(DETACHERS) or name in res) or not t[2] or t[2][0][0] not in ("c", "m") or t[3][1]:
                    continue
                if t[3][0] in ret and 1 in fl.derive_chain(t[2][0][1][0])[0]:
                    res.add(g.path)
                    ch = True
                    break
    return res


def is_detacher(fx, name):
    return name.startswith(DETACHERS) or name in detaching_fns(fx)


def analyse(fx, scope=None):
    maygc = H.may_gc(fx)
    out = []
    nfn = 0
    for f in fx.fns.values():
        if f.derived:
            continue
        if scope and not f.file.startswith(scope):
            continue
        if not any(type_has_guard(fx, t) for t in f.locals) and not any(is_detacher(fx, t[1].get("d") or "") for _, t in f.calls()):
            continue
        nfn += 1
        fl = Flow(fx, f, maygc)
        for (bi, t, x, used_after) in fl.run():
            out.append((f, bi, t, x, used_after, x in fl.detached_closure()))
        for bi, t in f.calls():
            if is_detacher(fx, t[1].get("d") or "") and t[2] and t[2][0][0] in ("c", "m") and not t[3][1] \
                    and trackable(fx, f.locals[t[3][0]]) and fl.behind_refmut(t[2][0][1][0]):
                DETACH_SITES.append((f, bi, t))
    return nfn, out


DETACH_SITES = []
