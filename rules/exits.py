"""Exit-path pairing (T-EXIT): after an opener every path to a function return passes a closer.
Events are discovered from resolved callees and field projections, never from text."""
import facts as F
import mir as M

INTERP = "interpreter::Interpreter"


def field_of_ref(f, local, _depth=0):
    """(adt, variant, field) of the place a reference local was borrowed from"""
    d = f.defs().get(local, [])
    if len(d) == 1 and d[0][1] != "T" and d[0][2][0] == "ref":
        pl = d[0][2][2]
        fl = F.place_fields(pl)
        if fl:
            return fl[-1]
        if pl[1] == ["*"] and _depth < 4:
            return field_of_ref(f, pl[0], _depth + 1)  # reborrow `&mut *r`
        return None
    if len(d) == 1 and d[0][1] != "T" and d[0][2][0] == "use" and d[0][2][1][0] in ("c", "m") and not d[0][2][1][1][1] and _depth < 4:
        return field_of_ref(f, d[0][2][1][1][0], _depth + 1)
    return None


def events(fx, f):
    """list of (block, kind, role, detail, span): kind in G (env guard stack), S (call stack);
    role in open/close"""
    out = []
    for bi, t in f.calls():
        d = t[1].get("d", "")
        sp = t[6]
        if d.endswith("Interpreter::push_env_guard"):
            out.append((bi, "G", "open", "push_env_guard", sp))
        elif d.endswith("Interpreter::pop_env_guard"):
            out.append((bi, "G", "close", "pop_env_guard", sp))
        elif d.endswith("Interpreter::push_scope"):
            out.append((bi, "G", "open", "push_scope", sp))
        elif d.endswith("Interpreter::pop_scope"):
            out.append((bi, "G", "close", "pop_scope", sp))
        elif d in ("std::vec::Vec::<T, A>::push", "std::vec::Vec::<T, A>::pop", "std::vec::Vec::<T, A>::truncate",
                   "std::vec::Vec::<T, A>::clear") and t[2] and t[2][0][0] in ("c", "m"):
            fl = field_of_ref(f, t[2][0][1][0])
            if fl and fl[0] == INTERP and fl[2] in ("call_stack", "env_guards"):
                kind = "S" if fl[2] == "call_stack" else "G"
                role = "open" if d.endswith("::push") else "close"
                out.append((bi, kind, role, "%s.%s" % (fl[2], d.split("::")[-1]), sp))
    return out


def escapes(f, start_block, closer_blocks):
    """first `ret` block reachable from the successors of start_block without passing a closer block"""
    seen = set()
    work = list(f.succ(start_block))
    while work:
        b = work.pop()
        if b in seen:
            continue
        seen.add(b)
        if b in closer_blocks:
            continue
        t = f.blocks[b]["t"]
        if t[0] == "ret":
            return b
        work.extend(f.succ(b))
    return None


def exit_description(f, ret_block):
    """describe the offending exit: the nearest preceding `?` / return statement span"""
    t = f.blocks[ret_block]["t"]
    return F.short_span(t[1]) if len(t) > 1 else "?"


def path_witness(f, start_block, closer_blocks, limit=12):
    """a short block path opener -> ret avoiding closers, as spans of the calls on the way"""
    prev = {}
    work = [(s, start_block) for s in f.succ(start_block)]
    seen = set()
    goal = None
    i = 0
    while i < len(work):
        b, p = work[i]
        i += 1
        if b in seen:
            continue
        seen.add(b)
        prev[b] = p
        if b in closer_blocks:
            continue
        if f.blocks[b]["t"][0] == "ret":
            goal = b
            break
        for s in f.succ(b):
            work.append((s, b))
    if goal is None:
        return []
    path = []
    b = goal
    while b != start_block:
        path.append(b)
        b = prev[b]
    path.reverse()
    out = []
    for b in path:
        t = f.blocks[b]["t"]
        if t[0] == "call":
            d = t[1].get("d", "<fn pointer>")
            if "ops::Try" in d or "FromResidual" in d:
                out.append("`?` at %s" % F.short_span(t[6]))
            elif t[1].get("local"):
                out.append("%s at %s" % (d.split("::")[-1], F.short_span(t[6])))
    return out[-limit:]
