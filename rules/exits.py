"""Exit-path pairing (T-EXIT): after an opener every path to a function return passes a closer.
Events are discovered from resolved callees and field projections, never from text."""
import facts as F
import mir as M

INTERP = "interpreter::Interpreter"


def field_of_ref(f, local, _depth=0):
    """(adt, variant, field) of the place a reference local was borrowed from"""
    d = f.defs().get(local, [])
    if len(d) == 1 and d[0][1] != "T" and d[0][2][0] == "ref":
        pl = d[0][2][2]
        fl = F.place_fields(pl)
        if fl:
            return fl[-1]
        if pl[1] == ["*"] and _depth < 4:
            return field_of_ref(f, pl[0], _depth + 1)  # reborrow `&mut *r`
        return None
    if len(d) == 1 and d[0][1] != "T" and d[0][2][0] == "use" and d[0][2][1][0] in ("c", "m") and not d[0][2][1][1][1] and _depth < 4:
        return field_of_ref(f, d[0][2][1][1][0], _depth + 1)
    return None


_closing_helpers = {}


def closing_helpers(fx):
    """{path: set(kinds)} functions that only close a root stack and are called only by functions that opened it: a clean-up extracted from its
    opener (`finish_generator_run(.., guard_depth)`); a call of one is a close event of its caller"""
    if id(fx) in _closing_helpers:
        return _closing_helpers[id(fx)]
    _closing_helpers[id(fx)] = {}
    raw = {p: _raw_events(fx, g) for p, g in fx.fns.items() if not g.derived}
    out = {}
    for p, ev in raw.items():
        g = fx.fns[p]
        if g.closure or not ev:
            continue
        for kind in ("G", "S"):
            if any(e[1] == kind and e[2] == "close" for e in ev) and not any(e[1] == kind and e[2] == "open" for e in ev):
                callers = [q for q, h in fx.fns.items() if not h.derived and any(t[1].get("d") == p for _, t in h.calls())]
                if callers and all(any(e[1] == kind and e[2] == "open" for e in raw.get((fx.fns[q].parent if fx.fns[q].closure else q), [])) for q in callers):
                    bulk = all(e[3].endswith((".truncate", ".clear")) for e in ev if e[1] == kind and e[2] == "close")
                    out.setdefault(p, {})[kind] = ".truncate" if bulk else ""
    _closing_helpers[id(fx)] = out
    return out


def events(fx, f):
    out = _raw_events(fx, f)
    ch = closing_helpers(fx)
    if ch:
        for bi, t in f.calls():
            d = t[1].get("d")
            if d in ch and d != f.path:
                for kind, suffix in ch[d].items():
                    out.append((bi, kind, "close", d.split("::")[-1] + suffix, t[6]))
    return out


def _raw_events(fx, f):
    """list of (block, kind, role, detail, span): kind in G (env guard stack), S (call stack);
    role in open/close"""
    out = []
    for bi, t in f.calls():
        d = t[1].get("d", "")
        sp = t[6]
        if d.endswith("Interpreter::push_env_guard"):
            out.append((bi, "G", "open", "push_env_guard", sp))
        elif d.endswith("Interpreter::pop_env_guard"):
            out.append((bi, "G", "close", "pop_env_guard", sp))
        elif d.endswith("Interpreter::push_scope"):
            out.append((bi, "G", "open", "push_scope", sp))
        elif d.endswith("Interpreter::pop_scope"):
            out.append((bi, "G", "close", "pop_scope", sp))
        elif d in ("std::vec::Vec::<T, A>::push", "std::vec::Vec::<T, A>::pop", "std::vec::Vec::<T, A>::truncate",
                   "std::vec::Vec::<T, A>::clear") and t[2] and t[2][0][0] in ("c", "m"):
            fl = field_of_ref(f, t[2][0][1][0])
            if fl and fl[0] == INTERP and fl[2] in ("call_stack", "env_guards"):
                kind = "S" if fl[2] == "call_stack" else "G"
                role = "open" if d.endswith("::push") else "close"
                out.append((bi, kind, role, "%s.%s" % (fl[2], d.split("::")[-1]), sp))
    return out


def escapes(f, start_block, closer_blocks):
    """first `ret` block reachable from the successors of start_block without passing a closer block"""
    seen = set()
    work = list(f.succ(start_block))
    while work:
        b = work.pop()
        if b in seen:
            continue
        seen.add(b)
        if b in closer_blocks:
            continue
        t = f.blocks[b]["t"]
        if t[0] == "ret":
            return b
        work.extend(f.succ(b))
    return None


def exit_description(f, ret_block):
    """describe the offending exit: the nearest preceding `?` / return statement span"""
    t = f.blocks[ret_block]["t"]
    return F.short_span(t[1]) if len(t) > 1 else "?"


def path_witness(f, start_block, closer_blocks, limit=12):
    """a short block path opener -> ret avoiding closers, as spans of the calls on the way"""
    prev = {}
    work = [(s, start_block) for s in f.succ(start_block)]
    seen = set()
    goal = None
    i = 0
    while i < len(work):
        b, p = work[i]
        i += 1
        if b in seen:
            continue
        seen.add(b)
        prev[b] = p
        if b in closer_blocks:
            continue
        if f.blocks[b]["t"][0] == "ret":
            goal = b
            break
        for s in f.succ(b):
            work.append((s, b))
    if goal is None:
        return []
    path = []
    b = goal
    while b != start_block:
        path.append(b)
        b = prev[b]
    path.reverse()
    out = []
    for b in path:
        t = f.blocks[b]["t"]
        if t[0] == "call":
            d = t[1].get("d", "<fn pointer>")
            if "ops::Try" in d or "FromResidual" in d:
                out.append("`?` at %s" % F.short_span(t[6]))
            elif t[1].get("local"):
                out.append("%s at %s" % (d.split("::")[-1], F.short_span(t[6])))
    return out[-limit:]


_some_summary = {}


def returns_some(fx, g, depth=0):
    """components of g's return value that are `Some` on every return path: {'self'} for an Option, {0, 1, ..} for a tuple of Options"""
    key = (id(fx), g.path)
    if key in _some_summary:
        return _some_summary[key]
    _some_summary[key] = set()      # recursion guard
    out = None
    for bi, bl in enumerate(g.blocks):
        for si, s in enumerate(bl["s"]):
            if s[0] != "a" or s[1][0] != 0 or s[1][1]:
                continue
            known = some_facts_at(fx, g, bi, upto=si) if depth < 2 else frozenset()
            comps = set()
            rv = s[2]
            if rv[0] == "agg" and rv[1].get("k") == "adt" and rv[1].get("v") == "Some":
                comps.add("self")
            elif rv[0] == "agg" and rv[1].get("k") == "tuple":
                for i, o in enumerate(rv[2]):
                    if o[0] in ("c", "m") and not o[1][1] and o[1][0] in known:
                        comps.add(i)
            elif rv[0] == "use" and rv[1][0] in ("c", "m") and not rv[1][1][1] and rv[1][1][0] in known:
                comps.add("self")
            out = comps if out is None else (out & comps)
    _some_summary[key] = out or set()
    return _some_summary[key]


def _transfer(fx, f, b, known, upto=None):
    k = set(known)
    stmts = f.blocks[b]["s"] if upto is None else f.blocks[b]["s"][:upto]
    for s in stmts:
        if s[0] != "a" or s[1][1]:
            continue
        d = s[1][0]
        rv = s[2]
        k.discard(d)
        k = {x for x in k if not (isinstance(x, tuple) and x[0] == d)}
        if rv[0] == "agg" and rv[1].get("k") == "adt" and rv[1].get("v") == "Some":
            k.add(d)
        elif rv[0] == "agg" and rv[1].get("k") == "tuple":
            for i, o in enumerate(rv[2]):
                if o[0] in ("c", "m") and not o[1][1] and o[1][0] in k:
                    k.add((d, i))
        elif rv[0] == "use" and rv[1][0] in ("c", "m"):
            src = rv[1][1]
            if not src[1] and src[0] in k:
                k.add(d)
            elif len(src[1]) == 1 and isinstance(src[1][0], list) and src[1][0][0] == "f" and (src[0], src[1][0][1]) in k:
                k.add(d)
    if upto is None:
        t = f.blocks[b]["t"]
        if t[0] == "call" and not t[3][1]:
            k.discard(t[3][0])
            k = {x for x in k if not (isinstance(x, tuple) and x[0] == t[3][0])}
            g = fx.fns.get(t[1].get("d")) if t[1].get("local") else None
            if g is not None and not g.closure and g.path != f.path:
                for c in returns_some(fx, g):
                    k.add(t[3][0] if c == "self" else (t[3][0], c))
    return frozenset(k)


def escapes_some_sensitive(fx, f, start_block, closer_blocks, assume=()):
    """like `escapes`, but path sensitive for Option locals known to be `Some` along the path
    (`let (saved, m) = if c { install; (Some(a), Some(b)) } else { (None, None) }` followed by
    `if let Some(s) = saved { restore }`): the None arm of a match on a known-Some local is not taken"""
    import mir as M
    switches = {}
    for sb, en, place, arms, other, rest in M.enum_switches(fx, f):
        if en.endswith("option::Option") and not place[1] and "Some" in arms:
            switches[sb] = (place[0], arms["Some"])
        elif en.endswith("option::Option") and not place[1] and "None" in arms and "Some" in rest:
            switches[sb] = (place[0], other)

    def transfer(b, known):
        return _transfer(fx, f, b, known)

    seen = set()
    # facts established inside the start block itself (the install and the tuple are often one block)
    k0 = frozenset(transfer(start_block, frozenset()) | set(assume))
    work = [(s, k0) for s in f.succ(start_block)]
    while work:
        b, known = work.pop()
        if (b, known) in seen:
            continue
        seen.add((b, known))
        if b in closer_blocks:
            continue
        t = f.blocks[b]["t"]
        if t[0] == "ret":
            return b
        k2 = transfer(b, known)
        if b in switches and switches[b][0] in k2:
            work.append((switches[b][1], k2))
            continue
        for s in f.succ(b):
            work.append((s, k2))
    return None


def some_facts_at(fx, f, block, upto=None):
    """Option locals (and tuple components) that hold `Some` on every path from the function entry to `block`
    (forward must-analysis; calls of local functions contribute what they always return as `Some`)"""
    def transfer(b, known):
        return _transfer(fx, f, b, known)
    n = len(f.blocks)
    IN = [None] * n
    IN[0] = frozenset()
    work = [0]
    while work:
        b = work.pop()
        out = transfer(b, IN[b])
        for s in f.succ(b):
            new = out if IN[s] is None else (IN[s] & out)
            if IN[s] is None or new != IN[s]:
                IN[s] = new
                work.append(s)
    base = IN[block] or frozenset()
    return _transfer(fx, f, block, base, upto=upto) if upto is not None else base
