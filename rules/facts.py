"""Fact production and loading for the tsrun static checks.

`ensure_facts(cfg)` runs the rustc_private driver (/verif/driver) over /repo's
*current working tree* with the real build flags and returns the path of the fact
file.  Facts are cached by a content hash of everything the build reads, so all
checks of one tree share one compiler run; a changed tree is always re-analysed.
Nothing in here executes tsrun code.
"""
import fcntl
import hashlib
import json
import os
import shutil
import subprocess
import sys
import time
import uuid

VERIF = os.path.dirname(os.path.dirname(os.path.abspath(__file__)))
REPO = os.environ.get("TSRUN_REPO", "/repo")
CACHE = os.path.join(VERIF, ".cache")
DRIVER_DIR = os.path.join(VERIF, "driver")
DRIVER = os.path.join(DRIVER_DIR, "target", "release", "tsrun-facts")

# mir-opt-level=0 keeps the MIR close to source; overflow checks stay on so that every
# narrow arithmetic site shows as an Assert terminator; debug assertions are off so that the
# compiler-inserted pointer alignment/null check transmutes do not pollute the cast inventory.
RUSTFLAGS = "-Zmir-opt-level=0 -Awarnings -C debug-assertions=off -C overflow-checks=on"

CONFIGS = {
    # name: (cargo args, fact file)
    "A": (["--lib", "--features", "c-api"], "facts-tsrun-lib.jsonl"),
    "B": (["--lib"], "facts-tsrun-lib.jsonl"),
    "C": (["--bin", "tsrun"], "facts-tsrun-bin.jsonl"),
}


class BuildFailed(Exception):
    pass


def _sysroot():
    return subprocess.check_output(["rustc", "+nightly", "--print", "sysroot"], text=True).strip()


def tree_hash():
    h = hashlib.sha256()
    paths = []
    for root, dirs, files in os.walk(os.path.join(REPO, "src")):
        dirs.sort()
        for f in sorted(files):
            paths.append(os.path.join(root, f))
    for extra in ("Cargo.toml", "Cargo.lock", "clippy.toml", "build.rs", "examples/c-embedding/tsrun.h"):
        p = os.path.join(REPO, extra)
        if os.path.exists(p):
            paths.append(p)
    for p in paths:
        h.update(os.path.relpath(p, REPO).encode())
        h.update(b"\0")
        with open(p, "rb") as fh:
            h.update(fh.read())
        h.update(b"\0")
    # the driver's own source: a changed driver must not reuse old facts
    with open(os.path.join(DRIVER_DIR, "src", "main.rs"), "rb") as fh:
        h.update(fh.read())
    h.update(RUSTFLAGS.encode())
    return h.hexdigest()[:24]


def ensure_driver():
    src = os.path.join(DRIVER_DIR, "src", "main.rs")
    if os.path.exists(DRIVER) and os.path.getmtime(DRIVER) >= os.path.getmtime(src):
        return
    env = dict(os.environ, CARGO_NET_OFFLINE="true")
    r = subprocess.run(["cargo", "+nightly", "build", "--release", "--offline"], cwd=DRIVER_DIR, env=env,
                       stdout=subprocess.PIPE, stderr=subprocess.STDOUT, text=True)
    if r.returncode != 0:
        sys.stderr.write(r.stdout[-4000:])
        raise BuildFailed("driver build failed")


def _complete(path):
    """A fact file is complete iff its last line is the end marker."""
    try:
        with open(path, "rb") as fh:
            fh.seek(0, 2)
            size = fh.tell()
            fh.seek(max(0, size - 400))
            tail = fh.read().decode("utf-8", "replace").strip().splitlines()
        return bool(tail) and '"k":"end"' in tail[-1]
    except OSError:
        return False


def ensure_facts(cfg="A"):
    args, fname = CONFIGS[cfg]
    os.makedirs(CACHE, exist_ok=True)
    lock = open(os.path.join(CACHE, "lock"), "w")
    fcntl.flock(lock, fcntl.LOCK_EX)
    try:
        ensure_driver()
        th = tree_hash()
        outdir = os.path.join(CACHE, "facts", th, cfg)
        out = os.path.join(outdir, fname)
        if _complete(out):
            return out, th, True
        os.makedirs(outdir, exist_ok=True)
        tgt = os.path.join(CACHE, "tgt-" + cfg)
        # cargo's freshness cache would silently skip the wrapper: drop tsrun's fingerprints
        fp = os.path.join(tgt, "debug", ".fingerprint")
        if os.path.isdir(fp):
            for d in os.listdir(fp):
                if d.startswith("tsrun-"):
                    shutil.rmtree(os.path.join(fp, d), ignore_errors=True)
        nonce = uuid.uuid4().hex
        env = dict(os.environ)
        env.update({
            "LD_LIBRARY_PATH": os.path.join(_sysroot(), "lib"),
            "RUSTFLAGS": RUSTFLAGS,
            "RUSTC_WORKSPACE_WRAPPER": DRIVER,
            "TSRUN_FACTS_OUT": outdir,
            "TSRUN_FACTS_NONCE": nonce,
            "CARGO_TARGET_DIR": tgt,
            "CARGO_INCREMENTAL": "0",
            "CARGO_NET_OFFLINE": "true",
        })
        env.pop("RUSTC_WRAPPER", None)
        t0 = time.time()
        r = subprocess.run(["cargo", "+nightly", "check", "--offline"] + args, cwd=REPO, env=env,
                           stdout=subprocess.PIPE, stderr=subprocess.STDOUT, text=True)
        if r.returncode != 0:
            sys.stderr.write(r.stdout[-6000:])
            shutil.rmtree(outdir, ignore_errors=True)
            raise BuildFailed("cargo check failed for configuration %s" % cfg)
        if not _complete(out):
            raise BuildFailed("driver wrote no complete fact file for configuration %s" % cfg)
        with open(out, "rb") as fh:
            first = fh.readline().decode()
        if nonce not in first:
            raise BuildFailed("fact file was not written by this run (stale)")
        sys.stderr.write("[facts] configuration %s analysed in %.1fs -> %s\n" % (cfg, time.time() - t0, out))
        _prune(os.path.join(CACHE, "facts"), keep=8, protect=th)
        return out, th, False
    finally:
        fcntl.flock(lock, fcntl.LOCK_UN)
        lock.close()


def _prune(root, keep, protect):
    try:
        ents = [(os.path.getmtime(os.path.join(root, d)), d) for d in os.listdir(root)]
    except OSError:
        return
    ents.sort(reverse=True)
    for _, d in ents[keep:]:
        if d != protect:
            shutil.rmtree(os.path.join(root, d), ignore_errors=True)


# --------------------------------------------------------------------------------------
# Loading and program model


class Fn:
    __slots__ = ("path", "parent", "closure", "derived", "impl_trait", "self_ty", "abi", "vis", "no_mangle",
                 "unsafe", "sig", "span", "body_span", "argc", "locals", "vars", "blocks", "_succ", "_pred",
                 "_idom", "file", "line", "endline", "_defs")

    def __init__(self, r):
        self.path = r["path"]
        self.parent = r["parent"]
        self.closure = r["closure"]
        self.derived = r["derived"]
        self.impl_trait = r["impl_trait"]
        self.self_ty = r["self_ty"]
        self.abi = r["abi"]
        self.vis = r["vis"]
        self.no_mangle = r["no_mangle"]
        self.unsafe = r["unsafe"]
        self.sig = r["sig"]
        self.span = r["span"]
        self.body_span = r["body_span"]
        self.argc = r["argc"]
        self.locals = r["locals"]
        self.vars = r["vars"]
        self.blocks = r["blocks"]
        self._succ = None
        self._pred = None
        self._idom = None
        self._defs = None
        f, l, _ = parse_span(self.body_span)
        self.file = f
        self.line = l
        self.endline = parse_span(self.body_span)[2]

    # ---- CFG
    def term(self, b):
        return self.blocks[b]["t"]

    def succ(self, b, cleanup=False):
        """Successors of block b.  Unwind edges are included only with cleanup=True."""
        if self._succ is None:
            self._succ = [term_succ(bl["t"]) for bl in self.blocks]
        n, u = self._succ[b]
        return n + u if cleanup else n

    def preds(self):
        if self._pred is None:
            p = [[] for _ in self.blocks]
            for b in range(len(self.blocks)):
                for s in self.succ(b):
                    p[s].append(b)
            self._pred = p
        return self._pred

    def idom(self):
        """Immediate dominators over non-unwind edges (Cooper-Harvey-Kennedy)."""
        if self._idom is not None:
            return self._idom
        n = len(self.blocks)
        order = []
        seen = [False] * n
        stack = [(0, iter(self.succ(0)))]
        seen[0] = True
        while stack:
            b, it = stack[-1]
            adv = False
            for s in it:
                if not seen[s]:
                    seen[s] = True
                    stack.append((s, iter(self.succ(s))))
                    adv = True
                    break
            if not adv:
                order.append(b)
                stack.pop()
        rpo = order[::-1]
        num = {b: i for i, b in enumerate(rpo)}
        idom = [None] * n
        idom[0] = 0
        preds = self.preds()
        changed = True
        while changed:
            changed = False
            for b in rpo[1:]:
                new = None
                for p in preds[b]:
                    if idom[p] is None:
                        continue
                    if new is None:
                        new = p
                    else:
                        a, c = p, new
                        while a != c:
                            while num[a] > num[c]:
                                a = idom[a]
                            while num[c] > num[a]:
                                c = idom[c]
                        new = a
                if new is not None and idom[b] != new:
                    idom[b] = new
                    changed = True
        self._idom = idom
        return idom

    def dominates(self, a, b):
        idom = self.idom()
        if idom[b] is None:
            return False
        while True:
            if a == b:
                return True
            if b == 0:
                return False
            b = idom[b]
            if b is None:
                return False

    def reachable_from(self, start, stop=None, cleanup=False):
        """Blocks reachable from the successors of `start` (exclusive) without entering blocks in `stop`."""
        seen = set()
        work = list(self.succ(start, cleanup))
        while work:
            b = work.pop()
            if b in seen or (stop and b in stop):
                continue
            seen.add(b)
            work.extend(self.succ(b, cleanup))
        return seen

    def calls(self):
        for bi, bl in enumerate(self.blocks):
            t = bl["t"]
            if t[0] == "call":
                yield bi, t

    def defs(self):
        """local -> list of (block, stmt index or 'T', rvalue-or-call) for whole-local assignments."""
        if self._defs is None:
            d = {}
            for bi, bl in enumerate(self.blocks):
                for si, s in enumerate(bl["s"]):
                    if s[0] == "a" and not s[1][1]:
                        d.setdefault(s[1][0], []).append((bi, si, s[2]))
                t = bl["t"]
                if t[0] == "call" and not t[3][1]:
                    d.setdefault(t[3][0], []).append((bi, "T", t))
            self._defs = d
        return self._defs

    def var_name(self, local):
        for n, p in self.vars:
            if p[0] == local and not p[1]:
                return n
        return None


def term_succ(t):
    k = t[0]
    if k == "goto":
        return [t[1]], []
    if k == "switch":
        s = [b for _, b in t[2]] + [t[3]]
        return list(dict.fromkeys(s)), []
    if k == "drop":
        return [t[2]], ([t[3]] if t[3] >= 0 else [])
    if k == "call":
        return ([t[4]] if t[4] >= 0 else []), ([t[5]] if t[5] >= 0 else [])
    if k == "assert":
        return [t[4]], ([t[5]] if t[5] >= 0 else [])
    return [], []


def parse_span(s):
    """'file:line:col-line:col[!]' -> (file, line, endline)"""
    exp = s.endswith("!")
    if exp:
        s = s[:-1]
    try:
        left, right = s.rsplit("-", 1)
        f, l, c = left.rsplit(":", 2)
        el, ec = right.split(":")
        return f, int(l), int(el)
    except ValueError:
        return s, 0, 0


def short_span(s):
    f, l, _ = parse_span(s)
    return "%s:%d" % (f, l)


def _records(path):
    """parsed records of a fact file; a marshal image next to it avoids re-parsing 23 MB of JSON"""
    import gc
    import marshal
    gc.disable()  # millions of small containers: the cyclic collector only slows the load down
    mp = path + ".marshal"
    try:
        if os.path.getmtime(mp) >= os.path.getmtime(path):
            with open(mp, "rb") as fh:
                return marshal.load(fh)
    except (OSError, EOFError, ValueError):
        pass
    recs = []
    with open(path) as fh:
        for line in fh:
            recs.append(json.loads(line))
    try:
        tmp = mp + ".%d" % os.getpid()
        with open(tmp, "wb") as fh:
            marshal.dump(recs, fh)
        os.replace(tmp, mp)
    except OSError:
        pass
    return recs


class Facts:
    def __init__(self, path):
        self.path = path
        self.fns = {}
        self.adts = {}
        self.statics = []
        self.consts = {}
        self.impls = []
        self.types = []
        self.meta = None
        dup = 0
        for r in _records(path):
            if True:
                k = r["k"]
                if k == "fn":
                    f = Fn(r)
                    if f.path in self.fns:
                        dup += 1
                        f.path = f.path + "#" + f.span
                    self.fns[f.path] = f
                elif k == "adt":
                    self.adts[r["path"]] = r
                elif k == "static":
                    self.statics.append(r)
                elif k == "const":
                    self.consts[r["path"]] = r
                elif k == "impl":
                    self.impls.append(r)
                elif k == "types":
                    self.types = r["rows"]
                elif k == "meta":
                    self.meta = r
        self.dup_paths = dup
        self._callers = None
        self._callees = None
        self._children = None

    def ty(self, i):
        return self.types[i]

    def tys(self, i):
        return self.types[i]["s"] if i is not None else "?"

    def local_ty(self, fn, local):
        return self.types[fn.locals[local]]

    def fn_by_suffix(self, suffix):
        return [f for p, f in self.fns.items() if p.endswith(suffix)]

    def one(self, suffix):
        m = self.fn_by_suffix(suffix)
        if len(m) != 1:
            raise AnchorMissing("expected exactly one function matching *%s, found %d" % (suffix, len(m)))
        return m[0]

    def children(self):
        """parent fn path -> closures defined (transitively) inside it"""
        if self._children is None:
            c = {}
            for f in self.fns.values():
                if f.closure:
                    c.setdefault(f.parent, []).append(f)
            self._children = c
        return self._children

    def body_group(self, fn):
        """the function together with the closures defined in it"""
        if fn.closure:
            return [fn]
        return [fn] + self.children().get(fn.path, [])

    def callgraph(self, merge_closures=True):
        """callee sets keyed by (parent) fn path.  Returns (callees, callers).
        Edges: resolved direct calls + function items whose address is taken (reify) are
        recorded separately in self.reified."""
        if self._callees is not None:
            return self._callees, self._callers
        callees = {}
        callers = {}
        for f in self.fns.values():
            src = f.parent if merge_closures else f.path
            cs = callees.setdefault(src, set())
            for bi, t in f.calls():
                c = t[1]
                if "d" in c:
                    cs.add(c["d"])
            # fn items used as values (passed as callbacks / reified to fn pointers)
            for bl in f.blocks:
                for s in bl["s"]:
                    if s[0] == "a":
                        for op in rvalue_operands(s[2]):
                            if op[0] == "k" and isinstance(op[2], dict) and "fn" in op[2]:
                                cs.add(op[2]["fn"])
                t = bl["t"]
                if t[0] == "call":
                    for op in t[2]:
                        if op[0] == "k" and isinstance(op[2], dict) and "fn" in op[2]:
                            cs.add(op[2]["fn"])
        for s, cs in callees.items():
            for c in cs:
                callers.setdefault(c, set()).add(s)
        self._callees, self._callers = callees, callers
        return callees, callers


class AnchorMissing(Exception):
    pass


def rvalue_operands(rv):
    k = rv[0]
    if k in ("use", "repeat"):
        return [rv[1]]
    if k == "cast":
        return [rv[2]]
    if k == "bin":
        return [rv[2], rv[3]]
    if k == "un":
        return [rv[2]]
    if k == "agg":
        return rv[2]
    return []


def rvalue_places(rv):
    """places read by an rvalue (including borrowed ones)"""
    out = []
    k = rv[0]
    if k in ("ref", "rawptr"):
        out.append(rv[2])
    elif k == "disc":
        out.append(rv[1])
    for op in rvalue_operands(rv):
        if op[0] in ("c", "m"):
            out.append(op[1])
    return out


def place_fields(place):
    """[(adt, variant, field)] for every field projection of a place"""
    return [(e[3], e[4], e[2]) for e in place[1] if isinstance(e, list) and e[0] == "f"]


_loaded = {}
CFG_OVERRIDE = {}   # e.g. {"A": "B"}: the thorough tier re-runs the rules on another configuration


def load(cfg="A"):
    cfg = CFG_OVERRIDE.get(cfg, cfg)
    if cfg in _loaded:
        return _loaded[cfg]
    path, th, cached = ensure_facts(cfg)
    fx = Facts(path)
    fx.tree_hash = th
    fx.cached = cached
    fx.cfg = cfg
    _loaded[cfg] = fx
    return fx


# --------------------------------------------------------------------------------------
# Positive-control fixture crate (/verif/witness/fixtures/ctl): analysed by the same driver.

FIXTURE_DIR = os.path.join(VERIF, "witness", "fixtures", "ctl")


def load_fixture():
    if "ctl" in _loaded:
        return _loaded["ctl"]
    os.makedirs(CACHE, exist_ok=True)
    lock = open(os.path.join(CACHE, "lock"), "w")
    fcntl.flock(lock, fcntl.LOCK_EX)
    try:
        ensure_driver()
        h = hashlib.sha256()
        for root, dirs, files in os.walk(os.path.join(FIXTURE_DIR, "src")):
            for f in sorted(files):
                with open(os.path.join(root, f), "rb") as fh:
                    h.update(fh.read())
        with open(os.path.join(DRIVER_DIR, "src", "main.rs"), "rb") as fh:
            h.update(fh.read())
        h.update(RUSTFLAGS.encode())
        th = h.hexdigest()[:24]
        outdir = os.path.join(CACHE, "facts-ctl", th)
        out = os.path.join(outdir, "facts-tsrun_ctl-lib.jsonl")
        if not _complete(out):
            os.makedirs(outdir, exist_ok=True)
            tgt = os.path.join(CACHE, "tgt-ctl")
            shutil.rmtree(tgt, ignore_errors=True)
            env = dict(os.environ)
            env.update({
                "LD_LIBRARY_PATH": os.path.join(_sysroot(), "lib"),
                "RUSTFLAGS": RUSTFLAGS,
                "RUSTC_WORKSPACE_WRAPPER": DRIVER,
                "TSRUN_FACTS_OUT": outdir,
                "TSRUN_FACTS_NONCE": uuid.uuid4().hex,
                "TSRUN_FACTS_CRATE": "tsrun_ctl",
                "CARGO_TARGET_DIR": tgt,
                "CARGO_INCREMENTAL": "0",
                "CARGO_NET_OFFLINE": "true",
            })
            env.pop("RUSTC_WRAPPER", None)
            r = subprocess.run(["cargo", "+nightly", "check", "--offline", "--lib"], cwd=FIXTURE_DIR, env=env,
                               stdout=subprocess.PIPE, stderr=subprocess.STDOUT, text=True)
            if r.returncode != 0 or not _complete(out):
                sys.stderr.write(r.stdout[-4000:])
                raise BuildFailed("positive-control fixture crate did not build")
            _prune(os.path.join(CACHE, "facts-ctl"), keep=3, protect=th)
    finally:
        fcntl.flock(lock, fcntl.LOCK_UN)
        lock.close()
    fx = Facts(out)
    fx.tree_hash = th
    fx.cfg = "ctl"
    _loaded["ctl"] = fx
    return fx
