"""C18 - module specifiers resolve to canonical paths: structural clauses of `ModulePath::resolve`.

The property is a contract of a total function on strings; its values are not decided here.  Three parts of
it are visible in the shape of the code and each is a necessary condition (breaking it breaks the contract
for some input):

  R1 normalised-returns (T-ORIGIN): every `ModulePath` the resolver builds carries the result of the
     normaliser, except on the edge on which the specifier was classified as bare (passed through
     untouched).  A return that wraps a joined or copied string without normalising keeps `.`/`..`/empty
     segments for some input.
  R2 segment-classes (T-SET): the normaliser walks the `/`-separated segments and distinguishes exactly the
     three classes the contract names: the empty segment and `.` are dropped (their true edges do not reach
     the push of a kept segment), `..` removes the previously kept segment (reaches a pop) and is not kept.
  R3 sentinel-collision (contradiction rule): where the resolver collapses "no importer directory"
     (`Option::None`) into a sentinel with `unwrap_or(K)` and then branches on `== K` / `is_empty()`, the
     `Some` payload must not be able to take the value K.  The directory of an importer directly under the
     root is the empty string, i.e. the sentinel: `./m.ts` from `/main.ts` resolved to `m.ts`.

Not decided: the value of resolve() on any input (idempotence, equality of spellings, trailing slashes).
"""
from common import Check
import facts as F
import mir as M

MP = "ModulePath"


def local_closure(fx, root):
    """local functions (and their closures) reachable from `root`"""
    seen = set()
    work = [root]
    while work:
        p = work.pop()
        if p in seen or p not in fx.fns:
            continue
        seen.add(p)
        for g in fx.body_group(fx.fns[p]):
            seen.add(g.path)
            for bi, t in g.calls():
                d = t[1].get("d")
                if d and t[1].get("local") and d not in seen:
                    work.append(d)
    return seen


def def_call(f, local, depth=0):
    """the call terminator that defines `local` (through copies/moves), or None"""
    d = M.trace_back(f, local)
    if d is None:
        return None
    if d[1] == "T":
        return d
    return None


def const_str_of(f, op, depth=0):
    """string constant behind an operand, through copies and reborrows of a constant"""
    k = M.const_str(op)
    if k is not None or op[0] not in ("c", "m") or depth > 5:
        return k
    ds = f.defs().get(op[1][0], [])
    if len(ds) != 1 or ds[0][1] == "T":
        return None
    rv = ds[0][2]
    if rv[0] == "use":
        return const_str_of(f, rv[1], depth + 1)
    if rv[0] == "ref":
        return const_str_of(f, ["c", [rv[2][0], []]], depth + 1)
    return None


def str_const_cmp(t, f=None):
    """(compared local, constant string) for `x == "k"` / `x.is_empty()` calls"""
    if t[0] != "call":
        return None
    name = t[1].get("d") or ""
    u = t[1].get("u") or ""
    args = t[2]
    if u.endswith("PartialEq::eq") and len(args) == 2:
        for i in (0, 1):
            k = M.const_str(args[i])
            if k is None and f is not None:
                k = const_str_of(f, args[i])
            o = args[1 - i]
            if k is not None and o[0] in ("c", "m"):
                return o[1][0], k
    if name.endswith("str>::is_empty") or name.endswith("String::is_empty"):
        if args and args[0][0] in ("c", "m"):
            return args[0][1][0], ""
    return None


def true_edge(f, bi):
    """(true successor, false successor) of the switch that tests the bool returned by the call in block bi - directly, or after the bool was
    kept in a local (`let all_loaded = list.is_empty(); .. if all_loaded {`) and temporaries were dropped in between"""
    t = f.blocks[bi]["t"]
    nxt = t[4]
    seen = 0
    cur = {t[3][0]}
    neg = set()
    while nxt is not None and nxt >= 0 and seen < 8:
        seen += 1
        bl = f.blocks[nxt]
        for st in bl["s"]:
            if st[0] == "a" and not st[1][1]:
                if st[2][0] == "use" and st[2][1][0] in ("c", "m") and not st[2][1][1][1] and st[2][1][1][0] in cur:
                    cur.add(st[1][0])
                    if st[2][1][1][0] in neg:
                        neg.add(st[1][0])
                elif st[2][0] == "un" and st[2][1] == "Not" and st[2][2][0] in ("c", "m") and st[2][2][1][0] in cur:
                    cur.add(st[1][0])
                    if st[2][2][1][0] not in neg:
                        neg.add(st[1][0])
        tt = bl["t"]
        if tt[0] == "switch" and tt[1][0] in ("c", "m") and tt[1][1][0] in cur:
            zero = [tb for v, tb in tt[2] if v == "0"]
            if zero:
                return (zero[0], tt[3]) if tt[1][1][0] in neg else (tt[3], zero[0])
            return None
        if tt[0] == "goto":
            nxt = tt[1]
            continue
        if tt[0] == "drop":
            sc = f.succ(nxt)
            if len(sc) == 1:
                nxt = sc[0]
                continue
        return None
    return None


def derives_from(f, local, srcs, depth=0, seen=None):
    """True iff `local` is computed from one of `srcs` through copies, refs, projections and calls on it"""
    seen = seen if seen is not None else set()
    if local in srcs:
        return True
    if local in seen or depth > 60:
        return False
    seen.add(local)
    for bi, si, rv in f.defs().get(local, []):
        if si == "T":
            for a in rv[2]:
                if a[0] in ("c", "m") and derives_from(f, a[1][0], srcs, depth + 1, seen):
                    return True
        else:
            for pl in F.rvalue_places(rv):
                if derives_from(f, pl[0], srcs, depth + 1, seen):
                    return True
    return False


def _prefix_const(g, op):
    k = const_str_of(g, op)
    if k is None and M.const_int(op) is not None:
        k = chr(M.const_int(op))
    if k is None and op[0] == "k" and isinstance(op[2], dict) and "item" in op[2]:
        k = None
    return k


def explore(fx, f, atoms_true, consts_of, depth=0):
    """Concrete interpretation of a small function over the truth of the prefix tests on its specifier: returns (blocks visited,
    set of possible return values for bool functions).  `starts_with(x, "p")` is true iff "p" is in atoms_true; calls of local boolean
    functions on the specifier are evaluated recursively; switches on unknown values are explored both ways."""
    visited = set()
    rets = set()
    work = [(0, ())]
    seen = set()
    while work:
        b, envt = work.pop()
        if (b, envt) in seen or len(seen) > 3000:
            continue
        seen.add((b, envt))
        visited.add(b)
        e = dict(envt)
        for st in f.blocks[b]["s"]:
            if st[0] != "a" or st[1][1]:
                continue
            l = st[1][0]
            rv = st[2]
            if rv[0] == "use" and rv[1][0] == "k" and fx.tys(f.locals[l]) == "bool":
                e[l] = M.const_int(rv[1])
            elif rv[0] == "use" and rv[1][0] in ("c", "m") and not rv[1][1][1] and rv[1][1][0] in e:
                e[l] = e[rv[1][1][0]]
            elif rv[0] == "un" and rv[1] == "Not" and rv[2][0] in ("c", "m") and not rv[2][1][1] and rv[2][1][0] in e:
                e[l] = 1 - e[rv[2][1][0]]
            else:
                e.pop(l, None)
        t = f.blocks[b]["t"]
        if t[0] == "call":
            d = t[1].get("d") or ""
            dest = t[3][0] if not t[3][1] else None
            if dest is not None:
                e.pop(dest, None)
                if d.endswith("str>::starts_with") and len(t[2]) > 1:
                    k = consts_of(f, t[2][1])
                    if k is not None:
                        e[dest] = 1 if k in atoms_true else 0
                elif t[1].get("local") and d in fx.fns and fx.tys(fx.fns[d].locals[0]) == "bool" and depth < 4:
                    _, r = explore(fx, fx.fns[d], atoms_true, consts_of, depth + 1)
                    if len(r) == 1:
                        e[dest] = list(r)[0]
            if t[4] is not None and t[4] >= 0:
                work.append((t[4], tuple(sorted(e.items()))))
            continue
        if t[0] == "ret":
            if 0 in e:
                rets.add(e[0])
            else:
                rets |= {0, 1}
            continue
        envn = tuple(sorted(e.items()))
        if t[0] == "switch" and t[1][0] in ("c", "m") and not t[1][1][1] and t[1][1][0] in e:
            val = str(e[t[1][1][0]])
            tg = [tb for v_, tb in t[2] if v_ == val]
            work.append(((tg[0] if tg else t[3]), envn))
        else:
            for nb in f.succ(b):
                work.append((nb, envn))
    return visited, rets


def run(tier, fx=None, ck=None, control=False):
    own = ck is None
    if own:
        ck = Check("C18", tier, "value-origin rule for the paths the resolver returns, belief agreement over the three segment classes of the "
                                "normaliser (edge reachability in its CFG), sentinel-collision contradiction rule",
                   ["the value of ModulePath::resolve on any input: idempotence, equal results for equal spellings, absence of a trailing slash",
                    "paths created by the host with ModulePath::new (contract: already normalised)"])
        fx = F.load("A")
        ck.configs.append("A: cargo +nightly check --lib --features c-api")
    pre = "" if not control else "ctl:"
    resolve = [f for p, f in fx.fns.items() if p.endswith(MP + "::resolve") and not f.closure and (not control or p.startswith("c18::"))]
    if not ck.anchor(len(resolve) == 1, pre + "function ModulePath::resolve"):
        return ck.finish() if own else None
    resolve = resolve[0]
    scope = local_closure(fx, resolve.path)

    # ------------------------------------------------------------ R1
    ck.rule("R1.normalised-returns", "every ModulePath the resolver builds holds the normaliser's result, except on the bare-specifier edge", floor=2)
    normalisers = set()   # functions in scope that walk `split('/')`
    for p in scope:
        g = fx.fns[p]
        for bi, t in g.calls():
            if (t[1].get("d") or "").endswith("str>::split") and len(t[2]) > 1 and M.const_int(t[2][1]) == 47:
                normalisers.add(g.parent if g.closure else g.path)
    ck.anchor(bool(normalisers), pre + "a normaliser reachable from resolve() that walks split('/')")
    bare_regions = {}
    for p in sorted(scope):
        g = fx.fns[p]
        for bi, bl in enumerate(g.blocks):
            for s in bl["s"]:
                if s[0] != "a" or s[2][0] != "agg" or s[2][1].get("k") != "adt" or not s[2][1].get("p", "").endswith(MP):
                    continue
                op = s[2][2][0] if s[2][2] else None
                origin = "?"
                ok = False
                if op is not None and op[0] in ("c", "m"):
                    dc = def_call(g, op[1][0])
                    if dc is not None:
                        callee = dc[2][1].get("d") or "?"
                        origin = callee.split("::")[-1]
                        if callee in normalisers:
                            ok = True
                        else:
                            # bare pass-through: the site is reached only when none of the prefix tests ('/', './', '../') holds,
                            # however the function spells that (is_bare(), !is_absolute() && !is_relative(), nested ifs)
                            if g.path not in bare_regions:
                                import itertools
                                atoms = ("/", "./", "../")
                                only_bare = None
                                for r_ in range(len(atoms) + 1):
                                    for comb in itertools.combinations(atoms, r_):
                                        vis, _ = explore(fx, g, frozenset(comb), _prefix_const)
                                        if comb == ():
                                            only_bare = set(vis) if only_bare is None else only_bare
                                        else:
                                            only_bare = (only_bare or set()) - vis if only_bare is not None else None
                                bare_regions[g.path] = only_bare or set()
                            if bi in bare_regions[g.path]:
                                ok = True
                                origin += " (bare specifier, passed through)"
                key = "%s/%s" % (g.path, origin.split(" ")[0])
                ck.instance("R1.normalised-returns", "%s builds ModulePath from %s" % (g.path, origin), F.short_span(s[3]), ok=ok)
                if not ok:
                    ck.finding("R1.normalised-returns", "R1.normalised-returns/" + key, F.short_span(s[3]),
                               "`%s` returns a ModulePath whose text comes from `%s`, not from the normaliser, on a path that is not the bare-specifier "
                               "pass-through: `.`, `..` or empty segments survive for some specifier" % (g.path, origin))

    # ------------------------------------------------------------ R2
    ck.rule("R2.segment-classes", "the normaliser drops '' and '.', and '..' removes the previously kept segment; none of the three is kept", floor=3)
    for np_ in sorted(normalisers):
        for g in fx.body_group(fx.fns[np_]):
            # the segment: Some-payload of next() on the split iterator
            split_locals = {t[3][0] for bi, t in g.calls() if (t[1].get("d") or "").endswith("str>::split")}
            if not split_locals:
                continue
            segs = set()
            for bi, t in g.calls():
                if (t[1].get("u") or "").endswith("Iterator::next") and t[2] and t[2][0][0] in ("c", "m") and derives_from(g, t[2][0][1][0], split_locals):
                    segs.add(t[3][0])
            if not ck.anchor(bool(segs), pre + "segment iteration in " + g.path):
                continue
            pushes = [bi for bi, t in g.calls() if (t[1].get("d") or "").endswith(("Vec::<T, A>::push", "::push_str", "::push"))
                      and any(a[0] in ("c", "m") and derives_from(g, a[1][0], segs) for a in t[2][1:])]
            pops = [bi for bi, t in g.calls() if (t[1].get("d") or "").endswith(("Vec::<T, A>::pop", "::truncate", "Vec::<T, A>::remove"))]
            ck.anchor(bool(pushes), pre + "kept segments are pushed in " + g.path)
            heads = {bi for bi, t in g.calls() if (t[1].get("u") or "").endswith("Iterator::next") and t[3][0] in segs}
            found = {}
            for bi, t in g.calls():
                c = str_const_cmp(t, g)
                if c is None or c[1] not in ("", ".", "..") or not derives_from(g, c[0], segs):
                    continue
                te = true_edge(g, bi)
                if te is None:
                    continue
                reach = {te[0]} | g.reachable_from(te[0], stop=heads)
                found.setdefault(c[1], []).append((bi, reach, t))
            # segments removed before the loop sees them: `split('/').filter(|s| !matches!(*s, "" | "."))` - a closure handed to Iterator::filter between the
            # split and the loop, which compares its argument with K and returns the negation of the match
            for bi, t in g.calls():
                if not (t[1].get("u") or "").endswith("Iterator::filter") or len(t[2]) < 2 or t[2][0][0] not in ("c", "m") or not derives_from(g, t[2][0][1][0], split_locals):
                    continue
                cd = g.defs().get(t[2][1][1][0], []) if t[2][1][0] in ("c", "m") else []
                if len(cd) != 1 or cd[0][1] == "T" or cd[0][2][0] != "agg" or not isinstance(cd[0][2][1], dict) or cd[0][2][1].get("k") != "closure":
                    continue
                body = fx.fns.get(cd[0][2][1].get("p"))
                if body is None:
                    continue
                negated = any(s_[0] == "a" and s_[1][0] == 0 and s_[2][0] == "un" and s_[2][1] == "Not" for bl_ in body.blocks for s_ in bl_["s"])
                if not negated:
                    continue
                for b2, t2 in body.calls():
                    c = str_const_cmp(t2, body)
                    if c is not None and c[1] in ("", "."):
                        found.setdefault(c[1], []).append((bi, set(), t2))
            for k in ("", ".", ".."):
                name = {"": "empty segment", ".": "'.'", "..": "'..'"}[k]
                if k not in found:
                    ck.instance("R2.segment-classes", "%s: %s is recognised" % (g.path, name), F.short_span(g.span), ok=False)
                    ck.finding("R2.segment-classes", "R2.segment-classes/%s/%s-not-tested" % (g.path, k or "empty"), F.short_span(g.span),
                               "the normaliser never compares a segment with %r: such segments are kept in the result" % k)
                    continue
                for bi, reach, t in found[k]:
                    kept = any(p in reach for p in pushes)
                    ok = not kept and (k != ".." or any(p in reach for p in pops))
                    ck.instance("R2.segment-classes", "%s: %s is %s" % (g.path, name, "dropped" if k != ".." else "resolved against the kept segments"),
                                F.short_span(t[6]), ok=ok)
                    if not ok:
                        ck.finding("R2.segment-classes", "R2.segment-classes/%s/%s" % (g.path, k or "empty"), F.short_span(t[6]),
                                   ("a segment equal to %r is kept (its edge reaches the push)" % k) if kept else
                                   "a '..' segment does not remove the previously kept segment (its edge reaches no pop)")

            # R2b: a further advance of the segment iterator inside the loop body pairs the current segment with the one it consumes (`dir/..` look-ahead):
            # that treats the current segment as a name, so the advance must lie behind the failed tests of all three classes
            all_cmps = [cb for k_ in found for cb, reach_, t_ in found[k_] if reach_]
            main_heads = {h for h in heads if all(g.dominates(h, cb) for cb in all_cmps)}
            for e in sorted(heads - main_heads):
                missing = [k_ for k_ in ("", ".", "..") if not any(((not reach_) or (g.dominates(cb, e) and e not in reach_)) for cb, reach_, t_ in found.get(k_, []))]
                te_ = g.term(e)
                ck.instance("R2.segment-classes", "%s: look-ahead advance only for a segment that is a name" % g.path, F.short_span(te_[6]), ok=not missing)
                if missing:
                    ck.finding("R2.segment-classes", "R2.segment-classes/%s/advance-before-class-test" % g.path, F.short_span(te_[6]),
                               "the loop consumes a further segment (%s) before the current one has failed the test for %s: a '.' or empty segment in front of a '..' "
                               "is treated as a directory name and the '..' it swallows removes nothing (`./../x`, `a//../x`)"
                               % (F.short_span(te_[6]), ", ".join(repr(k_) for k_ in missing)))

    # ------------------------------------------------------------ R4
    ck.rule("R4.result-from-kept-segments", "every value the normaliser returns is built from the kept segments (no early return of the raw text)", floor=1)
    for np_ in sorted(normalisers):
        g = fx.fns[np_]
        conts = set()
        for bi, t in g.calls():
            if (t[1].get("d") or "").endswith(("Vec::<T, A>::push",)) and t[2] and t[2][0][0] in ("c", "m"):
                l = t[2][0][1][0]
                for _ in range(4):
                    dd = M.trace_back(g, l)
                    if dd and dd[1] != "T" and dd[2][0] == "ref":
                        l = dd[2][2][0]
                    else:
                        break
                conts.add(l)
        rets = g.defs().get(0, [])
        if not ck.anchor(bool(conts) and bool(rets), pre + "kept-segment vector and return value of " + g.path):
            continue
        for bi, si, rv in rets:
            if si == "T":
                srcs = [a[1][0] for a in rv[2] if a[0] in ("c", "m")]
                origin = (rv[1].get("d") or "?").split("::")[-1]
                where = rv[6]
            else:
                srcs = [pl[0] for pl in F.rvalue_places(rv)]
                origin = rv[0]
                where = g.blocks[bi]["s"][si][3]
            ok = any(derives_from(g, x, conts) for x in srcs)
            ck.instance("R4.result-from-kept-segments", "%s returns the result of %s" % (g.path, origin), F.short_span(where), ok=ok)
            if not ok:
                ck.finding("R4.result-from-kept-segments", "R4.result-from-kept-segments/%s/%s" % (g.path, origin), F.short_span(where),
                           "`%s` has a return value (from `%s`) that is not built from the kept segments: on that path `.`, `..`, doubled or "
                           "trailing slashes of the input reach the result" % (g.path, origin))

    # ------------------------------------------------------------ R5
    ck.rule("R5.specifier-classes", "relative specifiers are exactly those starting with './' or '../'; absolute ones start with '/'", floor=2)
    prefixes = {}
    for p in sorted(scope):
        g = fx.fns[p]
        if g.parent in normalisers:
            continue
        for bi, t in g.calls():
            if (t[1].get("d") or "").endswith("str>::starts_with") and len(t[2]) > 1 and t[2][0][0] in ("c", "m") \
                    and derives_from(g, t[2][0][1][0], set(range(1, g.argc + 1))):
                k = const_str_of(g, t[2][1])
                if k is None and M.const_int(t[2][1]) is not None:
                    k = chr(M.const_int(t[2][1]))
                if k is not None:
                    prefixes.setdefault(k, []).append((g, t))
    for k, sites in sorted(prefixes.items()):
        ok = k in ("./", "../", "/")
        ck.instance("R5.specifier-classes", "prefix test %r in %s" % (k, sites[0][0].path), F.short_span(sites[0][1][6]), ok=ok)
        if not ok:
            ck.finding("R5.specifier-classes", "R5.specifier-classes/%r" % k, F.short_span(sites[0][1][6]),
                       "the resolver classifies specifiers by the prefix %r, which is none of './', '../', '/': bare specifiers such as '.env' or "
                       "'..a' stop being passed through untouched (or relative ones stop being resolved)" % k)
    # the directory forms: a specifier that IS `.` or `..` is relative as well (`import cfg from ".."`)
    wholes = {}
    for p in sorted(scope):
        g = fx.fns[p]
        if g.parent in normalisers:
            continue
        for bi, t in g.calls():
            if (t[1].get("u") or "").endswith("PartialEq::eq") and len(t[2]) == 2:
                for i in (0, 1):
                    k = const_str_of(g, t[2][i])
                    o = t[2][1 - i]
                    if k is not None and o[0] in ("c", "m") and derives_from(g, o[1][0], set(range(1, g.argc + 1))):
                        wholes.setdefault(k, []).append((g, t))
    for k, sites in sorted(wholes.items()):
        ok = k in (".", "..")
        ck.instance("R5.specifier-classes", "whole-specifier test %r in %s" % (k, sites[0][0].path), F.short_span(sites[0][1][6]), ok=ok)
        if not ok:
            ck.finding("R5.specifier-classes", "R5.specifier-classes/whole-%r" % k, F.short_span(sites[0][1][6]),
                       "the resolver classifies the specifier %r by name: only the directory forms '.' and '..' are specifiers with a meaning of their own" % k)
    if not control:
        for k in (".", ".."):
            if k not in wholes:
                ck.instance("R5.specifier-classes", "whole-specifier test %r" % k, None, ok=False)
                ck.finding("R5.specifier-classes", "R5.specifier-classes/missing-whole-%r" % k, F.short_span(resolve.span),
                           "no function of the resolver recognises the specifier %r: it is passed through as a bare specifier, while its other spelling %r is "
                           "resolved against the importer's directory (`resolve(\".\", \"/a/b.ts\")` gives \".\", `resolve(\"./\", ..)` gives \"/a\")" % (k, k + "/"))
    for k in ("./", "../", "/"):
        if k not in prefixes:
            ck.instance("R5.specifier-classes", "prefix test %r" % k, None, ok=False)
            ck.finding("R5.specifier-classes", "R5.specifier-classes/missing-%r" % k, F.short_span(resolve.span),
                       "no function of the resolver tests a specifier for the prefix %r" % k)

    # ------------------------------------------------------------ R3
    ck.rule("R3.sentinel-collision", "an Option collapsed to a sentinel with unwrap_or(K) and then tested for K: the Some payload cannot be K", floor=0)
    for p in sorted(scope):
        g = fx.fns[p]
        for bi, t in g.calls():
            name = t[1].get("d") or ""
            if not name.endswith(("Option::<T>::unwrap_or", "Option::<T>::unwrap_or_default")):
                continue
            k = const_str_of(g, t[2][1]) if len(t[2]) > 1 else ""
            if k is None:
                continue
            res = t[3][0]
            tests = []
            for cb, ct in g.calls():
                c = str_const_cmp(ct, g)
                if c is not None and c[1] == k and derives_from(g, c[0], {res}) and true_edge(g, cb):
                    tests.append(ct)
            if not tests:
                continue
            # can the payload be K?  a payload cut out of a string with `get(..idx)` / a slice can be empty
            payload_nonempty = False
            ck.instance("R3.sentinel-collision", "%s: unwrap_or(%r) then a test for %r" % (g.path, k, k), F.short_span(t[6]), ok=payload_nonempty)
            if not payload_nonempty:
                ck.finding("R3.sentinel-collision", "R3.sentinel-collision/%s/%r" % (g.path, k), F.short_span(tests[0][6]),
                           "`%s` turns `None` into %r and then treats %r as \"there is no importer directory\"; the directory of an importer "
                           "directly under the root is %r as well, so a relative specifier resolved against `/main.ts` loses its leading slash"
                           % (g.path, k, k, k))
    if not own:
        return None
    # zero-expected rule: positive control
    ctl = F.load_fixture()
    ck2 = Check("C18", tier, "", [])
    run(tier, ctl, ck2, control=True)
    got = {f[0] for f in ck2.findings}
    need = {"R1.normalised-returns", "R2.segment-classes", "R3.sentinel-collision", "R4.result-from-kept-segments", "R5.specifier-classes"}
    if not need <= got:
        ck.closed_fail.append("control failed: the fixture resolver must be reported by %s, got %s" % (sorted(need), sorted(got)))
    ck.note("positive control (fixture c18::ModulePath::resolve) reported by: %s" % sorted(got))
    return ck.finish()
