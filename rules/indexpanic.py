"""Index expressions that can panic (shared by C05 R1 and C06 R5): `v[i]`, `&s[a..b]`, `map[&k]`.

The project denies clippy's `indexing_slicing`/`string_slice`, but clippy is not part of the test suite: an index expression added to the
parser or to a native compiles and passes every test until a script supplies the index that is out of range.  The rule reports every
`BoundsCheck` assertion and every call of an `Index::index`/`index_mut` implementation of the standard containers that is not behind a
comparison of the index with the length (or emptiness) of the container it indexes.  `HashMap` / range indexing have no such guard idiom and
are always reported."""
import re

import facts as F
import mir as M
from c09 import ancestors

INDEX_IMPLS = ("std::ops::Index<", "core::ops::Index<", "std::ops::IndexMut<", "core::ops::IndexMut<")


def container_roots(f, op):
    if op[0] not in ("c", "m"):
        return set()
    return {l for l in ancestors(f, op[1][0])}


def length_guarded(fx, f, site_block, index_op, container_op):
    """a dominating branch compares the index (or the constant index's container) with len()/is_empty() of the same container"""
    croots = container_roots(f, container_op)
    iroots = container_roots(f, index_op) if index_op is not None else set()
    for bi, bl in enumerate(f.blocks):
        t = bl["t"]
        if t[0] != "switch" or t[1][0] not in ("c", "m") or not f.dominates(bi, site_block) or bi == site_block:
            continue
        canc = ancestors(f, t[1][1][0])
        # the condition involves len()/is_empty() of the container ...
        len_of_container = False
        for l in canc:
            for db, si, rv in f.defs().get(l, []):
                if si == "T" and (rv[1].get("d") or "").endswith(("::len", "::is_empty")) and rv[2] and rv[2][0][0] in ("c", "m") and \
                        ancestors(f, rv[2][0][1][0]) & croots:
                    len_of_container = True
                if si != "T" and rv[0] == "un" and rv[1] == "PtrMetadata" and rv[2][0] in ("c", "m") and ancestors(f, rv[2][1][0]) & croots:
                    len_of_container = True
        if not len_of_container:
            continue
        # ... and the index (unless it is a constant)
        if index_op is None or index_op[0] == "k" or (canc & iroots):
            return True
    return False


def sites(fx, scope):
    for p, f in sorted(fx.fns.items()):
        if f.derived or not scope(f):
            continue
        for bi, bl in enumerate(f.blocks):
            t = bl["t"]
            if t[0] == "assert" and t[1] == "BoundsCheck":
                # operands: [index, len] of the failed comparison; the condition's defining Lt gives both
                idx_op = cont = None
                d = M.trace_back(f, t[2][1][0]) if t[2][0] in ("c", "m") else None
                if d and d[1] != "T" and d[2][0] == "bin":
                    idx_op = d[2][2]
                    ln = d[2][3]
                    dl = M.trace_back(f, ln[1][0]) if ln[0] in ("c", "m") else None
                    if dl and dl[1] != "T" and dl[2][0] in ("un", "len"):
                        cont = dl[2][2] if dl[2][0] == "un" else ["c", dl[2][1]]
                yield f, bi, t[8] if len(t) > 8 else None, "index expression", idx_op, cont
            if t[0] == "call":
                dname = t[1].get("d") or ""
                if any(k in dname for k in INDEX_IMPLS) and dname.endswith(("::index", "::index_mut")) and len(t[2]) >= 2:
                    is_range = t[2][1][0] in ("c", "m") and "Range" in fx.tys(f.locals[t[2][1][1][0]])
                    kind = "HashMap index" if ("HashMap" in dname or "BTreeMap" in dname) else ("range slice" if is_range else "index expression")
                    if "str>::index" in dname or "for str" in dname or "String" in dname:
                        kind = "string slice"
                    yield f, bi, t[6], kind, t[2][1], t[2][0]


STR_POS = re.compile(r"(String::(truncate|insert|insert_str|remove|drain|split_off|replace_range)|str::<impl str>::(split_at|split_at_mut))$")
BYTE_SRC = ("::len", "::find", "::rfind", "::len_utf8", "::floor_char_boundary", "::ceil_char_boundary", "::position", "::rposition")


def byte_origin(lv, f=None):
    """every origin of the position is a byte length / byte offset of some text (or 0): positions computed from a character count, a
    caller's number or a non-zero constant are not"""
    if not lv:
        return False
    for x in lv:
        if x[0] == "const":
            if x[1] != 0:
                return False
        elif x[0] == "call":
            if not x[1].endswith(BYTE_SRC):
                return False
        elif x[0] == "bin":
            # a sum / difference of byte offsets stays on a boundary only if both sides are; a constant side must be 0
            if not (byte_origin(x[2], f) and byte_origin(x[3], f)):
                return False
        elif x[0] == "field" and f is not None and str(x[1]).endswith("Option"):
            # `if let Some(i) = s.find(..)`: the payload of an Option returned by a byte-offset search
            ds = f.defs().get(x[3], [])
            if not ds or not all(si == "T" and (rv[1].get("d") or "").endswith(BYTE_SRC) for _, si, rv in ds):
                return False
        else:
            return False
    return True


def str_pos_sites(fx, scope):
    from c20 import leaves
    for p, f in sorted(fx.fns.items()):
        if f.derived or not scope(f):
            continue
        for bi, t in f.calls():
            d = t[1].get("d") or ""
            m = STR_POS.search(d)
            if not m or len(t[2]) < 2:
                continue
            pos = t[2][1]
            ok = False
            if pos[0] == "k":
                ok = M.const_int(pos) == 0
            elif pos[0] in ("c", "m") and "Range" not in fx.tys(f.locals[pos[1][0]]):
                ok = byte_origin(leaves(f, pos), f)
                if not ok:
                    # `if s.is_char_boundary(pos)` on the way
                    for b2, t2 in f.calls():
                        if (t2[1].get("d") or "").endswith("::is_char_boundary") and t2[4] >= 0 and f.dominates(t2[4], bi) and len(t2[2]) > 1 and \
                                t2[2][1][0] in ("c", "m") and ancestors(f, t2[2][1][1][0]) & ancestors(f, pos[1][0]):
                            ok = True
            yield f, bi, t[6], m.group(1).replace("<impl str>::", ""), ok


def rule(fx, ck, name, scope, what):
    ck.rule(name, "no index expression (v[i], &s[a..b], map[&k]) that is not behind a comparison with the container's length: %s" % what, floor=0)
    n = 0
    for f, bi, sp, kind, idx_op, cont in sites(fx, scope):
        n += 1
        guarded = kind == "index expression" and cont is not None and length_guarded(fx, f, bi, idx_op, cont)
        ck.instance(name, "%s: %s%s" % (f.path, kind, " (guarded by a length test)" if guarded else ""), F.short_span(sp) if sp else None, ok=guarded)
        if not guarded:
            ck.finding(name, "%s/%s/%s" % (name, f.parent if f.closure else f.path, kind.replace(" ", "-")), F.short_span(sp) if sp else None,
                       "`%s` uses a%s %s that panics when the index is out of range (or the key missing, or the cut inside a character) and is not "
                       "behind a test of the length: with `panic = abort` that ends the embedding process" % (f.path, "n" if kind[0] in "aeiou" else "", kind))
    for f, bi, sp, api, ok in str_pos_sites(fx, scope):
        n += 1
        ck.instance(name, "%s: %s at a byte position%s" % (f.path, api, " (a byte length / offset of a text, or 0)" if ok else ""), F.short_span(sp), ok=ok)
        if not ok:
            ck.finding(name, "%s/%s/%s" % (name, f.parent if f.closure else f.path, api.split("::")[-1] + "-byte-position"), F.short_span(sp),
                       "`%s` calls `%s` with a byte position that is not a byte length / offset taken from a text (a character count, a constant, a "
                       "caller's number): the call panics when the position is past the end or inside a multi-byte character, and with "
                       "`panic = abort` that ends the embedding process" % (f.path, api))
    return n


def control(fx_ctl):
    from common import Check
    ck = Check("ctl", "quick", "", [])
    rule(fx_ctl, ck, "X", lambda f: f.path.startswith("idx::"), "")
    bad = {k[1].split("/")[1] for k in ck.findings}
    want_bad = {"idx::unguarded", "idx::unguarded_slice", "idx::unguarded_map", "idx::cut_at_constant", "idx::cut_at_char_count"}
    want_ok = {"idx::guarded", "idx::guarded_first", "idx::cut_at_own_length", "idx::cut_at_found", "idx::prepend"}
    if not want_bad <= bad or bad & want_ok:
        return "index-panic control failed: fixture reports %s" % sorted(bad)
    return None
