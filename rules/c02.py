"""C02 - garbage collection is invisible: structural rooting rules.

Decided:
  G1 trace completeness (type directed): every field path reachable from JsObject whose type can
     contain a Gc handle is visited by <JsObject as Traceable>::trace (or a function it calls);
     dead types (constructed nowhere) are exempt automatically; the import-binding exemption has a
     checked side condition (module objects are permanently rooted where they are cached);
  G2 register discipline: only set_reg, the frame swaps and the constructors write
     BytecodeVM.registers, and set_reg keeps register_guard in step (guards the new, unguards the old);
  G3 (collector ordering: decided under C13 O6/O7);
  G4 guardflow: no FRESH value (extracted from a callee-returned Guarded, or allocated through a
     local guard) is without a live protector at a call that may collect while it is still used
     (rules/guardflow.py).  A report is a genuine defect: some program makes the collector reset
     the object while the native still uses it.
  G4d detached values: the same analysis seeded with Gc-bearing values moved OUT of mutably borrowed heap state
     (mem::take / replace / Option::take / pop / remove / swap_remove / drain / split_off behind a RefMut, or a
     local function returning such a value): the heap stopped referencing them, so they need a guard
     before the next call that may collect.
Not decided: hazards that need a callback to remove the last heap reference to a caller/heap
rooted object (optimistic assumption); correctness of Reset.
"""
from common import Check
import facts as F
import mir as M
import exits as E
import guardflow as G

VM = "interpreter::bytecode_vm::BytecodeVM"
REGISTER_WRITERS = {
    "interpreter::bytecode_vm::BytecodeVM::set_reg": "the guarded register store",
    "interpreter::bytecode_vm::BytecodeVM::push_trampoline_frame_and_call_bytecode": "frame swap (registers move into the frame with their guard)",
    "interpreter::bytecode_vm::BytecodeVM::push_trampoline_frame_and_call_bytecode_construct": "frame swap",
    "interpreter::bytecode_vm::BytecodeVM::restore_from_trampoline_frame": "frame swap (registers come back with their guard)",
    "interpreter::bytecode_vm::BytecodeVM::handle_error_with_trampoline_unwind": "frame swap on unwind",
    "interpreter::bytecode_vm::BytecodeVM::execute_return": "takes the register file out when the frame ends",
}
# field paths that trace() does not visit, with the side condition that makes it safe
TRACE_EXEMPT = {
    ("value::Binding", None, "import_binding"): "module objects referenced by import bindings are cached in loaded_modules / internal_module_cache and rooted there (side condition checked)",
    ("value::ImportBinding", None, "module_obj"): "same",
}


def gc_bearing(fx, edges):
    bearing = {"gc::Gc"}
    ch = True
    while ch:
        ch = False
        for p in fx.adts:
            if p not in bearing and edges.get(p, set()) & bearing:
                bearing.add(p)
                ch = True
    return bearing


def live_types(fx):
    """(adt, variant) pairs constructed by some non-derived function whose operands are themselves
    constructible (least fixed point)"""
    sites = []
    for f in fx.fns.values():
        if f.derived:
            continue
        for bl in f.blocks:
            for s in bl["s"]:
                if s[0] == "a" and s[2][0] == "agg" and s[2][1].get("k") == "adt":
                    need = set()
                    for op in s[2][2]:
                        if op[0] in ("c", "m"):
                            need |= {a for a in M.adts_in_type(fx, f.locals[op[1][0]]) if a in fx.adts} if not op[1][1] else set()
                    sites.append(((s[2][1]["p"], s[2][1]["v"]), need))
    live_adts = set()
    live = set()
    ch = True
    # ADTs with no local definition are always live; a local ADT is live once one of its variants is
    while ch:
        ch = False
        for key, need in sites:
            if key in live:
                continue
            if all((n == key[0]) or (n in live_adts) or (n not in fx.adts) for n in need):
                live.add(key)
                live_adts.add(key[0])
                ch = True
    return live, live_adts


def host_values(fx, scope, ctor="RuntimeValue::unguarded"):
    """(fn, call, ok) for every application of the guard-less RuntimeValue constructor in scope"""
    import c17
    for p, f in sorted(fx.fns.items()):
        if f.derived or not scope(f):
            continue
        for bi, t in f.calls():
            if not (t[1].get("d") or "").endswith(ctor):
                continue
            a = t[2][0] if t[2] else None
            const_like = False
            if a and a[0] == "k":
                const_like = True
            if a and a[0] in ("c", "m") and not a[1][1]:
                d = f.defs().get(a[1][0], [])
                if len(d) == 1 and d[0][1] != "T" and d[0][2][0] == "agg" and isinstance(d[0][2][1], dict) and d[0][2][1].get("v") in ("Undefined", "Null", "Number", "Boolean", "String"):
                    const_like = True
            yield f, t, const_like or c17.kind_guarded(fx, f, bi)


def run(tier):
    ck = Check("C02", tier, "type-directed trace coverage + who-may-write table + forward may-analysis of guard protection with backward liveness (guardflow) over MIR",
               ["hazards that need a callback to remove the last heap reference to a caller- or heap-rooted object (optimistic assumption)",
                "correctness of Reset::reset and of the collector's algorithm (see C13)", "rooting inside FFI callbacks written by the host"])
    fx = F.load("A")
    ck.configs.append("A: cargo +nightly check --lib --features c-api")

    # ---------------- G1
    ck.rule("G1.trace-complete", "every Gc-bearing field path reachable from JsObject is visited by Traceable::trace", floor=60)
    edges = M.adt_edges(fx)
    R = M.reach(edges, ["value::JsObject"])
    bearing = gc_bearing(fx, edges)
    tr = [f for f in fx.fns.values() if f.impl_trait and f.impl_trait.endswith("gc::Traceable") and not f.derived and f.self_ty is not None and fx.tys(f.self_ty) == "value::JsObject"]
    if ck.anchor(len(tr) == 1, "impl Traceable for JsObject"):
        reach = M.reachable_fns(fx, [tr[0].parent])
        visited = set()
        for p in reach:
            if p in fx.fns:
                for f in fx.body_group(fx.fns[p]):
                    for bi, kind, place, sp in M.all_places(f):
                        for tri in F.place_fields(place):
                            visited.add(tri)
        live, live_adts = live_types(fx)
        nopen = 0
        for p in sorted(R):
            if p.startswith("gc::"):
                continue
            a = fx.adts[p]
            for v in a["variants"]:
                vn = v["name"] if a["kind"] == "enum" else None
                for fld in v["fields"]:
                    if not (M.adts_in_type(fx, fld["ty"]) & bearing):
                        continue
                    key = (p, vn, fld["name"])
                    ident = "%s%s.%s" % (p, ("::" + vn) if vn else "", fld["name"])
                    if key in visited:
                        ck.instance("G1.trace-complete", ident, F.short_span(a["span"]))
                        continue
                    if p not in live_adts or (vn is not None and (p, vn) not in live):
                        ck.instance("G1.trace-complete", ident + " (dead type: constructed nowhere)", F.short_span(a["span"]))
                        continue
                    if key in TRACE_EXEMPT:
                        ck.instance("G1.trace-complete", ident + " (exempt: permanently rooted elsewhere)", F.short_span(a["span"]))
                        continue
                    nopen += 1
                    ck.instance("G1.trace-complete", ident, F.short_span(a["span"]), ok=False)
                    ck.finding("G1.trace-complete", "G1.trace-complete/" + ident, F.short_span(a["span"]),
                               "`%s` (type %s) can hold a GC handle but Traceable::trace never visits it: objects reachable only through it are reclaimed while in use" % (ident, fx.tys(fld["ty"])))
        # side condition of the exemption: caches of module objects are rooted on insert
        ck.rule("G1.module-cache-rooted", "every function inserting into loaded_modules / internal_module_cache also roots the object in root_guard", floor=2)
        for f in fx.fns.values():
            ins = []
            for bi, t in f.calls():
                if t[1].get("d", "").endswith("::insert") and t[2] and t[2][0][0] in ("c", "m"):
                    fl = E.field_of_ref(f, t[2][0][1][0])
                    if fl and fl[0] == E.INTERP and fl[2] in ("loaded_modules", "internal_module_cache"):
                        ins.append((fl[2], t))
            if not ins:
                continue
            rooted = False
            for bi, t in f.calls():
                if t[1].get("d") == "gc::Guard::<T>::guard" and t[2] and t[2][0][0] in ("c", "m"):
                    fl = E.field_of_ref(f, t[2][0][1][0])
                    if fl and fl[2] == "root_guard":
                        rooted = True
            ck.instance("G1.module-cache-rooted", "%s inserts into %s" % (f.path, ins[0][0]), F.short_span(ins[0][1][6]), ok=rooted)
            if not rooted:
                ck.finding("G1.module-cache-rooted", "G1.module-cache-rooted/" + f.path, F.short_span(ins[0][1][6]),
                           "`%s` caches a module object in %s without rooting it in root_guard: import bindings (not traced) would dangle" % (f.path, ins[0][0]))

        # G1c: the tracer branches on the SHAPE of what it walks (discriminants of Gc-bearing values, emptiness /
        # iteration of containers), never on plain data: a visit that depends on a flag or a counter makes
        # reachability depend on run state, and an object referenced only from the skipped field is reclaimed
        ck.rule("G1c.trace-unconditional", "every branch in the tracer tests the shape of a Gc-bearing value; no visit is conditional on plain data", floor=15)
        SHAPE_CALLS = ("::is_empty", "::len", "::is_some", "::is_none", "::next", "::is_null")
        for p in sorted(reach):
            if p not in fx.fns:
                continue
            for f in fx.body_group(fx.fns[p]):
                if not f.file.startswith("src/"):
                    continue
                for bi, bl in enumerate(f.blocks):
                    t = bl["t"]
                    if t[0] != "switch" or t[1][0] == "k":
                        continue
                    shape = True
                    why = ""
                    for d in f.defs().get(t[1][1][0], []):
                        if d[1] == "T":
                            cal = f.blocks[d[0]]["t"][1].get("d", "?")
                            if not cal.endswith(SHAPE_CALLS):
                                shape, why = False, "result of %s" % cal
                        elif d[2][0] == "disc":
                            if not (M.adts_in_type(fx, d[2][2]) & bearing):
                                shape, why = False, "discriminant of %s (holds no GC handle)" % fx.tys(d[2][2])
                        else:
                            flds = [n for pl in M.stmt_reads(["a", None, d[2]]) for (_, _, n) in F.place_fields(pl)]
                            shape, why = False, "plain data (%s%s)" % (d[2][0], (" of ." + flds[-1]) if flds else "")
                    ident = "%s: branch in bb%d" % (f.path, bi)
                    if shape:
                        ck.instance("G1c.trace-unconditional", "%s#bb%d" % (f.path, bi), F.short_span(bl.get("span") or f.span))
                        continue
                    # plain-data branch: harmless only if no successor region visits anything
                    succs = [tb for _, tb in t[2]] + ([t[3]] if t[3] is not None else [])
                    gated = []
                    for sb in set(succs):
                        if len(f.preds()[sb]) != 1:
                            continue
                        for b in M.dominated_region(f, sb):
                            for s2 in f.blocks[b]["s"]:
                                if s2[0] == "a":
                                    for pl in M.stmt_reads(s2):
                                        for (adt, vn, name) in F.place_fields(pl):
                                            a = fx.adts.get(adt)
                                            if a is None:
                                                continue
                                            for v in a["variants"]:
                                                for fld in v["fields"]:
                                                    if fld["name"] == name and (M.adts_in_type(fx, fld["ty"]) & bearing):
                                                        gated.append("%s.%s" % (adt, name))
                            tt = f.blocks[b]["t"]
                            if tt[0] == "call" and ("ptr" in tt[1] or tt[1].get("d", "").endswith(("FnMut::call_mut", "Fn::call", "FnOnce::call_once"))):
                                gated.append("visitor call")
                    ok = not gated
                    ck.instance("G1c.trace-unconditional", ident, F.short_span(f.span), ok=ok)
                    if not ok:
                        ck.finding("G1c.trace-unconditional", "G1c.trace-unconditional/%s/%s" % (f.path, sorted(set(gated))[0]), F.short_span(f.span),
                                   "the tracer visits %s only under a condition on %s: an object referenced only from there is reclaimed while the condition is false"
                                   % (", ".join(sorted(set(gated))), why))

    # ---------------- G2
    ck.rule("G2.register-writers", "only the designated functions write or mutably borrow BytecodeVM.registers", floor=6)
    for f in fx.fns.values():
        w = []
        for bl in f.blocks:
            for s in bl["s"]:
                if s[0] == "a":
                    fl = F.place_fields(s[1])
                    if fl and fl[0][0] == VM and fl[0][2] == "registers":
                        w.append(s[3])
                    if s[2][0] == "ref" and s[2][1] is True:
                        fl = F.place_fields(s[2][2])
                        if fl and fl[0][0] == VM and fl[0][2] == "registers":
                            w.append(s[3])
        if not w:
            continue
        ok = f.parent in REGISTER_WRITERS or M.only_called_from(fx, f.parent, set(REGISTER_WRITERS))
        ck.instance("G2.register-writers", f.parent, F.short_span(w[0]), ok=ok)
        if not ok:
            ck.finding("G2.register-writers", "G2.register-writers/" + f.parent, F.short_span(w[0]),
                       "`%s` writes the register file directly, bypassing set_reg: register_guard no longer holds one root per object-holding register" % f.parent)
    sr = fx.fns.get("interpreter::bytecode_vm::BytecodeVM::set_reg")
    if ck.anchor(sr is not None, "BytecodeVM::set_reg"):
        g = u = False
        for bi, t in sr.calls():
            if t[2] and t[2][0][0] in ("c", "m"):
                fl = E.field_of_ref(sr, t[2][0][1][0])
                if fl and fl[2] == "register_guard":
                    if t[1].get("d") == "gc::Guard::<T>::guard":
                        g = True
                    if t[1].get("d") == "gc::Guard::<T>::unguard":
                        u = True
        ck.instance("G2.register-writers", "set_reg guards the new value and unguards the old one", F.short_span(sr.span), ok=g and u)
        if not (g and u):
            ck.finding("G2.register-writers", "G2.set_reg-discipline", F.short_span(sr.span),
                       "set_reg no longer %s through register_guard" % ("guards the stored object" if not g else "unguards the overwritten object"))
    for p in REGISTER_WRITERS:
        ck.anchor(p in fx.fns, "function " + p)

    # ---------------- G4
    ck.rule("G4.guardflow", "no fresh value is without a live protector at a may-collect call while still in use", floor=300)
    nfn, reports = G.analyse(fx)
    by_fn = {}
    for f, bi, t, x, ua, det in reports:
        by_fn.setdefault(f.parent, []).append((f, bi, t, x, ua, det))
    for f in fx.fns.values():
        if not f.derived and any(G.type_has_guard(fx, t) for t in f.locals):
            ck.instance("G4.guardflow", f.path, None, ok=f.parent not in by_fn)
    # G4d: the same flow analysis seeded with values that were moved out of shared heap state
    ck.rule("G4d.detached", "a Gc-bearing value moved out of mutably borrowed heap state (mem::take / Option::take / pop / remove / drain behind a RefMut) "
            "is guarded before the next call that may collect while it is still in use", floor=3)
    for f, bi, t in G.DETACH_SITES:
        ck.instance("G4d.detached", "%s: %s -> %s" % (f.path, (t[1].get("d") or "").split("::")[-1], fx.tys(f.locals[t[3][0]])), F.short_span(t[6]),
                    ok=not any(r[5] for r in by_fn.get(f.parent, [])))
    for parent, reps in sorted(by_fn.items()):
        f, bi, t, x, ua, det = reps[0]
        names = sorted({(r[0].var_name(r[3]) or "<temporary %s>" % fx.tys(r[0].locals[r[3]])) for r in reps})
        detached = any(r[5] for r in reps)
        rule = "G4d.detached" if detached else "G4.guardflow"
        origin = ("moved out of borrowed heap state, which was all that referenced it" if detached
                  else "from a callee-returned Guarded / local-guard allocation")
        ck.finding(rule, "%s/%s" % (rule, parent), F.short_span(t[6]),
                   "`%s`: %s (%s) has no live guard at the call of `%s` (%d site%s) and is %s: "
                   "a collection there resets an object the native still uses"
                   % (parent, ", ".join(names), origin, (t[1].get("d") or "<fn pointer>").split("::")[-1], len(reps), "s" if len(reps) > 1 else "",
                      "used afterwards" if ua else "passed to that call"),
                   {"sites": [F.short_span(r[2][6]) for r in reps]})
    ctl = F.load_fixture()
    cn, cout = G.analyse(ctl)
    bad = {r[0].path for r in cout}
    if "c02::unrooted_accumulator" not in bad or "c02::rooted_accumulator" in bad:
        ck.closed_fail.append("G4 control failed: fixture reports %s" % sorted(bad))
    if "c02::detached_unrooted" not in bad or bad & {"c02::detached_rooted_by_helper", "c02::detached_rooted_by_loop"}:
        ck.closed_fail.append("G4d control failed: fixture reports %s" % sorted(bad))
    ck.note("G4 analysed %d functions that hold guards; positive control reported %s" % (nfn, sorted(bad)))
    ck.assume("values read from parameters, interpreter fields or heap objects are rooted by the caller / the heap (not tracked)")
    ck.assume("every call through a function pointer may collect")
    # ---------------- G5 a suspended VM is re-rooted when it is rebuilt (same rule as C07 R3b)
    import c07
    c07.rerooting_rule(fx, ck, "G5.rerooting-symmetric")
    guard_coherence(fx, ck)
    thrown_rooted(fx, ck)
    cn3 = Check("C02", tier, "", [])
    thrown_rooted(ctl, cn3, prefix="c02::")
    if not any(fd[0] == "G6.thrown-rooted" for fd in cn3.findings):
        ck.closed_fail.append("G6 control failed: the fixture rethrow of a guard-less completion was not reported")
    cn2 = Check("C02", tier, "", [])
    guard_coherence(ctl, cn2, prefix="c02::")
    if not any(fd[0] == "G5b.guard-coherence" for fd in cn2.findings):
        ck.closed_fail.append("G5b control failed: the fixture frame rooted in a foreign guard was not reported")
    # ---------------- G4e accumulators across collection points
    import accum
    ck.rule("G4e.accumulator-rooted", "a local Vec<JsValue> filled, turn by turn, with the results of calls that may collect guards what it has gathered so far", floor=4)
    for f4, sp4, ok4, prod4 in accum.rule(fx, lambda g: g.file.startswith(("src/interpreter", "src/value"))):
        ck.instance("G4e.accumulator-rooted", "%s: push of a value produced by %s in the same loop" % (f4.path, prod4.split("::")[-1]), F.short_span(sp4), ok=ok4)
        if not ok4:
            ck.finding("G4e.accumulator-rooted", "G4e.accumulator-rooted/%s" % (f4.parent if f4.closure else f4.path), F.short_span(sp4),
                       "`%s` gathers the results of `%s` in a local vector and calls it again without guarding what it has gathered: the objects of earlier turns are "
                       "referenced by nothing the collector sees (`[...gen()]` of fresh objects gives references to a reused slot under GC pressure)" % (f4.path, prod4.split("::")[-1]))
    got4 = sorted((f4.path.split("::")[-1], ok4) for f4, sp4, ok4, prod4 in accum.rule(ctl, lambda g: g.path.startswith("c02::"), vec_ty="Vec<value::JsValue>",
                                                                                    guard_suffix="Guard::<T>::guard"))
    if got4 != [("bad_collect", False), ("good_collect", True)]:
        ck.closed_fail.append("G4e control failed: fixture gives %s" % got4)
    # ---------------- G7 what the host holds is rooted by what the host holds
    ck.rule("G7.host-values-guarded", "outside the C API (see C17 R4) `RuntimeValue::unguarded` is applied only where the value is known not to be an object "
            "(a non-Object arm of a match on it, or a primitive built on the spot)", floor=1)
    n7 = 0
    for f7, t7, ok7 in host_values(fx, lambda g: g.file.startswith("src/") and not g.file.startswith("src/ffi")):
        n7 += 1
        ck.instance("G7.host-values-guarded", "%s: RuntimeValue::unguarded" % f7.path, F.short_span(t7[6]), ok=ok7)
        if not ok7:
            ck.finding("G7.host-values-guarded", "G7.host-values-guarded/%s" % (f7.parent if f7.closure else f7.path), F.short_span(t7[6]),
                       "`%s` hands a value that may be an object to the host as `RuntimeValue::unguarded`: once the script has moved on nothing roots it, and the host "
                       "reads back a reset (or reused) object from an `Order.payload` it still holds" % f7.path)
    ck.anchor(n7 >= 1, "RuntimeValue::unguarded call sites outside src/ffi (found %d)" % n7)
    got7 = sorted((f.path.split("::")[-1], ok) for f, t, ok in host_values(ctl, lambda g: g.path.startswith("c02host::") and not g.path.startswith("c02host::RuntimeValue"),
                                                                               ctor="c02host::RuntimeValue::unguarded"))
    if got7 != [("bad_payload", False), ("good_payload", True)]:
        ck.closed_fail.append("G7 control failed: fixture gives %s" % got7)
    return ck.finish()


def guard_coherence(fx, ck, name="G5b.guard-coherence", prefix=""):
    """G5b: a structure that owns a guard roots its own values.

    A value copied for a structure with `f(&guard)` (duplicate, guard_value, ...) lives as long as *that* guard.  Where a function builds an
    aggregate that holds a `Guard` by value (a trampoline frame with its `register_guard`, a VM with its guard) every other field that was
    rooted through a local guard must have been rooted through the guard the aggregate keeps: a value rooted in a neighbour's guard (the guard
    of the VM while building a caller frame) loses its root when the neighbour releases it."""
    from c09 import ancestors
    ck.rule(name, "fields of an aggregate that owns a Guard are rooted through that guard, not through another local guard", floor=1)
    for p, f in sorted(fx.fns.items()):
        if prefix and not p.startswith(prefix):
            continue
        gl = {i for i, t in enumerate(f.locals) if fx.tys(t).startswith("gc::Guard<") or fx.tys(t).startswith("c02::Guard")}
        # guards of the enclosing function seen from inside a closure: `&Guard` read out of the closure environment
        upvar_guards = set()
        if f.closure:
            for bi0, bl0 in enumerate(f.blocks):
                for s0 in bl0["s"]:
                    if s0[0] == "a" and not s0[1][1] and fx.tys(f.locals[s0[1][0]]).startswith("&gc::Guard<"):
                        for pl in F.rvalue_places(s0[2]):
                            if any(str(a).startswith("closure:") for a, v, n in F.place_fields(pl)):
                                upvar_guards.add(s0[1][0])
        if len(gl) + len(upvar_guards) < 2 or not gl:
            continue
        for bi, bl in enumerate(f.blocks):
            for s in bl["s"]:
                if s[0] != "a" or s[2][0] != "agg" or s[2][1].get("k") != "adt":
                    continue
                ops = s[2][2]
                fields = s[2][1].get("fields") or []
                own = set()
                own_ops = set()
                for oi, o in enumerate(ops):
                    if o[0] in ("c", "m") and not o[1][1] and o[1][0] in gl:
                        own_ops.add(oi)
                        l = o[1][0]
                        for _ in range(8):     # the guard may be moved through temporaries
                            own.add(l)
                            ds = [d for d in f.defs().get(l, []) if d[1] != "T" and d[2][0] == "use" and d[2][1][0] in ("c", "m")
                                  and not d[2][1][1][1] and d[2][1][1][0] in gl]
                            if len(ds) == 1 and len(f.defs().get(l, [])) == 1:
                                l = ds[0][2][1][1][0]
                            else:
                                break
                if not own:
                    continue
                # G5c: a register file the aggregate takes over (a Vec<JsValue> field) is rooted through the aggregate's own guard: some
                # `own_guard.guard(obj)` in this function guards an object that comes out of the same source as that field
                for i, o in enumerate(ops):
                    if o[0] not in ("c", "m") or i in own_ops or "Vec<value::JsValue>" not in fx.tys(f.locals[o[1][0]]).replace("std::vec::", ""):
                        continue
                    src = ancestors(f, o[1][0]) - gl
                    # only state at rest that is being brought back to life: the register file comes out of a `Saved*` record, which holds no guard of
                    # its own (a live frame's registers travel together with the guard that already roots them; fresh files hold no objects)
                    if not any("Saved" in fx.tys(f.locals[l]) for l in src):
                        continue
                    rooted = False
                    for b2, t2 in f.calls():
                        if (t2[1].get("d") or "").endswith("Guard::<T>::guard") and len(t2[2]) >= 2 and t2[2][0][0] in ("c", "m") and t2[2][1][0] in ("c", "m"):
                            if ancestors(f, t2[2][0][1][0]) & own and ancestors(f, t2[2][1][1][0]) & src:
                                rooted = True
                        # a rooting helper: `guard_values(&frame_guard, &saved.registers)` - a local function handed the own guard and the values
                        elif t2[1].get("local") and len(t2[2]) >= 2 and not (t2[1].get("d") or "").endswith(("::clone", "cheap_clone")):
                            gi = [a for a in t2[2] if a[0] in ("c", "m") and "gc::Guard<" in fx.tys(f.locals[a[1][0]]) and ancestors(f, a[1][0]) & own]
                            vi = [a for a in t2[2] if a[0] in ("c", "m") and a not in gi and ancestors(f, a[1][0]) & src]
                            if gi and vi:
                                rooted = True
                    fld = fields[i] if i < len(fields) else str(i)
                    ck.instance(name, "%s: %s.%s (register file) rooted through the aggregate's guard" % (p, s[2][1].get("p", "?").split("::")[-1], fld), F.short_span(s[3]), ok=rooted)
                    if not rooted:
                        ck.finding(name, "%s/%s/%s.%s/unrooted" % (name, p, s[2][1].get("p", "?").split("::")[-1], fld), F.short_span(s[3]),
                                   "`%s` builds a `%s` that takes over the register file `%s` without guarding its objects in the guard the structure keeps: they are rooted, "
                                   "if at all, by a neighbour's guard and lose the root when that guard is released (a caller frame's registers after the resumed callee returns)"
                                   % (p, s[2][1].get("p", "?").split("::")[-1], fld))
                for i, o in enumerate(ops):
                    if o[0] not in ("c", "m"):
                        continue
                    if i in own_ops:
                        continue
                    anc = ancestors(f, o[1][0])
                    used = (anc & (gl | upvar_guards))
                    if not used or anc & own & used:
                        if used:
                            ck.instance(name, "%s: %s.%s rooted through the aggregate's guard" % (p, s[2][1].get("p", "?").split("::")[-1],
                                                                                                  fields[i] if i < len(fields) else i), F.short_span(s[3]))
                        continue
                    fld = fields[i] if i < len(fields) else str(i)
                    other = sorted(f.var_name(g) or ("a guard captured from the enclosing function" if g in upvar_guards else "_%d" % g) for g in used)
                    mine = sorted(f.var_name(g) or ("_%d" % g) for g in own)
                    ck.instance(name, "%s: %s.%s rooted through %s" % (p, s[2][1].get("p", "?").split("::")[-1], fld, other), F.short_span(s[3]), ok=False)
                    ck.finding(name, "%s/%s/%s.%s" % (name, p, s[2][1].get("p", "?").split("::")[-1], fld), F.short_span(s[3]),
                               "`%s` builds a `%s` that keeps the guard `%s`, but roots its field `%s` through the other guard `%s`: the value loses its "
                               "root as soon as that guard is released or cleared, while the structure still refers to it"
                               % (p, s[2][1].get("p", "?").split("::")[-1], ",".join(mine), fld, ",".join(other)))



def thrown_rooted(fx, ck, name="G6.thrown-rooted", prefix=""):
    """G6: a thrown value carries its own root.

    An error unwinds through frames whose guards are released on the way, and handlers may allocate before the value reaches a register again,
    so the code base gives every `JsError::ThrownValue` a `Guarded` that owns a guard (`Guarded::from_value`).  The rule follows the `guarded`
    operand of every ThrownValue construction back to its producers - through moves, `Option` payloads, `take()` of a storage slot and from there
    to every writer of that slot (`PendingCompletion::Throw(..)`, `exception_value = Some(..)`) - and reports a producer that builds
    `Guarded { value, guard: None }` for a value that may be an object."""
    from c09 import ancestors
    ck.rule(name, "the Guarded of every JsError::ThrownValue is produced with a guard (directly or through every writer of the slot it is taken from)", floor=3)

    def is_none_op(f, op):
        if op[0] not in ("c", "m"):
            return False
        d = M.trace_back(f, op[1][0])
        return bool(d and d[1] != "T" and d[2][0] == "agg" and d[2][1].get("p", "").endswith("option::Option") and d[2][1].get("v") == "None")

    def non_object_blocks(f):
        out = set()
        for sw in M.enum_switches(fx, f):
            if not sw[1].endswith("JsValue"):
                continue
            for var, tgt in sw[3].items():
                if var != "Object":
                    out |= M.dominated_region(f, tgt)
            if "Object" in sw[3] and sw[4] is not None and sw[4] != sw[3]["Object"]:
                out |= M.dominated_region(f, sw[4])
        return out

    unrooted = {}     # fn path -> [(block, stmt)] Guarded aggregates without a guard for a possibly-object value
    for p, f in fx.fns.items():
        if prefix and not p.startswith(prefix):
            continue
        nob = None
        for bi, bl in enumerate(f.blocks):
            for s in bl["s"]:
                if s[0] == "a" and s[2][0] == "agg" and s[2][1].get("k") == "adt" and s[2][1].get("p", "").endswith("value::Guarded"):
                    fields = s[2][1].get("fields") or []
                    if "guard" in fields and is_none_op(f, s[2][2][fields.index("guard")]):
                        if nob is None:
                            nob = non_object_blocks(f)
                        if bi in nob:
                            continue
                        # the value operand is a constant / primitive constructor?
                        vop = s[2][2][fields.index("value")]
                        if vop[0] == "k":
                            continue
                        dv = M.trace_back(f, vop[1][0])
                        if dv and dv[1] != "T" and dv[2][0] == "agg" and dv[2][1].get("p", "").endswith("JsValue") and dv[2][1].get("v") != "Object":
                            continue
                        unrooted.setdefault(p, []).append((bi, s))
    # producers: functions/closures whose return value may be such an aggregate
    bad_prod = {}
    for p, sites in unrooted.items():
        f = fx.fns[p]
        anc0 = ancestors(f, 0)
        for bi, s in sites:
            if s[1][0] == 0 or s[1][0] in anc0:
                bad_prod[p] = F.short_span(s[3])
    # a function that calls a bad closure of its own and returns / stores the result
    def closure_calls(f):
        """locals defined by calling one of f's own closures that is a bad producer"""
        out = {}
        for bi, t in f.calls():
            u = t[1].get("u") or ""
            if u.endswith(("Fn::call", "FnMut::call_mut", "FnOnce::call_once")) and t[2] and t[2][0][0] in ("c", "m"):
                ty = fx.tys(f.locals[t[2][0][1][0]])
                for cp in bad_prod:
                    if fx.fns[cp].closure and fx.fns[cp].parent == (f.parent if f.closure else f.path) and cp.split("::")[-1] in ty.replace("{closure#", "{closure#"):
                        out[t[3][0]] = cp
                # type strings name closures by span, not index: match by parent only
                for cp in bad_prod:
                    if fx.fns[cp].closure and fx.fns[cp].parent == (f.parent if f.closure else f.path) and "closure" in ty:
                        out.setdefault(t[3][0], cp)
            d = t[1].get("d")
            if d in bad_prod and not fx.fns[d].closure:
                out[t[3][0]] = d
        return out

    def classify(f, op, depth=0, seen=None):
        """set of tags for the origins of a Guarded operand"""
        seen = seen if seen is not None else set()
        if op[0] not in ("c", "m") or depth > 14:
            return {"good"}
        local, proj = op[1][0], op[1][1]
        fl = [e for e in proj if isinstance(e, list) and e[0] == "f"]
        for e in fl:
            if e[3] and e[3].endswith("PendingCompletion") and e[4] == "Throw":
                return {"store:PendingCompletion::Throw"}
            if e[2] == "exception_value":
                return {"store:exception_value"}
            if e[3] and e[3].endswith("JsError") and e[2] == "guarded":
                return {"payload"}
            if e[2] == "pending_completion":
                return {"store:PendingCompletion::Throw"}
        if (local, len(proj)) in seen:
            return set()
        seen.add((local, len(proj)))
        if 1 <= local <= f.argc and not f.defs().get(local):
            return {"param"}
        out = set()
        cc = closure_calls(f)
        for bi, si, rv in f.defs().get(local, []):
            if si == "T":
                if local in cc:
                    out.add("bad:%s" % cc[local])
                    continue
                d = rv[1].get("d") or ""
                u = rv[1].get("u") or ""
                if d.endswith(("Option::<T>::take", "mem::take", "mem::replace", "Option::<T>::unwrap", "Option::<T>::expect", "Option::<T>::map",
                               "Option::<T>::unwrap_or_else", "Option::<T>::ok_or_else", "Clone::clone")) and rv[2] and rv[2][0][0] in ("c", "m"):
                    out |= classify(f, rv[2][0], depth + 1, seen)
                else:
                    out.add("good")
            elif rv[0] == "use":
                out |= classify(f, rv[1], depth + 1, seen)
            elif rv[0] == "ref":
                out |= classify(f, ["c", rv[2]], depth + 1, seen)
            elif rv[0] == "agg":
                if rv[1].get("p", "").endswith("value::Guarded"):
                    bad = any(sx[1][0] == local and bx == bi for bx, sx in unrooted.get(f.path, []))
                    out.add("bad:%s" % f.path if bad else "good")
                elif rv[1].get("p", "").endswith("option::Option") and rv[2]:
                    out |= classify(f, rv[2][0], depth + 1, seen)
                else:
                    out.add("good")
            else:
                out.add("good")
        return out or {"good"}

    # writers of the two storage slots
    writers = {"store:PendingCompletion::Throw": [], "store:exception_value": []}
    for p, f in fx.fns.items():
        if prefix and not p.startswith(prefix):
            continue
        for bi, bl in enumerate(f.blocks):
            for s in bl["s"]:
                if s[0] != "a":
                    continue
                if s[2][0] == "agg" and s[2][1].get("p", "").endswith("PendingCompletion") and s[2][1].get("v") == "Throw" and s[2][2]:
                    writers["store:PendingCompletion::Throw"].append((f, s[2][2][0], s[3]))
                fl = F.place_fields(s[1])
                if fl and fl[-1][2] == "exception_value" and s[2][0] == "use":
                    writers["store:exception_value"].append((f, s[2][1], s[3]))
    wcls = {}
    for st, ws in writers.items():
        bad = []
        for f, op, sp in ws:
            tags = classify(f, op)
            for tg in tags:
                if tg.startswith("bad:"):
                    bad.append((f.path, tg[4:], F.short_span(sp)))
        wcls[st] = bad
    nsink = 0
    for p, f in sorted(fx.fns.items()):
        if prefix and not p.startswith(prefix):
            continue
        for bi, bl in enumerate(f.blocks):
            for s in bl["s"]:
                if not (s[0] == "a" and s[2][0] == "agg" and s[2][1].get("p", "").endswith("JsError") and s[2][1].get("v") == "ThrownValue" and s[2][2]):
                    continue
                nsink += 1
                tags = classify(f, s[2][2][0])
                bad = [tg[4:] for tg in tags if tg.startswith("bad:")]
                via = None
                for tg in tags:
                    if tg.startswith("store:") and wcls.get(tg):
                        via = (tg[6:], wcls[tg][0])
                ok = not bad and via is None
                ck.instance(name, "%s: ThrownValue <- %s" % (p, ",".join(sorted(t_.split(":")[0] + (":" + t_.split(":", 1)[1].split("::")[-1] if ":" in t_ else "")
                                                                                  for t_ in tags))), F.short_span(s[3]), ok=ok)
                if bad:
                    ck.finding(name, "%s/%s" % (name, p), F.short_span(s[3]),
                               "`%s` throws a value whose Guarded is built without a guard (by `%s`): while the error unwinds nothing roots the value" % (p, bad[0]))
                elif via is not None:
                    ck.finding(name, "%s/%s/via-%s" % (name, p, via[0]), F.short_span(s[3]),
                               "`%s` rethrows the Guarded it takes out of `%s` as it is, and `%s` stores one there that `%s` built with `guard: None` (%s): "
                               "the value is rooted only by the frame that is released while the error unwinds"
                               % (p, via[0], via[1][0], via[1][1], via[1][2]))
    ck.anchor(nsink >= 1, ("ctl:" if prefix else "") + "constructions of JsError::ThrownValue")
