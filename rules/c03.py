"""C03 - TypeScript type syntax is erased (back-end clause).

Decided: non-interference of type nodes with code generation and execution.
  R1 outside the parser, the AST module and derived impls, no function reads a field or the
     discriminant of a type-syntax ADT, nor of a field whose declared type contains one
     ("type slot", e.g. `param.type_annotation.is_some()`); so the bytecode is a function of the
     AST minus annotations.
  R2 every `match` arm (outside parser/ast) that selects a variant whose payload is a type-syntax
     ADT (type alias, interface) has an empty body: no calls at all.
The erasable set is computed: ADTs reachable from the type roots minus ADTs reachable from
`Program` with the roots blocked.
Not decided: that the *parser* yields the same non-type AST with and without annotations.
"""
from common import Check
import facts as F
import mir as M

TYPE_ROOT_NAMES = ("TypeAnnotation", "TypeParameters", "TypeParameter", "TypeArguments", "InterfaceDeclaration", "TypeAliasDeclaration")
FRONT_END = ("src/parser.rs", "src/ast.rs", "src/lexer.rs")
TRIVIAL_CALLEES = ("std::ops::Try", "core::ops::Try", "std::ops::FromResidual")


def erasable(fx, mod="ast::", program="Program"):
    ast = {p for p in fx.adts if p.startswith(mod)}
    edges = M.adt_edges(fx, ast)
    roots = [p for p in ast if p.split("::")[-1] in TYPE_ROOT_NAMES]
    prog = mod + program
    R = M.reach(edges, roots)
    P = M.reach(edges, [prog], blocked=set(roots))
    return roots, R - P, R, P


def front_end(f):
    return f.file.endswith(FRONT_END)


def slot_type_is_type_syntax(fx, er, adt, variant, fname):
    a = fx.adts.get(adt)
    if not a:
        return False
    for v in a["variants"]:
        if variant is not None and v["name"] != variant:
            continue
        for fld in v["fields"]:
            if fld["name"] == fname:
                return bool(M.adts_in_type(fx, fld["ty"]) & er)
    return False


def transported_only(fx, er, f, local, depth=0):
    """True iff the value in `local` (a whole type slot, or a reference to one) is only carried:
    cloned, moved, stored into another type slot of an aggregate, or dropped - never inspected."""
    if depth > 6:
        return False
    for bl in f.blocks:
        for s in bl["s"]:
            if s[0] != "a":
                continue
            rv = s[2]
            used = [p for p in F.rvalue_places(rv) if p[0] == local]
            if not used:
                continue
            if any(p[1] and p[1] != ["*"] for p in used):
                return False  # looks inside
            if rv[0] in ("use", "ref") and not s[1][1]:
                if not transported_only(fx, er, f, s[1][0], depth + 1):
                    return False
                continue
            if rv[0] == "agg" and rv[1].get("k") == "adt":
                names = rv[1]["fields"]
                for i, op in enumerate(rv[2]):
                    if op[0] in ("c", "m") and op[1][0] == local:
                        if i >= len(names) or not slot_type_is_type_syntax(fx, er, rv[1]["p"], rv[1]["v"], names[i]):
                            return False
                continue
            if rv[0] == "use" and s[1][1]:
                # store into a field: must itself be a type slot
                fe = [e for e in s[1][1] if isinstance(e, list) and e[0] == "f"]
                if fe and (fe[-1][3] in er or (M.adts_in_type(fx, fe[-1][5]) & er)):
                    continue
                return False
            return False
        t = bl["t"]
        if t[0] == "call":
            if any(a[0] in ("c", "m") and a[1][0] == local for a in t[2]):
                d = t[1].get("d", "")
                if d.endswith("clone::Clone>::clone") or "as std::clone::Clone>::clone" in d:
                    if t[3][1] or not transported_only(fx, er, f, t[3][0], depth + 1):
                        return False
                else:
                    return False
        elif t[0] == "switch" and t[1][0] in ("c", "m") and t[1][1][0] == local:
            return False
    return True


def type_reads(fx, er, skip_front=True):
    """(fn, place-kind, adt, field, span) for every read of erasable data"""
    out = []
    for f in fx.fns.values():
        if f.derived or (skip_front and front_end(f)):
            continue
        if f.impl_trait and f.impl_trait.endswith(("ops::Drop", "clone::Clone", "fmt::Debug")):
            continue
        for bi, kind, place, sp in M.all_places(f):
            if kind == "d":
                continue
            for e in place[1]:
                if isinstance(e, list) and e[0] == "f":
                    adt, fname, fty = e[3], e[2], e[5]
                    hit = None
                    if adt in er:
                        hit = "field `%s.%s` of a type-syntax node" % (adt, fname)
                    elif adt in fx.adts and (M.adts_in_type(fx, fty) & er):
                        hit = "type slot `%s.%s`" % (adt, fname)
                    if hit and adt not in er and e is place[1][-1] and kind in ("b", "r"):
                        # whole-slot transport (clone/move into another type slot) is not a read
                        dst = None
                        for s2 in f.blocks[bi]["s"]:
                            if s2[0] == "a" and s2[3] == sp and not s2[1][1] and place in F.rvalue_places(s2[2]):
                                dst = s2[1][0]
                        if dst is not None and transported_only(fx, er, f, dst):
                            hit = None
                    if hit:
                        out.append((f, kind, adt, fname, sp, hit))
            # discriminant read of a local whose type is erasable
        for bl in f.blocks:
            for s in bl["s"]:
                if s[0] == "a" and s[2][0] == "disc":
                    t = fx.ty(s[2][2])
                    if t["k"] == "adt" and t["p"] in er:
                        out.append((f, "r", t["p"], "<discriminant>", s[3], "discriminant of type-syntax node `%s`" % t["p"]))
    return out


def type_only_arms(fx, er, skip_front=True):
    """(fn, enum, variant, nonempty-callees, span)"""
    out = []
    for f in fx.fns.values():
        if f.derived or (skip_front and front_end(f)):
            continue
        if f.impl_trait and f.impl_trait.endswith(("ops::Drop", "clone::Clone", "fmt::Debug")):
            continue
        for bi, enum, place, arms, other, rest in M.enum_switches(fx, f):
            adt = fx.adts.get(enum)
            if adt is None:
                continue
            for v in adt["variants"]:
                if not v["fields"]:
                    continue
                pay = set()
                for fld in v["fields"]:
                    pay |= M.adts_in_type(fx, fld["ty"])
                pay &= set(fx.adts)
                if not pay or not pay <= er:
                    continue
                tgt = arms.get(v["name"])
                if tgt is None:
                    continue
                # an arm shared with value-carrying variants is not a type-only arm
                sharers = [n for n, b in arms.items() if b == tgt]
                shared_ok = True
                for n in sharers:
                    vv = next(x for x in adt["variants"] if x["name"] == n)
                    p2 = set()
                    for fld in vv["fields"]:
                        p2 |= M.adts_in_type(fx, fld["ty"])
                    p2 &= set(fx.adts)
                    if vv["fields"] and not (p2 and p2 <= er):
                        shared_ok = False
                preds = f.preds()[tgt]
                region = M.dominated_region(f, tgt) if all(p == bi for p in preds) else {tgt}
                calls = []
                for b in region:
                    t = f.blocks[b]["t"]
                    if t[0] == "call":
                        d = t[1].get("d", "<fn pointer>")
                        if not d.startswith(TRIVIAL_CALLEES) and "as std::ops::Try" not in d and "as std::ops::FromResidual" not in d:
                            calls.append(d)
                out.append((f, enum, v["name"], calls, shared_ok, f.blocks[bi]["t"][4]))
    return out


# Modifier flags that TypeScript erases (handbook: optional members, readonly, accessibility and abstract generate no JavaScript).
# FunctionParam.accessibility / readonly are NOT here: on constructor parameters they declare parameter properties (C04).
STATIC_FLAGS = {
    ("ast::FunctionParam", "optional"),
    ("ast::ClassDeclaration", "abstract_"),
    ("ast::ClassMethod", "accessibility"),
    ("ast::ClassProperty", "readonly"),
    ("ast::ClassProperty", "optional"),
    ("ast::ClassProperty", "accessibility"),
    ("ast::ClassConstructor", "accessibility"),
}


def static_flag_reads(fx, skip_front=True):
    out = []
    for f in fx.fns.values():
        if f.derived or (skip_front and front_end(f)):
            continue
        for bi, kind, pl, sp in M.all_places(f):
            if kind not in ("r", "b"):
                continue
            for (adt, var, fld) in F.place_fields(pl):
                if (adt, fld) in STATIC_FLAGS:
                    out.append((f, adt, fld, sp))
    return out


def run(tier):
    ck = Check("C03", tier, "computed erasable-ADT set (type-graph reachability) + who-may-read rule over every MIR place projection + match-arm emptiness",
               ["that the grammar as a whole yields the same non-type AST with and without annotations (speculative parsing is value dependent); "
                "only the agreement of identifier-like token-kind sets is decided (R4)",
                "value-level flags such as `declare`, accessibility or `readonly` modifiers"])
    fx = F.load("A")
    ck.configs.append("A: cargo +nightly check --lib --features c-api")
    roots, er, R, P = erasable(fx)
    ck.anchor(len(roots) >= 5, "type-syntax root ADTs in ast:: (%s)" % ", ".join(sorted(r.split("::")[-1] for r in roots)))
    ck.anchor("ast::Program" in fx.adts, "ast::Program")
    ck.rule("R0.erasable", "type-syntax ADTs = reachable(type roots) - reachable(Program, roots blocked)", floor=25)
    for p in sorted(er):
        ck.instance("R0.erasable", p, F.short_span(fx.adts[p]["span"]))

    ck.rule("R1.no-type-reads", "no function outside parser/ast/derives reads a type-syntax node or a type slot (zero expected)", floor=300)
    n_fn = 0
    for f in fx.fns.values():
        if not f.derived and not front_end(f):
            n_fn += 1
            ck.instance("R1.no-type-reads", f.path, None, nontrivial=True)
    for f, kind, adt, fname, sp, hit in type_reads(fx, er):
        ck.finding("R1.no-type-reads", "R1.no-type-reads/%s/%s.%s" % (f.parent, adt, fname), F.short_span(sp),
                   "`%s` reads %s: type syntax can influence generated code or execution" % (f.parent, hit))

    # R1b static-only modifier flags on value-carrying nodes (zero expected)
    ck.rule("R1b.no-static-flag-reads", "no function outside parser/ast/derives reads a purely static modifier flag (optional / readonly / accessibility / "
                                        "abstract on class members, optional on parameters)", floor=300)
    nflag = 0
    for f, adt, fld, sp in static_flag_reads(fx):
        nflag += 1
        ck.finding("R1b.no-static-flag-reads", "R1b.no-static-flag-reads/%s/%s.%s" % (f.parent, adt.split("::")[-1], fld), F.short_span(sp),
                   "`%s` reads `%s.%s`, a modifier that TypeScript erases: `x?: T;`, `readonly x`, `private x` then generate other code than `x`"
                   % (f.parent, adt.split("::")[-1], fld))
    for f in fx.fns.values():
        if not f.derived and not front_end(f):
            ck.instance("R1b.no-static-flag-reads", f.path, None, nontrivial=False)
    present = {(a, fl["name"]) for a, d in fx.adts.items() for v in d["variants"] for fl in v["fields"]}
    missing = [k for k in STATIC_FLAGS if k not in present]
    ck.anchor(len(missing) <= 2, "static-only modifier fields of the AST (%d of %d present)" % (len(STATIC_FLAGS) - len(missing), len(STATIC_FLAGS)))

    ck.rule("R2.type-only-arms", "match arms selecting a type-only variant (type alias / interface) outside the front end are empty", floor=2)
    for f, enum, var, calls, shared_ok, sp in type_only_arms(fx, er):
        ok = not calls
        ck.instance("R2.type-only-arms", "%s/%s::%s" % (f.parent, enum, var), F.short_span(sp), ok=ok)
        if calls:
            ck.finding("R2.type-only-arms", "R2.type-only-arms/%s/%s::%s" % (f.parent, enum, var), F.short_span(sp),
                       "arm for type-only `%s::%s` in `%s` does work (calls %s)" % (enum, var, f.parent, ", ".join(sorted(set(calls))[:4])))

    # positive control: the fixture crate has a compiler reading an annotation
    ctl = F.load_fixture()
    _, cer, _, _ = erasable(ctl, "ast::")
    creads = type_reads(ctl, cer, skip_front=False)
    creads = [r for r in creads if r[0].path.startswith("backend::")]
    carms = [a for a in type_only_arms(ctl, cer, skip_front=False) if a[3] and a[0].path.startswith("backend::")]
    if not creads:
        ck.closed_fail.append("R1 positive control: annotation read in the fixture back end not reported")
    if not [r for r in static_flag_reads(ctl, skip_front=False) if r[0].path.startswith("backend::")]:
        ck.closed_fail.append("R1b positive control: read of ClassProperty.optional in the fixture back end not reported")
    if not carms:
        ck.closed_fail.append("R2 positive control: non-empty type-only arm in the fixture not reported")
    ck.note("positive control: %d type reads and %d non-empty type-only arms reported in the fixture crate" % (len(creads), len(carms)))
    ck.assume("erasable nodes are reachable only through fields (no side tables keyed by node identity)")
    # ---- R4 front-end clause: identifier-like token kinds are names everywhere Identifier is
    import identkinds
    identkinds.rule(fx, ck)
    # ---------------- R6 built-in type names end a type
    # `string`, `number`, `boolean` ... are ordinary identifiers to the lexer; the type parser turns them into TypeAnnotation::Keyword, which takes no
    # type arguments.  A built-in name that is parsed as a type *reference* instead goes on to `parse_optional_type_arguments`, which commits to an
    # argument list on `<`: `i as number < n` stops parsing.  T-COVER: every variant of the keyword enum is constructed by the parser.
    ck.rule("R6.keyword-types", "every variant of ast::TypeKeywordKind is constructed by the type parser (a built-in type name is not parsed as a type reference)", floor=10)
    kw = "ast::TypeKeywordKind"
    if ck.anchor(kw in fx.adts, "enum " + kw):
        built6 = {}
        for p6, f6 in fx.fns.items():
            if f6.derived or not f6.file.endswith("src/parser.rs"):
                continue
            for bl in f6.blocks:
                for s6 in bl["s"]:
                    if s6[0] == "a" and s6[2][0] == "agg" and isinstance(s6[2][1], dict) and s6[2][1].get("p") == kw:
                        built6.setdefault(s6[2][1].get("v"), s6[3])
        for v6 in fx.adts[kw]["variants"]:
            ok6 = v6["name"] in built6
            ck.instance("R6.keyword-types", "TypeKeywordKind::%s" % v6["name"], F.short_span(built6.get(v6["name"])) if ok6 else None, ok=ok6)
            if not ok6:
                ck.finding("R6.keyword-types", "R6.keyword-types/%s" % v6["name"], None,
                           "the parser never builds TypeKeywordKind::%s: the type name `%s` is parsed as a type reference, which commits to a type-argument "
                           "list on `<` - `x as %s < y` is a SyntaxError while `x < y` runs" % (v6["name"], v6["name"].lower(), v6["name"].lower()))
    # ---------------- R5 a modifier word is consumed only behind a look-ahead
    import modlook
    ck.rule("R5.modifier-lookahead", "static / abstract / public / private / protected / readonly / accessor / async / declare / get / set are consumed in front of a member, "
            "type-member or parameter name only behind a one-token look-ahead (followed by `(` `=` `;` `:` the word is the name itself)", floor=10)
    res, pk, wr = modlook.sites(fx, lambda g: g.file.endswith("src/parser.rs"))
    ck.anchor(len(pk) >= 1, "look-ahead helpers of the parser (checkpoint / next_token / restore without advancing): %s" % sorted(x.split("::")[-1] for x in pk))
    seen5 = set()
    for f, form, w, sp, ok in res:
        ck.instance("R5.modifier-lookahead", "%s: %s of `%s`" % (f.path, form, w), F.short_span(sp), ok=ok)
        key = "R5.modifier-lookahead/%s/%s" % (f.path, w)
        if not ok and key not in seen5:
            seen5.add(key)
            ck.finding("R5.modifier-lookahead", key, F.short_span(sp),
                       "`%s` consumes the word `%s` whenever it is the current token: a member or parameter that is *named* `%s` (`class C { %s() {} }`, `{ %s: T }`) is a SyntaxError; "
                       "the object-literal parser looks one token ahead first" % (f.path, w, w.split("/")[0], w.split("/")[0], w.split("/")[0]))
    resc, pkc, wrc = modlook.sites(F.load_fixture(), lambda g: g.path.startswith("modlook::"), tk="modlook::TokenKind")
    gotc = sorted((f.path.split("::")[-1], ok) for f, form, w, sp, ok in resc)
    if gotc != [("bad_access", False), ("bad_member", False), ("good_access", True), ("good_member", True)]:
        ck.closed_fail.append("R5 control failed: fixture gives %s" % gotc)
    # ---------------- R8 a speculative parser that answers None has consumed nothing
    import specparse
    ck.rule("R8.none-means-nothing-consumed", "in every parser function that restores a lexer checkpoint, no path reaches a `None` answer with tokens consumed before the "
            "checkpoint or since the last restore (typestate: clean / marked / consumed / lost)", floor=5)
    for f8, sp8, ok8, st8 in specparse.sites(fx, lambda g: g.file.endswith("src/parser.rs")):
        ck.instance("R8.none-means-nothing-consumed", "%s: None answer" % f8.path, F.short_span(sp8), ok=ok8)
        if not ok8:
            ck.finding("R8.none-means-nothing-consumed", "R8.none-means-nothing-consumed/%s" % f8.path, F.short_span(sp8),
                       "`%s` can answer None with tokens %s: the caller parses on as if nothing had been read - `let o: { readonly: boolean }` loses the member name "
                       "`readonly` to the mapped-type look-ahead and is a SyntaxError, while the program without the annotation runs" % (f8.path, st8))
    got8 = sorted((f.path.split("::")[-1], ok) for f, sp, ok, st in specparse.sites(F.load_fixture(), lambda g: g.path.startswith("specparse::")))
    if got8 != [("try_bad", False), ("try_good", True)]:
        ck.closed_fail.append("R8 control failed: fixture gives %s" % got8)
    # ---------------- R7 a pre-filter that transcribes a dispatcher's token set has no hole
    import prefilter
    ck.rule("R7.prefilter-covers-dispatcher", "a boolean token-set test that gates a dispatcher and lists at least nine tenths of its token kinds (and little else) lists all of them", floor=5)
    seen7 = set()
    for f7, P7, D7, miss7, sp7 in prefilter.sites(fx, lambda g: g.file.endswith("src/parser.rs")):
        key7 = (f7.path, P7, D7)
        if key7 in seen7:
            continue
        seen7.add(key7)
        ck.instance("R7.prefilter-covers-dispatcher", "%s: %s gates %s" % (f7.path.split("::")[-1], P7.split("::")[-1], D7.split("::")[-1]), F.short_span(sp7), ok=not miss7)
        if miss7:
            ck.finding("R7.prefilter-covers-dispatcher", "R7.prefilter-covers-dispatcher/%s/%s/%s" % (P7.split("::")[-1], D7.split("::")[-1], "+".join(miss7)), F.short_span(sp7),
                       "`%s` is asked before `%s` is reached (in `%s`) and lists the token kinds that function dispatches on, except %s: a construct that begins with such a token "
                       "is never tried (`id<1>(x)` is read as the comparisons `(id < 1) > (x)`)" % (P7.split("::")[-1], D7.split("::")[-1], f7.path.split("::")[-1], ", ".join(miss7)))
    got7 = sorted((f.path.split("::")[-1], bool(miss)) for f, P, D, miss, sp in prefilter.sites(F.load_fixture(), lambda g: g.path.startswith("prefilter::"), tk="prefilter::TokenKind"))
    if got7 != [("bad_gate", True), ("good_gate", False)]:
        ck.closed_fail.append("R7 control failed: fixture gives %s" % got7)
    ck.note("R7 controls: fixture bad_gate (filter lists 10 of the dispatcher's 11 kinds) reported, good_gate (superset) silent")
    return ck.finish()
