"""C11: install/restore pairing of Interpreter.env (and other run-state fields) on all exits."""
import facts as F
import mir as M
import exits as E

INTERP = "interpreter::Interpreter"


def is_env_place(place, field="env"):
    fl = F.place_fields(place)
    return bool(fl) and fl[-1][0] == INTERP and fl[-1][2] == field and isinstance(place[1][-1], list) and place[1][-1][0] == "f"


_entering = {}


def scope_entering_helpers(fx, field="env"):
    """functions that install a new self.<field> and RETURN the previous value (possibly inside a tuple):
    `let (saved, new) = self.enter_scope()` in the caller is an installation whose saved value is the result"""
    key = (id(fx), field)
    if key in _entering:
        return _entering[key]
    out = set()
    _entering[key] = out   # recursion guard: helpers of helpers are not followed
    for g in fx.fns.values():
        if g.closure or g.derived or not g.file.startswith("src/interpreter"):
            continue
        writes = any(s[0] == "a" and is_env_place(s[1], field) and s[2][0] != "ref" for bl in g.blocks if not bl["c"] for s in bl["s"])
        if not writes:
            continue
        sv = saved_locals(g, field, None)
        if not sv:
            continue
        for bl in g.blocks:
            for s in bl["s"]:
                if s[0] == "a" and s[1][0] == 0 and any(o[0] in ("c", "m") and o[1][0] in sv for o in F.rvalue_operands(s[2])):
                    out.add(g.path)
    return out


def saved_locals(f, field="env", fx=None):
    """locals that hold the previous value of self.<field>: clone of it, mem::replace/take result, or the
    result of a scope-entering helper"""
    saved = set()
    if fx is not None:
        helpers = scope_entering_helpers(fx, field)
        for bi, t in f.calls():
            if t[1].get("d") in helpers and t[3] and not t[3][1]:
                saved.add(t[3][0])
    for bi, t in f.calls():
        d = t[1].get("d", "")
        if not t[2] or t[3][1]:
            continue
        a0 = t[2][0]
        if a0[0] not in ("c", "m"):
            continue
        fl = E.field_of_ref(f, a0[1][0])
        if fl and fl[0] == INTERP and fl[2] == field:
            if d.endswith(("clone::Clone>::clone", "cheap_clone")) or d in ("std::mem::replace", "std::mem::take") or d.endswith("Option::<T>::take"):
                saved.add(t[3][0])
    ch = True
    while ch:
        ch = False
        for bl in f.blocks:
            for s in bl["s"]:
                if s[0] == "a" and not s[1][1] and s[1][0] not in saved and s[2][0] in ("use", "agg"):
                    if any(o[0] in ("c", "m") and o[1][0] in saved for o in F.rvalue_operands(s[2])):
                        saved.add(s[1][0])
                        ch = True
        for bi, t in f.calls():
            # Option<Gc>::unwrap / expect / clone of a saved value stays saved
            d = t[1].get("d", "")
            if not t[3][1] and t[3][0] not in saved and t[2] and t[2][0][0] in ("c", "m"):
                src = t[2][0][1][0]
                rl = src
                pl = None
                dd = f.defs().get(src, [])
                if len(dd) == 1 and dd[0][1] != "T" and dd[0][2][0] == "ref":
                    rl = dd[0][2][2][0]
                if rl in saved and (d.endswith(("clone::Clone>::clone", "cheap_clone", "::unwrap", "::take", "::unwrap_or_else")) or "ops::Try" in d):
                    saved.add(t[3][0])
                    ch = True
    return saved


def from_saved_field(f, place, depth=0):
    """the value comes out of a field / parameter whose name says it is a saved environment"""
    if any("saved" in x[2] for x in F.place_fields(place)):
        return True
    base = place[0]
    if 1 <= base <= f.argc and (f.var_name(base) or "").startswith("saved"):
        return True
    if depth > 5:
        return False
    d = f.defs().get(base, [])
    if len(d) != 1:
        return False
    bi, si, rv = d[0]
    if si == "T":
        name = rv[1].get("d", "")
        if rv[2] and rv[2][0][0] in ("c", "m") and name.endswith(("::take", "::clone", "cheap_clone", "::unwrap", "::pop", "::unwrap_or_else", "ops::Try>::branch")):
            fl = E.field_of_ref(f, rv[2][0][1][0])
            if fl and "saved" in fl[2]:
                return True
            return from_saved_field(f, rv[2][0][1], depth + 1)
        return False
    if rv[0] == "use" and rv[1][0] in ("c", "m"):
        return from_saved_field(f, rv[1][1], depth + 1)
    if rv[0] == "ref":
        return from_saved_field(f, rv[2], depth + 1)
    if rv[0] == "agg":
        return any(o[0] in ("c", "m") and from_saved_field(f, o[1], depth + 1) for o in rv[2])
    return False


def fallible(fx, g):
    return bool(g.sig) and fx.tys(g.sig[-1]).startswith(("std::result::Result<", "core::result::Result<"))


def ok_edge_of_try(fx, f, bi, t):
    """a fallible scope-entering helper installs only when it succeeds (its own failing exits are checked to restore): for
    `let (..) = self.enter(..)?` the installation is the Continue edge of the `?`, not the call"""
    g = fx.fns.get(t[1].get("d"))
    if g is None or not fallible(fx, g) or t[3][1]:
        return bi
    res = t[3][0]
    for b2, t2 in f.calls():
        if "ops::Try" in (t2[1].get("d") or "") and (t2[1].get("d") or "").endswith("branch") and t2[2] and t2[2][0][0] in ("c", "m") and t2[2][0][1][0] == res \
                and t2[4] is not None and t2[4] >= 0:
            sw = f.blocks[t2[4]]["t"]
            if sw[0] == "switch":
                cont = next((x for v, x in sw[2] if v == "0"), None)
                if cont is not None:
                    return cont
    return bi


_restorer = {}


def restorer_param(fx, f, local, field):
    """`local` is (a copy of) a by-value parameter of `f`, and every caller passes a saved value of self.<field> for it"""
    import c10
    root = c10.copy_root_local(f, local)
    if not (1 <= root <= f.argc) or f.closure:
        return False
    key = (id(fx), f.path, root, field)
    if key in _restorer:
        return _restorer[key]
    _restorer[key] = False
    sites = [(g, t) for g in fx.fns.values() if not g.derived for _, t in g.calls() if t[1].get("d") == f.path]
    ok = bool(sites)
    for g, t in sites:
        if root - 1 >= len(t[2]):
            ok = False
            break
        a = t[2][root - 1]
        sv = saved_locals(g, field, fx)
        if not (a[0] in ("c", "m") and (a[1][0] in sv or from_saved_field(g, a[1]))):
            ok = False
            break
    _restorer[key] = ok
    return ok


def analyse(fx, f, field="env"):
    """returns (installs, restores, handoffs, saved) with block indices"""
    saved = saved_locals(f, field, fx)
    installs, restores, handoffs = [], [], set()
    # a call of a scope-entering helper is an installation made on this function's behalf
    helpers = scope_entering_helpers(fx, field)
    for bi, t in f.calls():
        if t[1].get("d") in helpers and f.path not in helpers:
            installs.append((ok_edge_of_try(fx, f, bi, t), t[6]))
    for bi, bl in enumerate(f.blocks):
        if bl["c"]:
            continue  # unwind (cleanup) copies of the assignment
        for s in bl["s"]:
            if s[0] != "a":
                continue
            if is_env_place(s[1], field) and s[2][0] != "ref":
                src = None
                if s[2][0] == "use" and s[2][1][0] in ("c", "m"):
                    src = s[2][1][1]
                kind = "install"
                if src is not None:
                    if src[0] in saved or from_saved_field(f, src):
                        kind = "restore"
                    elif not src[1] and restorer_param(fx, f, src[0], field):
                        kind = "restore"    # `finish_run(.., caller_env, ..)`: a helper that puts back what every caller saved
                (installs if kind == "install" else restores).append((bi, s[3]))
            # hand-off of the saved value: stored in an aggregate / interpreter field / returned
            rv = s[2]
            ops = F.rvalue_operands(rv)
            if rv[0] == "agg" and any(o[0] in ("c", "m") and not o[1][1] and o[1][0] in saved for o in ops):
                handoffs.add(bi)
            if s[1][0] == 0 and any(o[0] in ("c", "m") and o[1][0] in saved for o in ops):
                handoffs.add(bi)
            fl = F.place_fields(s[1])
            if fl and fl[-1][0] == INTERP and fl[-1][2] in ("active_saved_env",) and rv[0] != "ref":
                handoffs.add(bi)
        t = bl["t"]
        if t[0] == "call":
            d = t[1].get("d", "")
            if any(a[0] in ("c", "m") and not a[1][1] and a[1][0] in saved for a in t[2]) and t[1].get("local") and not d.endswith(("cheap_clone", "clone")):
                handoffs.add(bi)
            # pushed onto a stack of saved environments (a field whose name says so): the matching pop restores it
            if d.endswith(("Vec::<T, A>::push", "VecDeque::<T, A>::push_back")) and len(t[2]) == 2 and t[2][0][0] in ("c", "m") \
                    and t[2][1][0] in ("c", "m") and not t[2][1][1][1] and t[2][1][1][0] in saved:
                fl = E.field_of_ref(f, t[2][0][1][0])
                if fl and "saved" in fl[2]:
                    handoffs.add(bi)
    # a fallible helper that is lent the saved value (`compile_main_program(.., &mut saved_env)?`) and puts it back itself when it fails: the Err edge of
    # the `?` on its result is closed by the callee (its Ok edge is not)
    for bi, t in f.calls():
        g = fx.fns.get(t[1].get("d") or "")
        if g is None or not t[1].get("local") or not fallible(fx, g) or t[3][1]:
            continue
        lent = None
        for ai, a in enumerate(t[2]):
            if a[0] in ("c", "m") and not a[1][1] and fx.tys(f.locals[a[1][0]]).startswith("&"):
                from c09 import ancestors as _anc
                if _anc(f, a[1][0]) & saved:
                    lent = ai + 1
        if lent is None:
            continue
        # the callee writes self.<field> from what it takes out of that parameter
        import c10
        restores_param = False
        for bl in g.blocks:
            for s in bl["s"]:
                if s[0] == "a" and is_env_place(s[1], field) and s[2][0] == "use" and s[2][1][0] in ("c", "m"):
                    from c09 import ancestors
                    if lent in ancestors(g, s[2][1][1][0]):
                        restores_param = True
        if not restores_param:
            continue
        res = t[3][0]
        for b2, t2 in f.calls():
            if "ops::Try" in (t2[1].get("d") or "") and (t2[1].get("d") or "").endswith("branch") and t2[2] and t2[2][0][0] in ("c", "m") and t2[2][0][1][0] == res \
                    and t2[4] is not None and t2[4] >= 0:
                sw = f.blocks[t2[4]]["t"]
                if sw[0] == "switch":
                    brk = next((x for v, x in sw[2] if v == "1"), None) or sw[3]
                    handoffs.add(brk)
    # mem::replace(&mut self.env, new) is an install whose result is the saved value
    for bi, t in f.calls():
        d = t[1].get("d", "")
        if d == "std::mem::replace" and t[2] and t[2][0][0] in ("c", "m"):
            fl = E.field_of_ref(f, t[2][0][1][0])
            if fl and fl[0] == INTERP and fl[2] == field:
                src = t[2][1]
                if src[0] in ("c", "m") and src[1][0] in saved:
                    restores.append((bi, t[6]))
                else:
                    installs.append((bi, t[6]))
    return installs, restores, handoffs, saved
