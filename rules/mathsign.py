"""C01 R26: the numeric natives keep what IEEE comparisons and Rust's rounding do not.

(a) half-away rounding is not a script operation: `Math.round` rounds halves towards +Infinity and keeps the sign of a zero result, so no function
    of the interpreter calls `f64::round` / `libm::round` / `round_ties_even`, directly or through a local wrapper that is nothing but that call.
(b) `<` and `>` do not order the two zeros: a loop that selects an extreme of doubles by `<` / `>` (an accumulator assigned the compared value
    inside the loop) must also consult the sign (`is_sign_negative`, `is_sign_positive`, `total_cmp`, `copysign`, `signum`, `to_bits`).
"""
import facts as F
import loops as L
import c10 as C10

ROUNDERS = ("f64::<impl f64>::round", "f64::<impl f64>::round_ties_even", "libm::round", "libm::rint", "libm::roundf")
SIGN = ("::is_sign_negative", "::is_sign_positive", "::total_cmp", "::copysign", "::signum", "::to_bits")


def round_wrappers(fx):
    """local functions that are nothing but a half-away rounding call (`prelude::math::round`)"""
    out = set()
    for p, f in fx.fns.items():
        if f.closure or f.derived or len(f.blocks) > 4:
            continue
        if any((t[1].get("d") or "").endswith(ROUNDERS) for _, t in f.calls()):
            out.add(p)
    return out


def round_sites(fx, scope):
    """[(fn, span, callee)] calls of a half-away rounding from script-number code"""
    wr = round_wrappers(fx)
    out = []
    for p, f in sorted(fx.fns.items()):
        if f.derived or not scope(f):
            continue
        for bi, t in f.calls():
            d = t[1].get("d") or ""
            if d.endswith(ROUNDERS) or d in wr:
                out.append((f, t[6], d))
    return out


def is_f64(fx, f, op):
    if op[0] in ("c", "m") and not op[1][1]:
        try:
            return fx.types[f.locals[op[1][0]]]["s"] == "f64"
        except Exception:
            return False
    return False


def extreme_loops(fx, scope):
    """[(fn, span, ok)] loops that pick an extreme of doubles by `<` / `>`"""
    out = []
    for p, f in sorted(fx.fns.items()):
        if f.derived or f.closure or not scope(f):
            continue
        sign = any((t[1].get("d") or "").endswith(SIGN) for _, t in f.calls())
        for header, body in L.natural_loops(f):
            hit = None
            for b in sorted(body):
                for s in f.blocks[b]["s"]:
                    if s[0] == "a" and s[2][0] == "bin" and s[2][1] in ("Lt", "Gt", "Le", "Ge") and is_f64(fx, f, s[2][2]) and is_f64(fx, f, s[2][3]):
                        # the two values compared, seen through the temporaries of the reads
                        srcs = {C10.copy_root_local(f, side[1][0]) for side in (s[2][2], s[2][3])}
                        if len(srcs) != 2:
                            continue
                        # accumulator: one of them is assigned the other inside the loop
                        for a in srcs:
                            for b2 in body:
                                for s2 in f.blocks[b2]["s"]:
                                    if s2[0] == "a" and s2[1][0] == a and not s2[1][1] and s2[2][0] == "use" and s2[2][1][0] in ("c", "m") \
                                            and not s2[2][1][1][1] and C10.copy_root_local(f, s2[2][1][1][0]) in srcs - {a}:
                                        hit = s[3]
            if hit:
                out.append((f, hit, sign))
    return out
