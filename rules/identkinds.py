"""C03 R4 (front-end clause): the parser's beliefs about "which token kinds are names" agree.

The lexer gives TypeScript's contextual keywords (`type from as of namespace module any unknown
never keyof infer is asserts readonly`) their own TokenKind instead of TokenKind::Identifier, and
`Parser::parse_identifier` - the canonical name acceptor - turns them back into names.  Every other
place where the parser tests the token kind and treats `Identifier` as a name must not send one of
those kinds down the same path as a token that can never be a name (the probe is `Eof`):

  A  name sites   a `match` on the current token kind whose Identifier arm keeps the payload as a
                  name, inside a function that returns a value: an identifier-like kind whose path
                  (followed through chained tests of the same token and through boolean kind-set
                  helpers) ends where Eof's path ends, in a region from which no token is consumed
                  any more, is rejected although it is a name;
  B  start sets   a boolean kind-set (`matches!`) that groups Identifier with other kinds (a "may
                  this token start a parameter / member / property name" test): it must put every
                  identifier-like kind on the Identifier side, unless the other side goes on to
                  test the token again.

The reference set is read from parse_identifier's own arms on every run.  A site that compares the
Identifier payload with a fixed word (`Identifier(s) if s == "global"`) is a keyword test, not a
name site, and is skipped.  What is decided is agreement of these finite kind sets - a necessary
condition for "a program and its annotated variant are both accepted" whenever a name spelled like
a contextual keyword meets type syntax - not the grammar as a whole.
"""
import facts as F
import mir as M

TK = "lexer::TokenKind"
PROBE = "Eof"


def place_key(f, place, depth=0):
    """(root local, field names) of a place seen through single-definition borrows and copies"""
    local, proj = place[0], place[1]
    names = tuple(e[2] for e in proj if isinstance(e, list) and e[0] == "f")
    d = f.defs().get(local, [])
    if len(d) == 1 and d[0][1] != "T" and depth < 10:
        rv = d[0][2]
        src = None
        if rv[0] == "ref":
            src = rv[2]
        elif rv[0] == "use" and rv[1][0] in ("c", "m"):
            src = rv[1][1]
        if src is not None:
            r, n = place_key(f, src, depth + 1)
            return r, n + names
    return local, names


def follow(fx, f, b, kind, hcache, switches=None):
    """where token kind `kind` ends when followed from block b through gotos, tests of the current token's
    kind and boolean kind-set helpers (the first block that does anything else)"""
    if switches is None:
        switches = {x[0]: x for x in M.enum_switches(fx, f) if x[1] == TK}
    seen = set()
    while b is not None and b not in seen:
        seen.add(b)
        t = f.blocks[b]["t"]
        if t[0] == "goto" and not any(s[0] == "a" for s in f.blocks[b]["s"]):
            b = t[1]
            continue
        if t[0] == "switch" and b in switches:
            sw = switches[b]
            if place_key(f, sw[2])[1][-1:] == ("kind",):
                b = sw[3].get(kind, sw[4])
                continue
        if t[0] == "call" and t[1].get("d") in fx.fns and t[4] is not None:
            g = fx.fns[t[1]["d"]]
            hs = helper_summary(fx, g, hcache)
            if hs is not None:
                val = hs[0].get(kind, hs[1])
                tt = f.blocks[t[4]]["t"]
                if tt[0] == "switch" and tt[1][0] in ("c", "m") and tt[1][1][0] == t[3][0]:
                    tgt = None
                    for v, tb in tt[2]:
                        if bool(int(v)) == val:
                            tgt = tb
                    b = tgt if tgt is not None else tt[3]
                    continue
        return b
    return b


def ident_like(fx, hcache=None):
    """the token kinds Parser::parse_identifier treats differently from Eof, i.e. accepts as names: followed
    from the function's entry, so the set survives moving the test into a helper"""
    hcache = hcache if hcache is not None else {}
    f = fx.one("parser::Parser::<'a>::parse_identifier")
    tk = fx.adts.get(TK)
    if tk is None:
        return set(), f
    end = follow(fx, f, 0, PROBE, hcache)
    out = set()
    for v in tk["variants"]:
        if follow(fx, f, 0, v["name"], hcache) != end:
            out.add(v["name"])
    return out, f


def consumers(fx):
    """functions from which Lexer::next_token is reachable (anything that may look at more input)"""
    callees, callers = fx.callgraph()
    seeds = [p for p in fx.fns if p.endswith("::next_token") and "exer" in p]
    seen = set()
    work = list(seeds)
    while work:
        x = work.pop()
        if x in seen:
            continue
        seen.add(x)
        work.extend(callers.get(x, ()))
    return seen


def helper_summary(fx, g, cache):
    """for a `fn(&self[, &TokenKind]) -> bool` whose body is one kind-set test: {kind: bool}, default"""
    if g.path in cache:
        return cache[g.path]
    cache[g.path] = None
    if fx.tys(g.locals[0]) != "bool":
        return None
    sw = [x for x in M.enum_switches(fx, g) if x[1] == TK]
    if len(sw) != 1 or any(bl["t"][0] == "call" for bl in g.blocks):
        return None
    bi, et, src, arms, other, rest = sw[0]

    def const_of(b):
        for _ in range(6):
            for s in g.blocks[b]["s"]:
                if s[0] == "a" and s[1][0] == 0 and not s[1][1] and s[2][0] == "use" and s[2][1][0] == "k":
                    v = M.const_int(s[2][1])
                    return None if v is None else bool(v)
            t = g.blocks[b]["t"]
            if t[0] != "goto":
                return None
            b = t[1]
        return None
    summ = {k: const_of(t) for k, t in arms.items()}
    dflt = const_of(other) if other is not None else None
    if any(v is None for v in summ.values()) or dflt is None:
        return None
    cache[g.path] = (summ, dflt)
    return cache[g.path]


class Site:
    def __init__(self, fx, f, sw, cons, hcache):
        self.fx, self.f = fx, f
        self.bi, _, self.src, self.arms, self.other, self.rest = sw
        self.key = place_key(f, self.src)
        self.cons = cons
        self.hcache = hcache
        self.switches = {x[0]: x for x in M.enum_switches(fx, f) if x[1] == TK}

    def step(self, b, kind):
        """follow `kind` from block b through gotos, chained tests of the same token and kind-set helpers"""
        return follow(self.fx, self.f, b, kind, self.hcache, self.switches)

    def outcome(self, kind):
        return self.step(self.arms.get(kind, self.other), kind)

    def const_bool(self, b):
        """the boolean constant block b materialises (matches! arms), with the local it goes to"""
        for s in self.f.blocks[b]["s"]:
            if s[0] == "a" and not s[1][1] and s[2][0] == "use" and s[2][1][0] == "k" and self.fx.tys(self.f.locals[s[1][0]]) == "bool":
                v = M.const_int(s[2][1])
                if v is not None:
                    return s[1][0], bool(v)
        return None

    def consumes_after(self, b):
        """may more input be examined on some path from block b?"""
        f = self.f
        for x in f.reachable_from(b):
            t = f.blocks[x]["t"]
            if t[0] == "call":
                d = t[1].get("d")
                if d is None:
                    return True
                if d in self.cons or self.fx.fns.get(d) is not None and self.fx.fns[d].parent in self.cons:
                    return True
        return False

    def keyword_test(self):
        """the Identifier arm compares its payload with a fixed word and falls back to the common path"""
        f = self.f
        a = self.arms["Identifier"]
        region = M.dominated_region(f, a)
        if len(f.preds()[a]) != 1:
            return False
        for b in sorted(region):
            t = f.blocks[b]["t"]
            if t[0] == "call" and (t[1].get("d", "").endswith(("::eq", "::ne")) or "PartialEq" in (t[1].get("trait") or "") or "PartialEq" in t[1].get("d", "")):
                nb = t[4]
                if nb is None:
                    continue
                tt = f.blocks[nb]["t"]
                if tt[0] == "switch":
                    outs = [tb for _, tb in tt[2]] + [tt[3]]
                    for o in outs:
                        o2 = self.step(o, "Identifier")
                        if o2 is not None and o2 not in region and f.blocks[o2]["t"][0] != "ret":
                            return True
                return False
        return False


# ---------------------------------------------------------------- gates in front of name acceptors (rule C)

def is_parser_fn(fx, d):
    g = fx.fns.get(d)
    return g is not None and g.file.startswith("src/parser") and "Parser" in d


def straight_line(fx, f, b, limit=60):
    """walk from block b along gotos, returns of calls, the Ok arm of `?` and the true arm of a test of
    a boolean call result (`a() && b()`); yields (block, terminator) for every call met, ends at any
    other branch"""
    seen = set()
    last_bool = None
    while b is not None and b not in seen and limit > 0:
        seen.add(b)
        limit -= 1
        t = f.blocks[b]["t"]
        if t[0] == "goto":
            b = t[1]
        elif t[0] == "call":
            yield b, t
            last_bool = t[3][0] if t[3] and not t[3][1] and fx.tys(f.locals[t[3][0]]) == "bool" else None
            b = t[4]
        elif t[0] == "drop":
            b = t[2]
        elif t[0] == "assert":
            b = t[4]
        elif t[0] == "switch":
            arms = dict((v, tb) for v, tb in t[2])
            sw = None
            for st in reversed(f.blocks[b]["s"]):
                if st[0] == "a" and st[2][0] == "disc":
                    sw = st
                    break
            if sw is not None and "ControlFlow" in fx.tys(sw[2][2]) and "0" in arms:
                b = arms["0"]          # `?`: continue on the Ok / Continue arm
                continue
            if t[1][0] in ("c", "m") and not t[1][1][1] and last_bool is not None and t[1][1][0] == last_bool and "0" in arms:
                b = t[3]               # the true arm of `if pred()` / `pred() && ...`
                last_bool = None
                continue
            return
        else:
            return


_adv = {}


def advancers(fx):
    """functions that may move the parser to another token (reach Parser::advance)"""
    if id(fx) not in _adv:
        callees, callers = fx.callgraph()
        seen = set()
        work = [p for p in fx.fns if p.endswith("Parser::<'a>::advance")]
        while work:
            x = work.pop()
            if x in seen:
                continue
            seen.add(x)
            work.extend(callers.get(x, ()))
        _adv[id(fx)] = seen
    return _adv[id(fx)]


def first_production(fx, f, b):
    """the first call, walking straight from b, to a parser function that returns something other than
    bool/unit; None if the parser may have moved to another token before it"""
    adv = advancers(fx)
    for cb, t in straight_line(fx, f, b):
        d = t[1].get("d")
        if d is None or not is_parser_fn(fx, d):
            continue
        g = fx.fns[d]
        rt = fx.tys(g.locals[0])
        if rt in ("bool", "()") or g.path.endswith(("::span_from", "::intern", "::unexpected_token", "::error", "::keyword_to_js_string")):
            if g.parent in adv:
                return None
            continue
        return cb, g
    return None


def acceptors(fx, IL, cons, hcache):
    """parser functions whose first look at the token accepts every identifier-like kind as a name"""
    acc = {}
    for f in fx.fns.values():
        if not f.file.startswith("src/parser") or f.closure:
            continue
        for sw in M.enum_switches(fx, f):
            if sw[1] != TK or "Identifier" not in sw[3]:
                continue
            s = Site(fx, f, sw, cons, hcache)
            if s.keyword_test() or fx.tys(f.locals[0]) == "bool":
                continue
            oe = s.outcome(PROBE)
            if any(s.outcome(k) == oe for k in IL):
                continue
            # entry position: no production is called before the test
            fp = first_production(fx, f, 0)
            if fp is None or f.dominates(sw[0], fp[0]):
                acc[f.path] = "tests the token kind first and accepts all %d identifier-like kinds" % len(IL)
    # transitively: functions that start by calling an acceptor
    ch = True
    while ch:
        ch = False
        for f in fx.fns.values():
            if f.path in acc or not f.file.startswith("src/parser") or f.closure:
                continue
            fp = first_production(fx, f, 0)
            if fp is not None and fp[1].path in acc:
                # nothing may test the token kind before that call
                acc[f.path] = "starts with %s" % fp[1].path.split("::")[-1]
                ch = True
    return acc


def kind_of_arg(f, op, depth=0):
    """the TokenKind variant a `&TokenKind::X` argument names (promoted constant), else None"""
    if op[0] == "k":
        v = (op[2] or {}).get("variant") if isinstance(op[2], dict) else None
        return v.split("::")[-1] if v else None
    if depth > 6:
        return None
    d = f.defs().get(op[1][0], [])
    if len(d) != 1 or d[0][1] == "T":
        return None
    rv = d[0][2]
    if rv[0] == "ref":
        return kind_of_arg(f, ["c", rv[2]], depth + 1)
    if rv[0] == "use":
        return kind_of_arg(f, rv[1], depth + 1)
    return None


def kinds_mentioned(fx, f):
    """token kinds the function tests by name (`check(&TokenKind::X)` and friends, or an explicit match arm)"""
    out = set()
    for g in fx.body_group(f):
        for bi, t in g.calls():
            if is_parser_fn(fx, t[1].get("d", "")):
                for a in t[2][1:]:
                    k = kind_of_arg(g, a)
                    if k:
                        out.add(k)
        for sw in M.enum_switches(fx, g):
            if sw[1] == TK:
                out |= set(sw[3])
    return out


def gates(fx, IL, cons, hcache, acc):
    """(fn, call block, helper, production, missing kinds): a boolean kind test that is true for Identifier,
    whose true branch goes straight to a name acceptor, but that is false for some identifier-like kind"""
    for f in fx.fns.values():
        if not f.file.startswith("src/parser"):
            continue
        for cb, t in f.calls():
            d = t[1].get("d")
            if d not in fx.fns or t[4] is None:
                continue
            hs = helper_summary(fx, fx.fns[d], hcache)
            if hs is None or not hs[0].get("Identifier", hs[1]):
                continue
            missing = sorted(k for k in IL if not hs[0].get(k, hs[1]))
            tt = f.blocks[t[4]]["t"]
            if tt[0] != "switch" or tt[1][0] not in ("c", "m") or tt[1][1][0] != t[3][0]:
                yield f, cb, fx.fns[d], None, missing
                continue
            fp = first_production(fx, f, tt[3])
            yield f, cb, fx.fns[d], (fp[1] if fp else None), missing


# ---------------------------------------------------------------- the reference set against the language
# ECMA-262 (2024) 12.7.2: reserved words, including the words reserved in strict-mode / module code
# (tsrun parses everything as module code).  A word the lexer gives its own token kind that is NOT in
# this list is an ordinary identifier of the language and must remain usable as a name.
ES_RESERVED = set("""await break case catch class const continue debugger default delete do else enum export extends false
finally for function if import in instanceof new null return super switch this throw true try typeof var void while with yield
let static implements interface package private protected public""".split())


def word_kinds(fx):
    """token kinds the identifier scanner of the lexer produces for fixed words: variants built in a lexer
    function that also builds Identifier and holds the variant's spelling as a string constant (its keyword table)"""
    best, scanner = set(), None
    for f in fx.fns.values():
        if not f.file.startswith("src/lexer"):
            continue
        made, strs = set(), set()
        for bl in f.blocks:
            for st in bl["s"]:
                if st[0] != "a":
                    continue
                rv = st[2]
                if rv[0] == "agg" and isinstance(rv[1], dict) and rv[1].get("p") == TK:
                    made.add(rv[1].get("v"))
                for op in ([rv[1]] if rv[0] == "use" else []):
                    v = M.const_str(op)
                    if v is not None:
                        strs.add(v)
            t = bl["t"]
            if t[0] == "call":
                for a in t[2]:
                    v = M.const_str(a)
                    if v is not None:
                        strs.add(v)
        # (the table may be a function of its own - `keyword_kind(name) -> Option<TokenKind>` - that never builds Identifier itself)
        words = {v for v in made if v and v.lower() in strs}
        if len(words) > len(best):
            best, scanner = words, f
    return best, scanner


# ---------------------------------------------------------------- the rule

def rule(fx, ck, name="R4.identifier-kinds"):
    IL, pid = ident_like(fx)
    ck.anchor(len(IL) >= 10 and "Identifier" in IL, "Parser::parse_identifier matches %d token kinds as names (reference set)" % len(IL))
    if "Identifier" not in IL:
        return
    cons = consumers(fx)
    hcache = {}
    ck.rule(name + ".names", "A: a match that keeps the Identifier payload as a name does not send an identifier-like kind down Eof's (rejecting) path", floor=6)
    ck.rule(name + ".sets", "B: a kind set that groups Identifier with other kinds contains every identifier-like kind", floor=3)
    ck.rule(name + ".gates", "C: a boolean kind test placed straight in front of a name acceptor is true for every identifier-like kind the function gives no other meaning", floor=9)
    others = sorted(IL - {"Identifier"})
    # the reference set itself, against the language: non-reserved words with a token kind of their own
    ck.rule(name + ".reference", "every word the lexer gives its own token kind that ECMAScript does not reserve is accepted by parse_identifier", floor=14)
    words, scanner = word_kinds(fx)
    ck.anchor(len(words) >= 40, "keyword table of the lexer's identifier scanner (%d word kinds in %s)" % (len(words), scanner.path if scanner else "?"))
    for w in sorted(words):
        if w.lower() in ES_RESERVED:
            continue
        ok = w in IL
        ck.instance(name + ".reference", "word kind %s" % w, F.short_span(scanner.span), ok=ok)
        if not ok:
            ck.finding(name + ".reference", "%s.reference/%s" % (name, w), F.short_span(pid.span),
                       "the lexer turns the word `%s` into TokenKind::%s, ECMAScript does not reserve it, and parse_identifier does not accept that kind as a name: "
                       "a program that uses `%s` as a variable, parameter or property name is rejected" % (w.lower(), w, w.lower()))
    for f in fx.fns.values():
        if not f.file.startswith("src/parser"):
            continue
        fname = f.parent.split("::")[-1]
        isbool = fx.tys(f.locals[0]) == "bool"
        for sw in M.enum_switches(fx, f):
            if sw[1] != TK or "Identifier" not in sw[3]:
                continue
            s = Site(fx, f, sw, cons, hcache)
            where = F.short_span(f.blocks[sw[0]]["t"][-1]) if isinstance(f.blocks[sw[0]]["t"][-1], str) else F.short_span(f.span)
            oi, oe = s.outcome("Identifier"), s.outcome(PROBE)
            if oi == oe:
                continue
            if s.keyword_test():
                ck.instance(name + ".names", "%s (keyword test: payload compared with a fixed word)" % fname, where)
                continue
            group = sorted(k for k in sw[3] if s.outcome(k) == oi)
            like_eof = [k for k in others if s.outcome(k) == oe]
            cb_i, cb_e = s.const_bool(oi), s.const_bool(oe)
            if cb_i is not None and cb_e is not None and cb_i[0] == cb_e[0] and cb_i[1] != cb_e[1]:
                # a boolean kind set (matches!)
                def val(k):
                    cb = s.const_bool(s.outcome(k))
                    return cb[1] if cb is not None and cb[0] == cb_i[0] else None
                group = sorted(k for k in sw[3] if val(k) == cb_i[1])
                if len(group) < 2:
                    continue      # pure `is it an Identifier token` test; its call sites are judged under C
                missing = [k for k in others if val(k) != cb_i[1]]
                ok = not missing
                ck.instance(name + ".sets", "%s: {Identifier + %d kinds}" % (fname, len(group) - 1), where, ok=ok)
                if not ok:
                    ck.finding(name + ".sets", "%s.sets/%s/%s" % (name, fname, "+".join(missing)), where,
                               "`%s` tests whether the token is one of {%s}: it treats Identifier as a possible name start but not %s, which parse_identifier "
                               "accepts as names; a parameter / member / property spelled that way is parsed differently (or rejected) as soon as type syntax needs this test"
                               % (fname, ", ".join(group[:8]) + (", ..." if len(group) > 8 else ""), ", ".join(missing)))
                continue
            if isbool:
                continue
            # A: a name site in a production
            rejected = [k for k in like_eof if not s.consumes_after(oe)]
            ok = not rejected
            ck.instance(name + ".names", fname, where, ok=ok)
            if not ok:
                ck.finding(name + ".names", "%s.names/%s/%s" % (name, fname, "+".join(rejected)), where,
                           "`%s` takes an Identifier token as a name but sends %s down the same path as Eof (a syntax error): these are names for parse_identifier, "
                           "so a valid program that uses one of them here is rejected" % (fname, ", ".join(rejected)))
    acc = acceptors(fx, IL, cons, hcache)
    ck.anchor(len(acc) >= 5, "name acceptors derived from the parser (found %d: %s)" % (len(acc), ", ".join(sorted(a.split("::")[-1] for a in acc))))
    for f, cb, h, g, missing in gates(fx, IL, cons, hcache, acc):
        fname = f.parent.split("::")[-1]
        where = F.short_span(f.blocks[cb]["t"][6])
        if g is None or g.path not in acc:
            ck.instance(name + ".gates", "%s: %s() (not straight in front of a name acceptor)" % (fname, h.path.split("::")[-1]), where)
            continue
        own = kinds_mentioned(fx, f)
        bad = sorted(set(missing) - own)
        ok = not bad
        ck.instance(name + ".gates", "%s: %s() -> %s" % (fname, h.path.split("::")[-1], g.path.split("::")[-1]), where, ok=ok)
        if not ok:
            ck.finding(name + ".gates", "%s.gates/%s/%s/%s" % (name, fname, g.path.split("::")[-1], "+".join(bad)), where,
                       "`%s` calls %s only when %s() holds, but that test is false for %s, which %s accepts as names (%s): a valid program that uses one of them "
                       "as the name here is parsed as if the name were absent" % (fname, g.path.split("::")[-1], h.path.split("::")[-1], ", ".join(bad), g.path.split("::")[-1], acc[g.path]))
