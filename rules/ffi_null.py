"""C17 R1: null-check dominance for raw-pointer parameters of the extern "C" functions."""
import re

import facts as F
import mir as M

VALID_PTR_CALLEES = re.compile(
    r"(^std::ptr::(write|read|copy|copy_nonoverlapping|write_bytes|drop_in_place|replace|swap)$"
    r"|^std::boxed::Box::<T>::from_raw$|^std::ffi::CStr::from_ptr$|^std::ffi::CString::from_raw$"
    r"|^std::slice::from_raw_parts(_mut)?$|^std::vec::Vec::<T>::from_raw_parts$|^std::string::String::from_raw_parts$"
    r"|^std::rc::Rc::<T>::from_raw$|::(read|write|read_volatile|write_volatile|read_unaligned|write_unaligned|as_ref_unchecked|as_mut_unchecked|as_uninit_ref)$"
    r"|^std::ptr::NonNull::<T>::new_unchecked$)")
SAFE_PTR_CALLEES = re.compile(r"::(is_null|as_ref|as_mut|is_aligned|addr)$|^std::ptr::(eq|null|null_mut)$|^std::ptr::NonNull::<T>::new$")
DERIVING = re.compile(r"::(add|offset|sub|cast|cast_mut|cast_const|wrapping_add|byte_add)$")


def aliases(f, p):
    """locals that hold the pointer (copies, casts, derived pointers via add/offset/cast)"""
    al = {p}
    ch = True
    while ch:
        ch = False
        for bl in f.blocks:
            for s in bl["s"]:
                if s[0] == "a" and not s[1][1] and s[1][0] not in al:
                    rv = s[2]
                    op = rv[1] if rv[0] == "use" else (rv[2] if rv[0] == "cast" else None)
                    if op and op[0] in ("c", "m") and not op[1][1] and op[1][0] in al:
                        al.add(s[1][0])
                        ch = True
            t = bl["t"]
            if t[0] == "call" and not t[3][1] and t[3][0] not in al:
                d = t[1].get("d", "")
                if DERIVING.search(d) and t[2] and t[2][0][0] in ("c", "m") and not t[2][0][1][1] and t[2][0][1][0] in al:
                    al.add(t[3][0])
                    ch = True
    return al


def null_tests(f, al):
    """[(test_block, not_null_block, null_block)] for `is_null(p)` tests and `match p.as_ref()` forms"""
    out = []
    for bi, t in f.calls():
        d = t[1].get("d", "")
        if not d.endswith("::is_null") or not t[2] or t[2][0][0] not in ("c", "m") or t[2][0][1][0] not in al:
            continue
        c = t[3][0]
        tb = t[4]
        if tb < 0:
            continue
        neg = False
        # follow `!c`
        cur = c
        blk = f.blocks[tb]
        for s in blk["s"]:
            if s[0] == "a" and s[2][0] == "un" and s[2][1] == "Not" and s[2][2][0] in ("c", "m") and s[2][2][1][0] == cur and not s[1][1]:
                cur = s[1][0]
                neg = not neg
        sw = blk["t"]
        if sw[0] == "switch" and sw[1][0] in ("c", "m") and sw[1][1][0] == cur:
            false_t = next((b for v, b in sw[2] if v == "0"), None)
            true_t = sw[3]
            if false_t is None:
                continue
            nn, nl = (false_t, true_t) if not neg else (true_t, false_t)
            out.append((tb, nn, nl))
    return out


def copy_root(f, l, depth=0):
    d = f.defs().get(l, [])
    if depth < 6 and len(d) == 1 and d[0][1] != "T" and d[0][2][0] == "use" and d[0][2][1][0] in ("c", "m") and not d[0][2][1][1][1]:
        return copy_root(f, d[0][2][1][1][0], depth + 1)
    return l


def cond_zero_guards(fx, f, tests):
    """`if p.is_null() && n > 0 { return }`: on the null edge a comparison n > 0 (or n != 0) whose
    true edge returns.  Returns locals n for which  null => n == 0  holds afterwards."""
    out = set()
    for (tb, nn, nl) in tests:
        blk = f.blocks[nl]
        sw = blk["t"]
        if sw[0] != "switch":
            continue
        for s in blk["s"]:
            if s[0] == "a" and s[2][0] == "bin" and s[2][1] in ("Gt", "Ne") and M.const_int(s[2][3]) == 0 and s[2][2][0] in ("c", "m"):
                n = copy_root(f, s[2][2][1][0])
                true_t = sw[3]
                # the true edge must reach a return without rejoining
                reach = {true_t} | f.reachable_from(true_t)
                rejoin = nn in reach
                if not rejoin:
                    out.add(n)
    return out


def dominated_by_not_null(f, tests, block):
    for (tb, nn, nl) in tests:
        if f.dominates(nn, block) and all(p == tb for p in f.preds()[nn]):
            return True
        # also accept: the null edge cannot reach the block at all
        if f.dominates(tb, block):
            reach = {nl} | f.reachable_from(nl)
            if block not in reach:
                return True
    return False


def param_uses(fx, f, p, depth=0):
    """(kind, block, span, detail) of every use of pointer param p as a valid pointer"""
    al = aliases(f, p)
    uses = []
    for bi, kind, place, sp in M.all_places(f):
        if place[0] in al and place[1] and place[1][0] == "*":
            uses.append(("deref", bi, sp, "*%s" % (f.var_name(p) or "_%d" % p)))
    for bi, t in f.calls():
        d = t[1].get("d")
        idxs = [i for i, a in enumerate(t[2]) if a[0] in ("c", "m") and not a[1][1] and a[1][0] in al]
        if not idxs:
            continue
        if d is None:
            uses.append(("fnptr-arg", bi, t[6], "passed to a function pointer"))
            continue
        if SAFE_PTR_CALLEES.search(d) or DERIVING.search(d):
            continue
        if VALID_PTR_CALLEES.search(d):
            uses.append(("call", bi, t[6], d))
            continue
        g = fx.fns.get(d)
        if g is not None and depth < 3:
            for i in idxs:
                sub = unchecked_uses(fx, g, i + 1, depth + 1)
                if sub:
                    uses.append(("helper", bi, t[6], "%s (dereferences its argument unchecked at %s)" % (d, F.short_span(sub[0][2]))))
        elif g is None and not d.startswith(("std::", "core::", "alloc::")):
            uses.append(("extern-arg", bi, t[6], d))
    # captured by closures: uses inside the closure body count at the creation site
    for bi, bl in enumerate(f.blocks):
        for s in bl["s"]:
            if s[0] == "a" and s[2][0] == "agg" and s[2][1].get("k") == "closure":
                for idx, op in enumerate(s[2][2]):
                    byref = False
                    src = None
                    if op[0] in ("c", "m") and not op[1][1]:
                        if op[1][0] in al:
                            src = op[1][0]
                        else:
                            dd = f.defs().get(op[1][0], [])
                            if len(dd) == 1 and dd[0][1] != "T" and dd[0][2][0] == "ref" and dd[0][2][2][0] in al and not dd[0][2][2][1]:
                                src = dd[0][2][2][0]
                                byref = True
                    if src is None:
                        continue
                    clo = fx.fns.get(s[2][1]["p"])
                    if clo is None:
                        continue
                    cu = closure_upvar_uses(fx, clo, idx, byref)
                    for u in cu:
                        uses.append(("closure", bi, s[3], "closure at %s: %s" % (F.short_span(s[3]), u)))
    return al, uses


def closure_upvar_uses(fx, clo, idx, byref):
    """uses of captured upvar #idx as a valid pointer inside closure body"""
    out = []
    # locals loaded from the upvar
    holders = set()
    for bl in clo.blocks:
        for s in bl["s"]:
            if s[0] == "a" and not s[1][1]:
                for pl in F.rvalue_places(s[2]):
                    if pl[0] == 1:
                        fe = [e for e in pl[1] if isinstance(e, list) and e[0] == "f"]
                        if fe and fe[0][1] == idx:
                            holders.add(s[1][0])
    # follow derefs of by-ref captures
    al = set(holders)
    ch = True
    while ch:
        ch = False
        for bl in clo.blocks:
            for s in bl["s"]:
                if s[0] == "a" and not s[1][1] and s[1][0] not in al:
                    for pl in F.rvalue_places(s[2]):
                        if pl[0] in al and pl[1] in ([], ["*"]) and s[2][0] in ("use", "cast"):
                            al.add(s[1][0])
                            ch = True
            t = bl["t"]
            if t[0] == "call" and not t[3][1] and t[3][0] not in al and DERIVING.search(t[1].get("d", "")):
                if t[2] and t[2][0][0] in ("c", "m") and t[2][0][1][0] in al:
                    al.add(t[3][0])
                    ch = True
    ptr_locals = {l for l in al if fx.ty(clo.locals[l])["k"] == "ptr"}
    # the closure may test the captured pointer itself (`|n| if !out.is_null() { unsafe { *out = n } }`)
    tests = null_tests(clo, al)
    for bi, kind, place, sp in M.all_places(clo):
        if place[0] in ptr_locals and place[1] and place[1][0] == "*" and not dominated_by_not_null(clo, tests, bi):
            out.append("dereference at %s" % F.short_span(sp))
    for bi, t in clo.calls():
        d = t[1].get("d", "")
        if VALID_PTR_CALLEES.search(d) and any(a[0] in ("c", "m") and a[1][0] in ptr_locals for a in t[2]) and not dominated_by_not_null(clo, tests, bi):
            out.append("%s at %s" % (d, F.short_span(t[6])))
    return out


def unchecked_uses(fx, f, p, depth=0):
    """uses of pointer param p in f that are not dominated by a null test of p"""
    al, uses = param_uses(fx, f, p, depth)
    tests = null_tests(f, al)
    return [u for u in uses if not dominated_by_not_null(f, tests, u[1])]


def range_of(f, n_local):
    """blocks that create a closure passed to an iterator over `0..n`  (map over Range ending in n)"""
    ok_closures = set()
    for bi, bl in enumerate(f.blocks):
        for s in bl["s"]:
            if s[0] == "a" and s[2][0] == "agg" and s[2][1].get("k") == "adt" and s[2][1]["p"].endswith("ops::Range"):
                ops = s[2][2]
                if len(ops) == 2 and ops[1][0] in ("c", "m") and copy_root(f, ops[1][1][0]) == n_local:
                    ok_closures.add(s[1][0])
    return ok_closures
