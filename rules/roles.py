"""Operand-role signatures for sibling comparison (T-SIB at data-flow granularity).

For a CFG fragment, every call of a heap/table access primitive is summarised as
(callee, role(receiver), role(key)), where a role is a *structural* description of where the operand
comes from - an enum variant's field, an element of an iterator item, a parameter, a literal, a
register named by such a field, a fresh allocation - never a local variable name.  Two siblings that
perform the same accesses on operands of different provenance (the plain-key handler reads
`__super_target__` from the class, the computed-key handler from the method) disagree here although
their effect signatures are equal."""
import re

import facts as F
import mir as M

WRAPPERS = re.compile(r"(::clone$|cheap_clone$|::as_str$|::deref$|::deref_mut$|::borrow$|::borrow_mut$|::into$|<.* as std::convert::From<.*>>::from$|::intern$|::to_string$|::to_owned$|::as_ref$|::as_mut$"
                      r"|::property_key$|::property_key_from_js_string$|::property_key_from_value$|PropertyKey::from_value$|PropertyKey::from_name$|ops::Try>::branch$|::unwrap_or$|::unwrap_or_default$|::ok_or_else$|::ok_or$|::cloned$|::copied$|::as_object$|::as_environment$|::as_environment_mut$)")
FRESH = re.compile(r"(::alloc$|::create_[a-z_]+$)")
ACCESS = re.compile(r"(JsObject::(get_property|set_property|define_property|get_own_property|has_own_property|delete_property|get_property_descriptor)$|HashMap::<[^>]*>::(contains_key|get|insert|remove|get_mut)$|IndexMap::<[^>]*>::(contains_key|get|insert|shift_remove|swap_remove)$|Interpreter::(env_define|env_set|env_get|env_define_import)$)")


def role(fx, f, op, depth=0):
    if op[0] == "k":
        s = M.const_str(op)
        if s is not None:
            return "lit:" + s
        v = M.const_int(op)
        if v is not None:
            return "int:%d" % v
        fn = M.const_fn(op)
        return "fn:" + fn.split("::")[-1] if fn else "const"
    if op[0] not in ("c", "m") or depth > 16:
        return "?"
    return place_role(fx, f, op[1], depth)


def place_role(fx, f, pl, depth):
    # a projection through an enum variant's field / tuple element is already a role
    proj = [e for e in pl[1] if isinstance(e, list)]
    fields = [e for e in proj if e[0] == "f"]
    downs = [e for e in proj if e[0] == "d"]
    base = pl[0]
    if downs and fields:
        adt = fields[0][3]
        if adt in fx.adts and fx.adts[adt]["kind"] == "enum" and not adt.endswith(("JsValue",)):
            return "field:%s.%s" % (downs[0][1], fields[0][2])
    suffix = ""
    if fields:
        # remember which component of the base we look at
        suffix = "." + ".".join((e[2] or str(e[1])) for e in fields)
    if 1 <= base <= f.argc:
        return "param:%d%s" % (base, suffix)
    ds = f.defs().get(base, [])
    if len(ds) != 1:
        return ("phi" if ds else "?") + suffix
    bi, si, rv = ds[0]
    if si == "T":
        name = rv[1].get("d", "") or "<fnptr>"
        args = rv[2]
        if name.endswith("BytecodeVM::get_reg") and len(args) > 1:
            return "reg(%s)%s" % (role(fx, f, args[1], depth + 1), suffix)
        if name.endswith(("get_string_constant", "get_constant")) and len(args) > 1:
            return "const(%s)%s" % (role(fx, f, args[1], depth + 1), suffix)
        if FRESH.search(name):
            return "fresh" + suffix
        if re.search(r"Iterator>::next$|::next$", name):
            return "item" + suffix
        if WRAPPERS.search(name) and args:
            pick = args[-1] if name.endswith(("::intern", "::property_key", "::property_key_from_js_string", "::property_key_from_value")) else args[0]
            return role(fx, f, pick, depth + 1) + suffix
        return "call:%s%s" % (name.split("::")[-1], suffix)
    if rv[0] == "ref":
        return place_role(fx, f, rv[2], depth + 1) + suffix
    if rv[0] == "use":
        if rv[1][0] == "k":
            return role(fx, f, rv[1], depth + 1)
        return place_role(fx, f, rv[1][1], depth + 1) + suffix
    if rv[0] == "agg":
        if rv[2]:
            return role(fx, f, rv[2][0], depth + 1) + suffix
        return "unit" + suffix
    if rv[0] == "cast":
        return role(fx, f, rv[2], depth + 1) + suffix
    return "?" + suffix


def access_signature(fx, f, blocks):
    """set of (callee, receiver role, key role) for the access primitives called in `blocks`"""
    out = set()
    for b in blocks:
        t = f.blocks[b]["t"]
        if t[0] != "call":
            continue
        d = t[1].get("d", "")
        if not ACCESS.search(d) or len(t[2]) < 2:
            continue
        short = d.split("::")[-1]
        out.add((short, role(fx, f, t[2][0]), role(fx, f, t[2][1])))
    return out


def keyless(sig):
    """sibling arms may take their *key* from different sources (a constant-pool name vs a computed
    register): keep literal keys, abstract the others"""
    return {(c, r, k if k.startswith("lit:") else "<key>") for (c, r, k) in sig}


def normalise(sig, drop_variant=True):
    """variant names differ between sibling arms by construction: `field:DefineMethod.class` -> `field:.class`"""
    res = set()
    for (c, r, k) in sig:
        if drop_variant:
            r = re.sub(r"field:[A-Za-z0-9_]+\.", "field:.", r)
            k = re.sub(r"field:[A-Za-z0-9_]+\.", "field:.", k)
        res.add((c, r, k))
    return res
