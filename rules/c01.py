"""C01 - programs evaluate as ECMAScript specifies: structural necessary conditions only.

Not decided: the meaning of any operator or built-in (values).  Decided:
  R1 frame save/restore agreement: every BytecodeVM field written back from a trampoline frame at
     one pop site (normal return / error unwind) is written back at every pop site;
  R2 operator coercion agreement: an opcode arm that converts a *register operand* to a number does
     so through the hook-aware coercion (reaches coerce_to_primitive), never through the raw
     JsValue::to_number (which ignores valueOf/toString and compares strings as numbers);
  R3 scope-exit reconciliation: break / continue / return leave block scopes on exactly one side:
     the compiler function emitting the jump also emits PopScope, or the VM handler pops scopes;
  R4 own-property order: the container behind PropertyStorage::Map is insertion ordered;
  R5 opcode table agreement: every Op variant is emitted by the compiler and handled by
     execute_op without falling to the catch-all; every variant carrying a JumpTarget is patched.
"""
from common import Check
import facts as F
import mir as M
import hazards as H

OP = "compiler::bytecode::Op"
TF = "interpreter::bytecode_vm::TrampolineFrame"
VM = "interpreter::bytecode_vm::BytecodeVM"
# Op variants that exist for future use and are emitted nowhere (each confirmed unused by reading)
OP_UNEMITTED_OK = {"GetGlobal", "SetGlobal", "DefineProperty", "CallMethod", "SetFunctionName", "Nop", "Pop", "Dup"}


def frame_restore_agreement(fx, ck, rule="R1.frame-restore"):
    ck.rule(rule, "trampoline frame pop sites write back the same BytecodeVM fields from the frame", floor=2)
    if not ck.anchor(TF in fx.adts and VM in fx.adts, "TrampolineFrame and BytecodeVM"):
        return
    sites = {}
    for f in fx.fns.values():
        if f.derived or f.closure:
            continue
        r, w = set(), {}
        for bi, kind, place, sp in M.all_places(f):
            fl = F.place_fields(place)
            if fl and fl[0][0] == TF and kind in ("r", "b"):
                r.add(fl[0][2])
            if fl and fl[0][0] == VM and kind == "w" and len([e for e in place[1] if e != "*"]) == 1:
                w.setdefault(fl[0][2], sp)
        if len(r) >= 8 and w:
            sites[f.path] = (r, w, f)
    if len(sites) == 1:
        # one implementation shared by every pop path (a helper): nothing to disagree with; its callers are the pop paths
        (p, (r, w, f)), = sites.items()
        callers = sorted({g.parent if g.closure else g.path for g in fx.fns.values() if not g.derived
                          for _, t in g.calls() if t[1].get("d") == p})
        if ck.anchor(len(callers) >= 2, "frame pop paths sharing the single restore helper %s (found %s)" % (p, callers)):
            for c in callers:
                ck.instance(rule, "%s (through the shared helper %s)" % (c, p.split("::")[-1]), F.short_span(f.span), ok=True)
        return
    ck.anchor(len(sites) >= 2, "frame pop sites (found %s)" % sorted(sites))
    allw = set()
    for p, (r, w, f) in sites.items():
        allw |= set(w)
    for p, (r, w, f) in sorted(sites.items()):
        missing = sorted(allw - set(w))
        ck.instance(rule, p, F.short_span(f.span), ok=not missing)
        for m in missing:
            others = [q for q, (r2, w2, f2) in sites.items() if m in w2]
            ck.finding(rule, "%s/%s/%s" % (rule, p.split("::")[-1], m), F.short_span(f.span),
                       "pop site `%s` does not restore BytecodeVM.%s from the frame although `%s` does: the caller resumes with the callee's %s"
                       % (p, m, others[0], m))


def run(tier):
    ck = Check("C01", tier, "sibling agreement of frame pop sites, match-arm call-graph reachability for coercions, emit/handle pairing between compiler and VM, type walk of the property container, opcode table coverage",
               ["the value computed by any operator or built-in", "parser precedence and associativity", "hoisting, completion values, finally semantics"])
    fx = F.load("A")
    ck.configs.append("A: cargo +nightly check --lib --features c-api")
    frame_restore_agreement(fx, ck)

    ex = fx.one("BytecodeVM::execute_op")
    sw = [x for x in M.enum_switches(fx, ex) if x[1] == OP]
    if not ck.anchor(bool(sw), "match on Op in execute_op"):
        return ck.finish()
    bi, en, place, arms, other, rest = max(sw, key=lambda x: len(x[3]))
    ops = [v["name"] for v in fx.adts[OP]["variants"]]

    # R2
    ck.rule("R2.operator-coercion", "arms converting a register operand to a number reach the hook-aware coercion (coerce_to_primitive)", floor=12)
    co = H.reaching(fx, ("interpreter::Interpreter::coerce_to_primitive",), "coerce")
    ck.anchor("interpreter::Interpreter::coerce_to_primitive" in fx.fns, "Interpreter::coerce_to_primitive")
    for var, tgt in sorted(arms.items()):
        region = M.dominated_region(ex, tgt)
        ds = set()
        where = None
        for b in region:
            t = ex.blocks[b]["t"]
            if t[0] == "call" and "d" in t[1]:
                ds.add(t[1]["d"])
                if t[1]["d"] == "value::JsValue::to_number":
                    where = t[6]
        # arms that turn operands into numbers: through the raw conversion, through the hook-aware one, or through a VM helper
        # that does (`compare_operands`); the raw conversion alone is the finding
        conv = {"value::JsValue::to_number", "interpreter::Interpreter::coerce_to_number", "interpreter::Interpreter::coerce_to_primitive"}
        helpers = {d for d in ds if d in fx.fns and d.startswith("interpreter::bytecode_vm::BytecodeVM::") and
                   any(t2[1].get("d") in conv for _, t2 in fx.fns[d].calls())}
        if not (ds & conv) and not helpers:
            continue
        if where is None:
            where = ex.blocks[tgt]["t"][6] if ex.blocks[tgt]["t"][0] == "call" else ex.span
        hook = any(d in co for d in ds) or "value::JsValue::to_number" not in ds
        ck.instance("R2.operator-coercion", "Op::" + var, F.short_span(where), ok=hook)
        if not hook:
            ck.finding("R2.operator-coercion", "R2.operator-coercion/Op::" + var, F.short_span(where),
                       "Op::%s converts its register operands with the raw JsValue::to_number: objects with valueOf/toString and string operands are mishandled" % var)

    # R3
    ck.rule("R3.scope-exit", "break/continue/return pop the block scopes they leave on exactly one side (compiler or VM)", floor=3)
    emit = {}
    for f in fx.fns.values():
        for bl in f.blocks:
            for s in bl["s"]:
                if s[0] == "a" and s[2][0] == "agg" and s[2][1].get("p") == OP:
                    emit.setdefault(s[2][1]["v"], set()).add(f.parent)
    pops = H.reaching(fx, ("interpreter::Interpreter::pop_scope",), "popscope")
    for jump, handler in (("Break", "execute_break"), ("Continue", "execute_continue"), ("Return", "execute_return")):
        emitters = emit.get(jump, set())
        ck.anchor(bool(emitters), "compiler emits Op::" + jump)
        comp_side = bool(emitters) and all((e in emit.get("PopScope", set())) or any(c in emit.get("PopScope", set()) and False for c in ()) for e in emitters)
        h = fx.fn_by_suffix("BytecodeVM::" + handler)
        vm_side = bool(h) and h[0].parent in pops
        ok = comp_side != vm_side
        ck.instance("R3.scope-exit", "Op::" + jump, F.short_span(h[0].span) if h else None, ok=ok)
        if not comp_side and not vm_side:
            ck.finding("R3.scope-exit", "R3.scope-exit/Op::" + jump, F.short_span(h[0].span) if h else None,
                       "neither the compiler functions emitting Op::%s (%s) emit PopScope nor does `%s` reach Interpreter::pop_scope: block scopes "
                       "left by %s stay installed (shadowing leaks, one leaked environment guard per exit)"
                       % (jump, ", ".join(sorted(e.split("::")[-1] for e in emitters)), handler, jump.lower()))
        elif comp_side and vm_side:
            ck.finding("R3.scope-exit", "R3.scope-exit-double/Op::" + jump, F.short_span(h[0].span),
                       "both the compiler and `%s` pop scopes for Op::%s: scopes are popped twice" % (handler, jump))

    # R4
    ck.rule("R4.property-order", "the container behind PropertyStorage::Map is insertion ordered", floor=1)
    ps = fx.adts.get("value::PropertyStorage")
    if ck.anchor(ps is not None, "enum value::PropertyStorage"):
        for v in ps["variants"]:
            for fld in v["fields"]:
                t = fx.ty(fld["ty"])
                if t["k"] == "adt" and ("Map" in t["p"] or "Set" in t["p"]):
                    ordered = t["p"].startswith("indexmap::")
                    ck.instance("R4.property-order", "PropertyStorage::%s: %s" % (v["name"], t["p"]), F.short_span(ps["span"]), ok=ordered)
                    if not ordered:
                        ck.finding("R4.property-order", "R4.property-order/PropertyStorage::" + v["name"], F.short_span(ps["span"]),
                                   "own properties beyond the inline capacity live in `%s`: Object.keys / for-in / JSON.stringify enumerate in hash order, not insertion order" % t["s"])

    # R5
    ck.rule("R5.opcode-table", "every Op variant is emitted by the compiler and has its own arm in execute_op; jump-carrying variants are patched", floor=130)
    for o in ops:
        problems = []
        if o not in emit or not any(p.startswith("compiler::") for p in emit[o]):
            if o not in OP_UNEMITTED_OK:
                problems.append("is emitted nowhere in src/compiler")
        if o not in arms:
            problems.append("has no arm of its own in execute_op (falls to the catch-all)")
        ck.instance("R5.opcode-table", "Op::" + o, None, ok=not problems)
        for pr in problems:
            ck.finding("R5.opcode-table", "R5.opcode-table/Op::%s/%s" % (o, pr.split()[0] + pr.split()[1]), None, "Op::%s %s" % (o, pr))
    # jump targets: variants with a u32 `*target*` field (JumpTarget is an alias of u32) must be patched somewhere
    jt = {}
    for v in fx.adts[OP]["variants"]:
        for fld in v["fields"]:
            if "target" in fld["name"] and fx.tys(fld["ty"]) == "u32":
                jt.setdefault(v["name"], set()).add(fld["name"])
    written = set()
    for f in fx.fns.values():
        if not f.parent.startswith("compiler::"):
            continue
        for bi2, kind, place, sp in M.all_places(f):
            if kind != "w":
                continue
            for (adt, var, name) in F.place_fields(place):
                if adt == OP and "target" in name:
                    written.add((var, name))
        # `Op::Jump { target: t } => *t = target` borrows the field mutably and writes through it
        for bl in f.blocks:
            for s2 in bl["s"]:
                if s2[0] == "a" and s2[2][0] == "ref" and s2[2][1] is True:
                    for (adt, var, name) in F.place_fields(s2[2][2]):
                        if adt == OP and "target" in name:
                            written.add((var, name))
    if ck.anchor(len(jt) >= 8, "Op variants carrying a jump target (found %d)" % len(jt)):
        for o in sorted(jt):
            for fldname in sorted(jt[o]):
                ok = (o, fldname) in written
                ck.instance("R5.opcode-table", "patched Op::%s.%s" % (o, fldname), None, ok=ok)
                if not ok:
                    ck.finding("R5.opcode-table", "R5.opcode-table/unpatched/Op::%s.%s" % (o, fldname), None,
                               "Op::%s.%s is a jump target that no function of the compiler ever patches: forward jumps keep their placeholder" % (o, fldname))
    # ---------------- R5b pending jump placeholders do not die with their context
    # A forward jump is emitted with target 0 and recorded in a Vec<JumpPlaceholder> of the context it belongs
    # to.  The function that pops such a context off its stack must look at every placeholder vector of the
    # context (patch it, or refuse the program): a vector it never reads is dropped with its jumps unpatched,
    # and each of those jumps goes to instruction 0 at run time.
    ck.rule("R5b.placeholders-drained", "a function that pops a context holding Vec<JumpPlaceholder> fields reads every one of them", floor=2)
    holders = {}
    for pth, a in fx.adts.items():
        if not pth.startswith("compiler::") or a["kind"] != "struct":
            continue
        flds = [fd["name"] for fd in a["variants"][0]["fields"] if "JumpPlaceholder" in fx.tys(fd["ty"]) and fx.tys(fd["ty"]).startswith("std::vec::Vec<")]
        if flds:
            holders[pth] = flds
    ck.anchor(bool(holders), "compiler context structs holding Vec<JumpPlaceholder> (%s)" % ", ".join("%s{%s}" % (k.split("::")[-1], ",".join(v)) for k, v in sorted(holders.items())))
    for f in fx.fns.values():
        if not f.file.startswith("src/compiler") or f.derived:
            continue
        for bi, t in f.calls():
            if not t[1].get("d", "").endswith("Vec::<T, A>::pop") or not t[3]:
                continue
            rt = fx.tys(f.locals[t[3][0]])
            for h, flds in holders.items():
                if ("Option<%s>" % h) not in rt:
                    continue
                read = set()
                for g in fx.body_group(f):
                    for _, kind, place, _ in M.all_places(g):
                        for (adt, var, name) in F.place_fields(place):
                            if adt == h:
                                read.add(name)
                for fld in flds:
                    ok = fld in read
                    ck.instance("R5b.placeholders-drained", "%s pops %s: %s" % (f.parent, h.split("::")[-1], fld), F.short_span(t[6]), ok=ok)
                    if not ok:
                        ck.finding("R5b.placeholders-drained", "R5b.placeholders-drained/%s/%s" % (f.parent, fld), F.short_span(t[6]),
                                   "`%s` pops a %s and never looks at its `%s`: jumps still recorded there keep the placeholder target 0 and restart "
                                   "the program from its first instruction when they run" % (f.parent, h.split("::")[-1], fld))
    # ---------------- R6 sibling opcode arms (plain key / computed key / constant key) agree on operand roles
    import roles as R
    ck.rule("R6.sibling-arms", "opcode arms that differ only in where the key comes from (X / XComputed / XConst) perform the same accesses on operands of the same role", floor=7)
    pairs = [(a, b) for a in arms for b in arms if b in (a + "Computed", a + "Const")]
    for a, b in sorted(pairs):
        sa = R.keyless(R.normalise(R.access_signature(fx, ex, M.dominated_region(ex, arms[a]))))
        sb = R.keyless(R.normalise(R.access_signature(fx, ex, M.dominated_region(ex, arms[b]))))
        only_a, only_b = sorted(sa - sb), sorted(sb - sa)
        ok = not only_a and not only_b
        ck.instance("R6.sibling-arms", "Op::%s <-> Op::%s" % (a, b), None, ok=ok)
        if not ok:
            ck.finding("R6.sibling-arms", "R6.sibling-arms/%s/%s" % (a, b), F.short_span(ex.span),
                       "Op::%s and Op::%s are the same operation with a different key source, but access different operands: only %s does %s; only %s does %s "
                       "(equivalent syntactic forms behave differently)" % (a, b, a, only_a, b, only_b))
    # ---------------- R8 direction siblings (find / findLast, indexOf / lastIndexOf, reduce / reduceRight ...) read the
    # receiver through the same protocol: the generic array-like helpers (ToLength + indexed get on any object) or the
    # dense-array accessor.  Two natives that differ only in the direction they walk cannot differ in what they accept.
    ck.rule("R8.direction-siblings", "natives that differ only in direction (X / XLast / XRight) read the receiver through the same protocol", floor=4)
    groups = {}
    for f in fx.fns.values():
        if f.closure or f.derived or not f.file.startswith("src/interpreter/builtins/"):
            continue
        nm = f.path.split("::")[-1]
        toks = nm.split("_")
        if not ({"last", "right"} & set(toks)) and not any(True for _ in ()):
            base = tuple(toks)
        else:
            base = tuple(t for t in toks if t not in ("last", "right"))
        groups.setdefault((f.file, base), []).append(f)
    for (fl, base), members in sorted(groups.items()):
        if len(members) != 2:
            continue
        a, b = sorted(members, key=lambda g: len(g.path))
        if {"last", "right"} & set(a.path.split("::")[-1].split("_")) or not ({"last", "right"} & set(b.path.split("::")[-1].split("_"))):
            continue

        def proto(g):
            cs = {t[1].get("d", "") for h in fx.body_group(g) for _, t in h.calls()}
            gen = any(c.endswith(("::get_array_like_length", "::get_array_like_element")) for c in cs)
            dense = any(c.endswith("JsObject::array_length") for c in cs)
            return "array-like" if gen else ("dense-array" if dense else "none")
        pa, pb = proto(a), proto(b)
        if "none" in (pa, pb):
            continue
        ok = pa == pb
        ck.instance("R8.direction-siblings", "%s / %s" % (a.path.split("::")[-1], b.path.split("::")[-1]), F.short_span(b.span), ok=ok)
        if not ok:
            strict = b if pb == "dense-array" else a
            loose = a if strict is b else b
            ck.finding("R8.direction-siblings", "R8.direction-siblings/%s" % strict.path.split("::")[-1], F.short_span(strict.span),
                       "`%s` insists on a real array (JsObject::array_length) while its sibling `%s` works on any array-like receiver: "
                       "`Array.prototype.<method>.call(arrayLike, ..)` succeeds for one direction and throws for the other" % (strict.path.split("::")[-1], loose.path.split("::")[-1]))
    import inplace
    inplace.rule(fx, ck)
    # R3b: an exception handler runs in the scope of its try statement (the rule is shared with C14 R5: the same missing unwind
    # leaks the scopes *and* lets the handler read the inner bindings)
    import c14
    c14.handler_unwind(fx, ck, name="R3b.handler-scope")
    import c01b
    c01b.run(fx, ck, OP)
    # ---- R23 function declarations are hoisted
    import fnhoist
    ck.rule("R23.function-declarations-hoisted", "every loop that compiles a statement list comes after a call of the function hoister (a walk over the list that compiles its "
            "function declarations), in the list compiler itself or in each of its callers", floor=6)
    hs23, rows23 = fnhoist.rule(fx, lambda g: g.file.startswith("src/compiler"))
    ck.anchor(bool(rows23), "statement-list compilers in src/compiler (hoisters: %s)" % sorted(h.split("::")[-1] for h in hs23))
    seen23 = set()
    for f23, sp23, ok23, why23 in rows23:
        ck.instance("R23.function-declarations-hoisted", "%s: %s" % (f23.path, why23), F.short_span(sp23), ok=ok23)
        if not ok23 and f23.path not in seen23:
            seen23.add(f23.path)
            ck.finding("R23.function-declarations-hoisted", "R23.function-declarations-hoisted/%s" % f23.path, F.short_span(sp23),
                       "`%s` compiles the statements of a list in order without creating the list's function declarations first: `f(); function f() {}` "
                       "throws `f is not defined` (program, function body, block, catch / finally, switch, namespace body alike)" % f23.path)
    for f23, forms23 in fnhoist.hoister_forms(fx, lambda g: g.file.startswith("src/compiler")):
        ok23 = {"FunctionDeclaration", "Export"} <= forms23
        ck.instance("R23.function-declarations-hoisted", "%s hoists %s" % (f23.path, ", ".join(sorted(forms23))), F.short_span(f23.span), ok=ok23)
        if not ok23:
            ck.finding("R23.function-declarations-hoisted", "R23.function-declarations-hoisted/%s/forms" % f23.path, F.short_span(f23.span),
                       "`%s` hoists only %s: a function declared with `export function g() {}` (in a module or a namespace body) is created where the statement stands, "
                       "so `export const v = g(); export function g() { return 1 }` throws `g is not defined`" % (f23.path, ", ".join(sorted(forms23)) or "nothing"))
    # ---- R22 nested function compilers inherit the class context
    import nestedcomp
    ck.rule("R22.nested-compilers-inherit-context", "every function that creates the compiler of a nested function body copies into it each Compiler field (other than the "
            "source file, see C20 N1) that one of its siblings copies from self - the class context that makes private names accessible", floor=3)
    union22, rows22 = nestedcomp.rule(fx)
    ck.anchor("class_context_stack" in union22, "a creator of nested compilers copies Compiler.class_context_stack (inherited fields: %s)" % sorted(union22))
    for f22, sp22, inh22, miss22, via22 in rows22:
        m22 = sorted(miss22 - {"source_file"})
        ck.instance("R22.nested-compilers-inherit-context", "%s%s" % (f22.path, " (through %s)" % via22.split("::")[-1] if via22 else ""), F.short_span(sp22), ok=not m22)
        if m22:
            ck.finding("R22.nested-compilers-inherit-context", "R22.nested-compilers-inherit-context/%s/%s" % (f22.path, "+".join(m22)), F.short_span(sp22),
                       "`%s` compiles a nested function body with a fresh compiler that does not inherit %s, which its siblings copy from the enclosing compiler: "
                       "`class A { #x = 41; m() { return (() => this.#x + 1)() } }` is refused with \"Private field '#x' must be declared in an enclosing class\""
                       % (f22.path, ", ".join(m22)))
    return ck.finish()
