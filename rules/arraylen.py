"""C17 R5: a heap array handed to C travels with its true length.

Every `Vec::into_boxed_slice` in src/ffi whose box is leaked to the host (Box::into_raw, or
as_mut_ptr + mem::forget) hands out an allocation of exactly `vec.len()` elements; the host frees
it by passing the count back (tsrun_free_strings / tsrun_step_result_free rebuild the slice from
pointer + count).  So every count the same function reports - a store through a `*mut usize`
out-parameter or a `usize` field of a #[repr(C)] result struct - must be a constant or the
`Vec::len()` of a vector that is handed out.  A count computed from anything else (the source
collection before filtering, a capacity, a separately kept counter) disagrees with the
allocation for some inputs, and the host then reads or frees past it.
"""
import facts as F
import mir as M

LEAK_CALLS = ("std::boxed::Box::<T, A>::into_raw", "std::boxed::Box::<T>::into_raw", "std::mem::forget")


def origins(f, op, depth=0, seen=None):
    """where the value of operand `op` comes from: set of ('const', v) | ('call', block) | ('other', text)"""
    seen = seen if seen is not None else set()
    if op[0] == "k":
        return {("const", str(op[2]))}
    local, proj = op[1][0], op[1][1]
    key = (local, str(proj))
    if key in seen or depth > 12:
        return set()
    seen.add(key)
    fields = [e[1] for e in proj if isinstance(e, list) and e[0] == "f"]
    if any(not (isinstance(e, list) and e[0] == "f") for e in proj):
        return {("other", "place %s" % proj)}
    out = set()
    defs = f.defs().get(local, [])
    if not defs:
        return {("other", "parameter or undefined local _%d" % local)}
    for (bi, si, rv) in defs:
        if si == "T":
            if fields:
                cal = f.blocks[bi]["t"][1].get("d", "?")
                out.add(("const", "default") if cal.endswith("Default>::default") else ("callfield", bi, fields[0], cal))
            else:
                out.add(("call", bi))
            continue
        if rv[0] == "use":
            src = rv[1]
            if src[0] == "k":
                out |= origins(f, src, depth + 1, seen) if not fields else {("other", "field of constant")}
            else:
                # append our remaining field path to the source place
                sub = [src[0], [src[1][0], list(src[1][1]) + [e for e in proj]]]
                out |= origins(f, sub, depth + 1, seen)
        elif rv[0] == "agg" and fields:
            ops = rv[2]
            i = fields[0]
            if i < len(ops):
                rest = [e for e in proj[1:]]
                o = ops[i]
                if o[0] == "k":
                    out |= origins(f, o, depth + 1, seen)
                else:
                    out |= origins(f, [o[0], [o[1][0], list(o[1][1]) + rest]], depth + 1, seen)
            else:
                out.add(("other", "aggregate without operand %d" % i))
        elif rv[0] == "cast" and not fields:
            out |= origins(f, rv[2], depth + 1, seen)
        else:
            out.add(("other", "%s" % rv[0]))
    return out


def vec_root(f, local, depth=0):
    """the local a moved / borrowed vector value originally lives in"""
    d = f.defs().get(local, [])
    if len(d) == 1 and d[0][1] != "T" and depth < 8:
        rv = d[0][2]
        if rv[0] == "use" and rv[1][0] in ("c", "m") and not rv[1][1][1]:
            return vec_root(f, rv[1][1][0], depth + 1)
        if rv[0] == "ref" and not rv[2][1]:
            return vec_root(f, rv[2][0], depth + 1)
    return local


def rule(fx, ck, name="R5.array-length"):
    ck.rule(name, "every count reported next to a leaked boxed slice is a constant or the len() of a vector that is handed out", floor=4)
    nsites = 0
    # leak helpers `fn leak_as_c_array(v: Vec<T>) -> (*mut T, usize)`: judged like any hand-out site (the returned count is a sink); a caller
    # that stores component `len` of such a call next to component `ptr` of the *same* call reports the right length
    helpers = {}      # path -> (ptr component, len component), filled when the helper's own sinks are all fine
    ffi_fns = [f for f in fx.fns.values() if f.file.startswith("src/ffi") and not f.derived]

    def hands_out(f):
        handed = {}
        for bi, t in f.calls():
            if t[1].get("d", "").endswith("Vec::<T, A>::into_boxed_slice") and t[2] and t[2][0][0] in ("c", "m"):
                handed[vec_root(f, t[2][0][1][0])] = F.short_span(t[6])
        leaks = any(t[1].get("d", "") in LEAK_CALLS or t[1].get("d", "").endswith(("Box::<T, A>::into_raw", "mem::forget")) for _, t in f.calls())
        return handed if leaks else {}
    order = sorted(ffi_fns, key=lambda f: 0 if ("usize" in fx.tys(f.locals[0]) and fx.tys(f.locals[0]).startswith("(")) else 1)
    for f in order:
        handed = hands_out(f)
        uses_helper = any(t[1].get("d") in helpers for _, t in f.calls())
        if not handed and not uses_helper:
            continue
        nsites += len(handed)
        # sinks
        sinks = []
        ret_sinks = []
        for bi, bl in enumerate(f.blocks):
            for s in bl["s"]:
                if s[0] == "a" and s[1][0] == 0 and not s[1][1] and s[2][0] == "agg" and s[2][1].get("k") == "tuple" and handed:
                    comps = s[2][2]
                    tys_ = [fx.tys(f.locals[o[1][0]]) if o[0] in ("c", "m") else ("usize" if o[0] == "k" else "?") for o in comps]
                    pi = next((i for i, ty_ in enumerate(tys_) if ty_.startswith("*")), None)
                    for i, (o, ty_) in enumerate(zip(comps, tys_)):
                        if ty_ == "usize" and o[0] in ("c", "m"):
                            sinks.append(("return.%d" % i, o, s[3], comps[pi] if pi is not None else None))
                            ret_sinks.append((pi, i))
        for bi, bl in enumerate(f.blocks):
            for s in bl["s"]:
                if s[0] != "a":
                    continue
                place, rv = s[1], s[2]
                # store through a *mut usize parameter
                if place[1] and place[1][0] == "*" and len(place[1]) == 1 and fx.tys(f.locals[place[0]]) == "*mut usize" and rv[0] == "use":
                    sinks.append(("*%s" % f.var_name(place[0]), rv[1], s[3], None))
                if rv[0] == "agg" and isinstance(rv[1], dict) and rv[1].get("k") == "adt":
                    a = fx.adts.get(rv[1].get("p"))
                    if a is None or not a["path"].startswith("ffi::"):
                        continue
                    flds = a["variants"][0]["fields"]
                    names = rv[1].get("fields") or [x["name"] for x in flds]
                    prev = None
                    for nm, op in zip(names, rv[2]):
                        fd = next((x for x in flds if x["name"] == nm), None)
                        if fd is not None and fx.tys(fd["ty"]) == "usize":
                            sinks.append(("%s.%s" % (a["path"].split("::")[-1], nm), op, s[3], prev))
                        prev = op if fd is not None and fx.tys(fd["ty"]).startswith("*") else None
        for (what, op, sp, ptr_op) in sinks:
            org = origins(f, op)
            bad = []
            # the vectors behind the pointer field this count sits next to
            ptr_roots = set()
            if ptr_op is not None:
                work = [ptr_op]
                hops = 0
                while work and hops < 12:
                    hops += 1
                    for o in origins(f, work.pop()):
                        if o[0] != "call":
                            continue
                        t = f.blocks[o[1]]["t"]
                        cal = t[1].get("d", "")
                        if cal.endswith("into_boxed_slice") and t[2] and t[2][0][0] in ("c", "m"):
                            ptr_roots.add(vec_root(f, t[2][0][1][0]))
                        elif cal.endswith(("into_raw", "as_mut_ptr")) and t[2]:
                            work.append(t[2][0])
            for o in org:
                if o[0] == "const":
                    continue
                if o[0] == "callfield":
                    hp = helpers.get(o[3])
                    same_call = False
                    if hp is not None and o[2] == hp[1]:
                        # the neighbouring pointer must be component `ptr` of the same call
                        if ptr_op is None:
                            same_call = True
                        else:
                            same_call = any(po[0] == "callfield" and po[1] == o[1] and po[2] == hp[0] for po in origins(f, ptr_op))
                    if same_call:
                        continue
                    bad.append("field of the result of %s" % o[3])
                    continue
                if o[0] == "call":
                    t = f.blocks[o[1]]["t"]
                    cal = t[1].get("d", "?")
                    if cal.endswith(("Vec::<T, A>::len", "core::slice::<impl [T]>::len")) and t[2] and t[2][0][0] in ("c", "m") \
                            and vec_root(f, t[2][0][1][0]) in handed:
                        if ptr_roots and vec_root(f, t[2][0][1][0]) not in ptr_roots:
                            bad.append("the len() of a different vector than the one behind the neighbouring pointer field")
                        continue
                    bad.append("result of %s" % cal)
                else:
                    bad.append(o[1])
            ok = not bad and bool(org)
            if what.startswith("return.") and not ok:
                ret_sinks = []
            ck.instance(name, "%s: %s" % (f.parent, what), F.short_span(sp), ok=ok)
            if not ok:
                ck.finding(name, "%s/%s/%s" % (name, f.parent, what), F.short_span(sp),
                           "`%s` reports the length %s from %s, not from the len() of the vector whose allocation it hands to the host (%s): "
                           "for some inputs the count disagrees with the array and the host reads or frees past it"
                           % (f.parent, what, "; ".join(sorted(set(bad))) or "an untraceable value", ", ".join(sorted(handed.values())) or "through a leak helper"))
        if ret_sinks and handed:
            pis = {x for x in ret_sinks}
            if len(pis) == 1 and list(pis)[0][0] is not None:
                helpers[f.path] = list(pis)[0]
    # the `..Default::default()` tail: the Default impl of an ffi struct sets every count to a constant
    for f in fx.fns.values():
        if f.impl_trait and f.impl_trait.endswith("Default") and f.path.endswith("::default") and f.file.startswith("src/ffi") and not f.derived:
            for bl in f.blocks:
                for s in bl["s"]:
                    if s[0] == "a" and s[2][0] == "agg" and isinstance(s[2][1], dict) and s[2][1].get("k") == "adt":
                        a = fx.adts.get(s[2][1].get("p"))
                        if a is None:
                            continue
                        for fd, op in zip(a["variants"][0]["fields"], s[2][2]):
                            if fx.tys(fd["ty"]) == "usize":
                                ok = all(o[0] == "const" for o in origins(f, op))
                                ck.instance(name, "%s: default %s" % (f.path, fd["name"]), F.short_span(s[3]), ok=ok)
                                if not ok:
                                    ck.finding(name, "%s/default/%s" % (name, fd["name"]), F.short_span(s[3]),
                                               "the Default value of %s.%s is not a constant" % (a["path"], fd["name"]))
    ck.anchor(nsites >= 3, "Vec::into_boxed_slice hand-out sites in src/ffi (found %d; hand count 5, floor 3 so that merging the two string-array producers into one helper does not alarm)" % nsites)
