"""C01 R7: element-wise copy inside one vector at two different offsets needs a direction test.

A loop that reads `v[a + i]` and writes `v[b + i]` of the same vector (memmove by hand) is right for
overlapping ranges only when it runs forward for b <= a and backward for b > a.  The structural
necessary condition: the loop is dominated by a comparison of the two offsets (the direction test), or
the source range was snapshotted first (then the loop does not read the vector it writes).  `swap`
loops (sorting) exchange two slots atomically and are not copies.
"""
import re

import facts as F
import loops as L

RD = re.compile(r"(slice::<impl \[T\]>::get$|slice::<impl \[T\]>::get_unchecked$|ops::Index<I>>::index$)")
WR = re.compile(r"(slice::<impl \[T\]>::get_mut$|slice::<impl \[T\]>::get_unchecked_mut$|ops::IndexMut<I>>::index_mut$)")
VIEW = re.compile(r"(ops::Deref>::deref$|ops::DerefMut>::deref_mut$|::as_slice$|::as_mut_slice$|::borrow_mut$|::borrow$)")


def container_root(f, op, depth=0):
    """the local a (re)borrowed / dereferenced container value lives in"""
    if op[0] not in ("c", "m") or depth > 12:
        return None
    local = op[1][0]
    d = f.defs().get(local, [])
    if len(d) != 1:
        return ("local", local)
    bi, si, rv = d[0]
    if si == "T":
        if VIEW.search(rv[1].get("d", "")) and rv[2]:
            return container_root(f, rv[2][0], depth + 1)
        return ("local", local)
    if rv[0] == "ref":
        return container_root(f, ["c", rv[2]], depth + 1) if not [e for e in rv[2][1] if e != "*"] else ("place", rv[2][0], str(rv[2][1]))
    if rv[0] == "use" and rv[1][0] in ("c", "m"):
        return container_root(f, rv[1], depth + 1)
    return ("local", local)


def terms(f, op, depth=0):
    """root locals summed (through checked `+`) into an index operand"""
    if op[0] not in ("c", "m"):
        return frozenset()
    local, proj = op[1][0], op[1][1]
    if depth > 10:
        return frozenset([local])
    d = f.defs().get(local, [])
    if len(d) != 1 or d[0][1] == "T":
        return frozenset([local])
    rv = d[0][2]
    if rv[0] == "bin" and rv[1] in ("Add", "AddWithOverflow", "AddUnchecked"):
        return terms(f, rv[2], depth + 1) | terms(f, rv[3], depth + 1)
    if rv[0] == "use" and rv[1][0] in ("c", "m"):
        return terms(f, rv[1], depth + 1)
    if rv[0] == "cast" and rv[2][0] in ("c", "m"):
        return terms(f, rv[2], depth + 1)
    return frozenset([local])


def sites(fx, f):
    """(loop header, read call, write call, read-only offsets, write-only offsets, has direction test)"""
    for h, body in L.natural_loops(f):
        rd, wr = [], []
        for b in body:
            t = f.blocks[b]["t"]
            if t[0] != "call" or len(t[2]) < 2:
                continue
            d = t[1].get("d", "")
            if WR.search(d):
                wr.append((b, t))
            elif RD.search(d):
                rd.append((b, t))
        for rb, rt in rd:
            for wb, wt in wr:
                r0, w0 = container_root(f, rt[2][0]), container_root(f, wt[2][0])
                if r0 is None or r0 != w0:
                    continue
                R, W = terms(f, rt[2][1]), terms(f, wt[2][1])
                ro, wo = R - W, W - R
                if not ro or not wo or not (R & W):
                    continue   # same slot, or not `offset + i` on both sides
                # direction test: a comparison dominating the loop whose sides mention one offset each
                tested = False
                for bi, bl in enumerate(f.blocks):
                    if not f.dominates(bi, h):
                        continue
                    for s in bl["s"]:
                        if s[0] == "a" and s[2][0] == "bin" and s[2][1] in ("Lt", "Le", "Gt", "Ge"):
                            a, b2 = terms(f, s[2][2]), terms(f, s[2][3])
                            if (a & ro and b2 & wo) or (a & wo and b2 & ro):
                                tested = True
                yield h, rt, wt, ro, wo, tested


def rule(fx, ck, name="R7.inplace-copy"):
    ck.rule(name, "a loop copying v[a+i] to v[b+i] inside one vector is dominated by a comparison of a and b (direction test)")
    n = 0
    for f in fx.fns.values():
        if not f.file.startswith("src/interpreter/builtins") and not f.file.startswith("src/value.rs"):
            continue
        for h, rt, wt, ro, wo, tested in sites(fx, f):
            n += 1
            ck.instance(name, f.parent, F.short_span(wt[6]), ok=tested)
            if not tested:
                ck.finding(name, "%s/%s" % (name, f.parent), F.short_span(wt[6]),
                           "`%s` copies elements inside one vector (reads at %s + i, writes at %s + i) in a single direction without comparing the two offsets: "
                           "when the ranges overlap the loop re-reads slots it has already overwritten" % (f.parent, "+".join(f.var_name(x) or "_%d" % x for x in ro), "+".join(f.var_name(x) or "_%d" % x for x in wo)))
    ctl = F.load_fixture()
    bad = [s for s in sites(ctl, ctl.one("c01::bad_copy_within")) if not s[5]]
    good = [s for s in sites(ctl, ctl.one("c01::good_copy_within"))]
    if not bad or not good or any(not s[5] for s in good):
        ck.closed_fail.append("%s positive control failed (bad=%d good=%d/%d tested)" % (name, len(bad), len([s for s in good if s[5]]), len(good)))
    ck.note("%s: %d in-place copy loops on this tree; positive control: fixture bad_copy_within reported, good_copy_within (2 loops) silent" % (name, n))
