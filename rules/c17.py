"""C17 - the C API is memory-safe and total: structural clauses.

Decided:
  R1 null-check dominance: every use of a raw-pointer parameter of an extern "C" function as a
     valid pointer (dereference, ptr::write, Box::from_raw, CStr::from_ptr, slice::from_raw_parts,
     unchecked helpers, uses inside closures) is dominated by a null test of that parameter
     (`as_ref()/as_mut()` count as checked; the `p.is_null() && n > 0 -> return` array idiom is
     recognised when the uses are driven by a range ending in n);
  R2 header <-> implementation agreement: names, arity, parameter/return types, #[repr(C)] struct
     fields and enum discriminants of examples/c-embedding/tsrun.h against the compiled items;
  R3 no RefCell guard of a GC object is held across a call that may collect or re-enter script
     inside src/ffi (a panic cannot unwind out of extern "C": process abort);
  R4 values stored across calls carry their own guard: `RuntimeValue::unguarded` is applied only
     to non-object values or on paths where the object is re-guarded before the call returns.
Not decided: aliasing of &mut TsRunContext inside native callbacks, re-entrancy protocols,
lifetimes of borrowed strings (documentation contracts).
"""
import os

from common import Check
import facts as F
import mir as M
import hazards as H
import header as HD
import ffi_null as N

HEADER = os.path.join(F.REPO, "examples", "c-embedding", "tsrun.h")


def externs(fx):
    return [f for f in fx.fns.values() if f.abi.startswith("C") and not f.closure and f.no_mangle]


def null_rule(fx, ck):
    ck.rule("R1.null-dominance", "every valid-pointer use of a raw-pointer parameter of an extern \"C\" fn is dominated by a null test", floor=100)
    nuses = 0
    for f in sorted(externs(fx), key=lambda f: f.path):
        for p in range(1, f.argc + 1):
            if fx.ty(f.locals[p])["k"] != "ptr":
                continue
            pname = f.var_name(p) or "_%d" % p
            al, uses = N.param_uses(fx, f, p)
            tests = N.null_tests(f, al)
            zero_guard = N.cond_zero_guards(fx, f, tests)
            bad = []
            for u in uses:
                nuses += 1
                if N.dominated_by_not_null(f, tests, u[1]):
                    continue
                if u[0] == "closure" and zero_guard:
                    # closure driven by `0..n` with  null => n == 0  established before its creation
                    ok = False
                    for n in zero_guard:
                        if N.range_of(f, n) and any(f.dominates(tb, u[1]) for tb, _, _ in tests):
                            ok = True
                    if ok:
                        continue
                bad.append(u)
            ck.instance("R1.null-dominance", "%s(%s)" % (f.path.split("::")[-1], pname), F.short_span(f.span), ok=not bad)
            for u in bad:
                ck.finding("R1.null-dominance", "R1.null-dominance/%s/%s" % (f.path.split("::")[-1], pname), F.short_span(u[2]),
                           "`%s`: parameter `%s` is used as a valid pointer (%s) without a dominating NULL check" % (f.path.split("::")[-1], pname, u[3]))
    return nuses


def header_rule(fx, ck):
    ck.rule("R2.header", "tsrun.h declarations agree with the exported items (names, arity, types, struct fields, enum values)", floor=70)
    if not ck.anchor(os.path.exists(HEADER), "examples/c-embedding/tsrun.h"):
        return
    hdr = HD.Header(HEADER)
    for kind, name, ok, msg in HD.compare(fx, hdr):
        ck.instance("R2.header", "%s %s" % (kind, name), None, ok=ok)
        if kind == "fn-sret":
            ck.assume("struct returns larger than 16 bytes use a hidden out-pointer as first argument (x86-64 SysV / Win64): " + name)
        if not ok:
            ck.finding("R2.header", "R2.header/%s/%s" % (kind, name), "examples/c-embedding/tsrun.h", "%s `%s`: %s" % (kind, name, msg))


def guard_rule(fx, ck, prefix=("ffi::", "<ffi::")):
    ck.rule("R3.no-guard-across-gc", "no Ref/RefMut of a GC-managed cell is held across a may-collect or re-entering call in src/ffi", floor=20)
    gc = H.may_gc(fx)
    re_ = H.may_reenter(fx)
    tb = H.trace_borrowed_types(fx)

    def hz(t):
        c = t[1]
        if "ptr" in c:
            return "calls a function pointer (host callback)"
        d = c["d"]
        if d in re_:
            return "re-enters script via %s" % d
        if d in gc:
            return "may collect via %s" % d
        return None

    for f in fx.fns.values():
        if not f.parent.startswith(prefix):
            continue
        has = any(H.ref_kind(fx, ti) for ti in f.locals)
        if not has:
            continue
        hits = []
        for bi, t, l, kind, why in H.held_across(fx, f, hz):
            if "may collect" in why and not (kind[0] == "RefMut" and kind[1] in tb):
                continue
            hits.append((t, kind, why))
        ck.instance("R3.no-guard-across-gc", f.path, F.short_span(f.span), ok=not hits)
        for t, kind, why in hits:
            ck.finding("R3.no-guard-across-gc", "R3.no-guard-across-gc/%s/%s" % (f.parent, t[1].get("d", "fnptr")), F.short_span(t[6]),
                       "`%s` holds a %s<%s> while it %s: the collector's mark phase (or the re-entered script) borrows the same cell -> "
                       "RefCell panic inside extern \"C\" (abort)" % (f.parent, kind[0], kind[1], why))


def rv_adts(fx):
    """local ADTs that (transitively, through their fields) contain a RuntimeValue"""
    edges = M.adt_edges(fx)
    out = {"RuntimeValue"}
    ch = True
    while ch:
        ch = False
        for p, es in edges.items():
            if p not in out and es & out:
                out.add(p)
                ch = True
    out.discard("interpreter::Interpreter")
    return out


def runtime_value_storers(fx):
    """functions that directly store into an Interpreter field whose type contains RuntimeValue"""
    out = {}
    rv = rv_adts(fx)
    interp = fx.adts.get("interpreter::Interpreter")
    fields = set()
    for fld in interp["variants"][0]["fields"]:
        if M.adts_in_type(fx, fld["ty"]) & rv:
            fields.add(fld["name"])
    for f in fx.fns.values():
        for bi, t in f.calls():
            d = t[1].get("d", "")
            if d.split("::")[-1] in ("insert", "push", "extend", "append", "push_back") and t[2] and t[2][0][0] in ("c", "m"):
                import exits as E
                fl = E.field_of_ref(f, t[2][0][1][0])
                if fl and fl[0] == "interpreter::Interpreter" and fl[2] in fields:
                    out.setdefault(f.parent, set()).add(fl[2])
    return out, fields


def kind_guarded(fx, f, block):
    """the block lies in a non-Object arm of a match on a JsValue"""
    for bi, enum, place, arms, other, rest in M.enum_switches(fx, f):
        if enum != "value::JsValue" or "Object" not in arms:
            continue
        obj_t = arms["Object"]
        for tgt in set(list(arms.values()) + [other]):
            if tgt != obj_t and f.dominates(tgt, block) and all(p == bi for p in f.preds()[tgt]):
                return True
    return False


def unguarded_rule(fx, ck):
    ck.rule("R4.unguarded-values", "a RuntimeValue::unguarded of a possibly-object value never reaches a function that stores it in the interpreter across calls", floor=5)
    storers, fields = runtime_value_storers(fx)
    rv = rv_adts(fx)
    ck.anchor("order_responses" in fields, "Interpreter fields holding RuntimeValues across calls: %s" % sorted(fields))
    ck.anchor("interpreter::Interpreter::fulfill_orders" in storers, "storer functions: %s" % sorted(storers))
    groups = {}
    for f in fx.fns.values():
        if f.parent.startswith(("ffi::", "<ffi::")):
            groups.setdefault(f.parent, []).append(f)
    for parent, fs in sorted(groups.items()):
        ungated = []
        total = 0
        for f in fs:
            for bi, t in f.calls():
                if t[1].get("d", "").endswith("RuntimeValue::unguarded"):
                    total += 1
                    a = t[2][0] if t[2] else None
                    const_like = False
                    if a and a[0] in ("c", "m") and not a[1][1]:
                        d = f.defs().get(a[1][0], [])
                        if len(d) == 1 and d[0][1] != "T" and d[0][2][0] == "agg" and d[0][2][1].get("v") in ("Undefined", "Null", "Number", "Boolean", "String"):
                            const_like = True
                    if not const_like and not kind_guarded(fx, f, bi):
                        ungated.append(t[6])
        if not total:
            continue
        stores = []
        for f in fs:
            for bi, t in f.calls():
                d = t[1].get("d", "")
                if d in storers and any(a[0] in ("c", "m") and (M.adts_in_type(fx, f.locals[a[1][0]]) & rv) for a in t[2]):
                    stores.append((d, t[6]))
        bad = bool(ungated and stores)
        ck.instance("R4.unguarded-values", parent, F.short_span(fs[0].span), ok=not bad)
        if bad:
            ck.finding("R4.unguarded-values", "R4.unguarded-values/%s" % parent, F.short_span(ungated[0]),
                       "`%s` wraps a possibly-object value with RuntimeValue::unguarded (%s) and passes it to `%s`, which stores it in the interpreter "
                       "across calls: after the C handle is released nothing roots the object until the script receives it"
                       % (parent, F.short_span(ungated[0]), stores[0][0]))


def borrowed_error_rule(fx, ck, name="R6.borrowed-string-before-clobber"):
    """Strings the API hands out (every `.error`) point into TsRunContext.last_error and stay valid until the next
    API call; a host callback may pass such a pointer back (`*error_out = res.error`).  A function that calls
    foreign code and afterwards reads a C string must therefore read it before it modifies last_error itself:
    on no path from the foreign call to the `CStr::from_ptr` may last_error be written."""
    ck.rule(name, "between a call into foreign code and the CStr::from_ptr that reads a string it returned, TsRunContext.last_error is not written", floor=1)
    CTX = "ffi::TsRunContext"
    writers = set()
    for g in fx.fns.values():
        if g.derived:
            continue
        for bl in g.blocks:
            if bl["c"]:
                continue
            for s_ in bl["s"]:
                if s_[0] == "a" and any(adt == CTX and nm == "last_error" for (adt, v, nm) in F.place_fields(s_[1])):
                    writers.add(g.parent)
        for bi, t in g.calls():
            if t[2] and t[2][0][0] in ("c", "m"):
                fl = None
                import exits as E_
                fl = E_.field_of_ref(g, t[2][0][1][0])
                if fl and fl[0] == CTX and fl[2] == "last_error" and t[1].get("d", "").endswith(("::take", "::insert", "::replace", "::clear")):
                    writers.add(g.parent)
    ck.anchor(len(writers) >= 2, "functions writing TsRunContext.last_error (found %d: %s)" % (len(writers), ", ".join(sorted(w.split("::")[-1] for w in writers))))
    # anything that can reach a writer clobbers the buffer too
    callees, callers = fx.callgraph()
    clob = set()
    work = list(writers)
    while work:
        x = work.pop()
        if x in clob:
            continue
        clob.add(x)
        work.extend(callers.get(x, ()))
    n = 0
    for f in fx.fns.values():
        if not f.file.startswith("src/ffi") or f.derived:
            continue
        foreign = [bi for bi, t in f.calls() if "ptr" in t[1]]
        reads = [(bi, t) for bi, t in f.calls() if t[1].get("d", "").endswith("CStr::from_ptr")]
        if not foreign or not reads:
            continue
        for fb in foreign:
            after = f.reachable_from(fb)
            for rb, rt in reads:
                if rb not in after:
                    continue
                n += 1
                bad = None
                for wb, wt in f.calls():
                    d = wt[1].get("d")
                    if wb in after and wb != fb and d in fx.fns and fx.fns[d].parent in clob and rb in f.reachable_from(wb):
                        bad = (wb, wt)
                        break
                ck.instance(name, "%s: foreign call -> CStr::from_ptr" % f.parent, F.short_span(rt[6]), ok=bad is None)
                if bad is not None:
                    ck.finding(name, "%s/%s/%s" % (name, f.parent, bad[1][1]["d"].split("::")[-1]), F.short_span(bad[1][6]),
                               "`%s` calls `%s` (which writes TsRunContext.last_error) after calling foreign code and before reading the C string that code returned: "
                               "if the string is one the API itself handed out (an `.error`), it is freed before it is read" % (f.parent, bad[1][1]["d"]))
    ck.anchor(n >= 1, "foreign call followed by CStr::from_ptr in src/ffi (found %d)" % n)


def freed_once_sites(fx, files):
    """A foreign callback is given handles the caller created (`Box::into_raw`) and returns a handle the caller then
    owns (`Box::from_raw(result)`).  Nothing stops the callback from returning one of the handles it was given, so a
    free of a given handle after the call must sit on the `handle != result` edge of a comparison with the result:
    otherwise the same box is freed twice (or the result is read after it was freed)."""
    from c09 import ancestors, edge_dominates
    # helpers that free their first argument unless it equals their second (`free_handle_unless(handle, keep)`)
    unless = set()
    for g in fx.fns.values():
        if g.derived or g.closure or not g.file.startswith(files) or g.argc != 2:
            continue
        fr = [(bi, t) for bi, t in g.calls() if t[1].get("d", "").endswith("Box::<T>::from_raw") and t[2] and t[2][0][0] in ("c", "m") and 1 in ancestors(g, t[2][0][1][0])]
        if not fr:
            continue
        good = True
        for bi, t in fr:
            hit = False
            for b2, bl in enumerate(g.blocks):
                for s_ in bl["s"]:
                    if s_[0] == "a" and s_[2][0] == "bin" and s_[2][1] in ("Ne", "Eq") and not s_[1][1]:
                        sides = [o[1][0] for o in s_[2][2:4] if o[0] in ("c", "m")]
                        if len(sides) == 2 and {1, 2} <= (ancestors(g, sides[0]) | ancestors(g, sides[1])):
                            tt = bl["t"]
                            if tt[0] == "switch":
                                zero = [b for v, b in tt[2] if v == "0"]
                                ne_edge = tt[3] if s_[2][1] == "Ne" else (zero[0] if zero else None)
                                if edge_dominates(g, ne_edge, bi):
                                    hit = True
            good = good and hit
        if good:
            unless.add(g.path)
    for f in sorted(fx.fns.values(), key=lambda g: g.path):
        if not f.file.startswith(files) or f.derived:
            continue
        frees = [(bi, t) for bi, t in f.calls() if t[1].get("d", "").endswith("Box::<T>::from_raw") and t[2] and t[2][0][0] in ("c", "m")]
        via = [(bi, t) for bi, t in f.calls() if t[1].get("d") in unless and len(t[2]) == 2 and t[2][0][0] in ("c", "m") and t[2][1][0] in ("c", "m")]
        if len(frees) + len(via) < 2:
            continue
        for ib, it in f.calls():
            if "ptr" not in it[1] or it[3][1]:
                continue
            res = it[3][0]
            rty = f.locals[res]
            if fx.ty(rty)["k"] != "ptr":
                continue
            after = f.reachable_from(ib)
            given = set()
            for a in it[2]:
                if a[0] in ("c", "m"):
                    given |= ancestors(f, a[1][0])
            taken, handles = [], []
            for bi, t in frees:
                if bi not in after or bi == ib or f.locals[t[2][0][1][0]] != rty:
                    continue
                anc = ancestors(f, t[2][0][1][0])
                if res in anc:
                    taken.append((bi, t))
                elif anc & given:
                    handles.append((bi, t, anc))
            # frees delegated to an `unless` helper: guarded when the value to keep is the result
            vias = []
            for bi, t in via:
                if bi in after and bi != ib and f.locals[t[2][0][1][0]] == rty:
                    anc = ancestors(f, t[2][0][1][0])
                    if res not in anc and (anc & given):
                        vias.append((f, t, res in ancestors(f, t[2][1][1][0])))
            if not taken or not (handles or vias):
                continue
            for fv, tv, okv in vias:
                yield fv, tv, taken, okv
            # comparisons of something with the result
            cmps = []
            for bi, bl in enumerate(f.blocks):
                if bl["c"]:
                    continue
                for s_ in bl["s"]:
                    if s_[0] == "a" and s_[2][0] == "bin" and s_[2][1] in ("Ne", "Eq") and not s_[1][1]:
                        sides = [o[1][0] for o in s_[2][2:4] if o[0] in ("c", "m")]
                        if len(sides) == 2 and any(res in ancestors(f, x) for x in sides):
                            t = bl["t"]
                            if t[0] == "switch" and t[1][0] in ("c", "m") and t[1][1][0] == s_[1][0]:
                                zero = [b for v, b in t[2] if v == "0"]
                                ne_edge = t[3] if s_[2][1] == "Ne" else (zero[0] if zero else None)
                                other = [x for x in sides if res not in ancestors(f, x)]
                                cmps.append((bi, ne_edge, other))
            for bi, t, anc in handles:
                ok = any(edge_dominates(f, e, bi) and any(o in anc or (ancestors(f, o) & anc) for o in oth) for cb, e, oth in cmps)
                yield f, t, taken, ok


def freed_once_rule(fx, ck, name="R7.returned-handle-freed-once"):
    ck.rule(name, "after a foreign call whose returned pointer is taken with Box::from_raw, every Box::from_raw of a handle the callee was given is guarded by `handle != result`", floor=1)
    n = 0
    if True:
        if True:
            for f, t, taken, ok in freed_once_sites(fx, ("src/ffi",)):
                n += 1
                ck.instance(name, "%s: free of a handle given to the callee" % f.parent, F.short_span(t[6]), ok=ok)
                if not ok:
                    ck.finding(name, "%s/%s" % (name, f.parent), F.short_span(t[6]),
                               "`%s` frees a handle it passed to the foreign function (%s) and also takes ownership of the pointer that function returned (%s) "
                               "without comparing the two: a callee that returns one of its arguments makes this a double free"
                               % (f.parent, F.short_span(t[6]), F.short_span(taken[0][1][6])))
    ck.anchor(n >= 1, "frees of handles given to a foreign callee whose result is also taken (found %d)" % n)
    ctl = F.load_fixture()
    got = sorted((f.path.split("::")[-1], ok) for f, t, taken, ok in freed_once_sites(ctl, ("src/lib.rs",)) if f.path.startswith("c17free::"))
    want = [("bad_trampoline", False), ("good_trampoline", True), ("good_trampoline_eq", True)]
    if got != want:
        ck.closed_fail.append("R7 control failed: fixture reports %s (want %s)" % (got, want))
    ck.note("R7 controls: fixture bad_trampoline (frees its argument and the result unconditionally) reported; good_trampoline (`!=` guard) and good_trampoline_eq (`==` -> skip) silent")
    return n


def loop_free_sites(fx, files):
    """[(fn, call, ok, why)]: a `Box::from_raw` inside a loop frees one element of a collection per turn.  When the collection was filled by the
    host (one `add` call per element), nothing makes its elements distinct, so the same handle stored twice is freed twice - and read after
    the first free.  Discharged when the collection is built in the same function from fresh boxes (`map(|..| Box::into_raw(..))`), or when a
    membership test / dedup on pointers of that type (`contains`, `dedup`, a set `insert`) is made in the function."""
    import loops as L
    from c09 import ancestors
    kids = {}
    for g in fx.fns.values():
        if g.closure:
            kids.setdefault(g.parent, []).append(g)
    for f in sorted(fx.fns.values(), key=lambda g: g.path):
        if not f.file.startswith(files) or f.derived:
            continue
        lp = L.natural_loops(f)
        if not lp:
            continue
        inl = set()
        for hd, body in lp:
            inl |= set(body)
        for bi, t in f.calls():
            if not t[1].get("d", "").endswith("Box::<T>::from_raw") or bi not in inl or not t[2] or t[2][0][0] not in ("c", "m"):
                continue
            a = t[2][0][1][0]
            pty = f.locals[a]
            anc = ancestors(f, a)
            srcs = [(t2[1].get("d") or t2[1].get("u") or "") for b2, t2 in f.calls() if not t2[3][1] and t2[3][0] in anc]
            if not any(s_.endswith("Iterator>::next") or s_.endswith("Iterator::next") for s_ in srcs):
                continue
            fresh = any(s_.endswith("Iterator::map") for s_ in srcs) and \
                any((t3[1].get("d") or "").endswith("Box::<T>::into_raw") for g in kids.get(f.parent, []) for _, t3 in g.calls())
            dedup = False
            for b2, t2 in f.calls():
                d2 = t2[1].get("d") or ""
                if d2.endswith(("::contains", "::dedup", "::binary_search")) or (d2.endswith("::insert") and "Set<" in d2):
                    tys = set()
                    for o in t2[2]:
                        if o[0] in ("c", "m"):
                            tys.add(fx.tys(f.locals[o[1][0]]))
                    if any(fx.tys(pty) in x for x in tys):
                        dedup = True
            yield f, t, fresh or dedup, ("fresh boxes" if fresh else "deduplicated" if dedup else "no membership test")


def loop_free_rule(fx, ck, name="R11.collected-handles-freed-once"):
    ck.rule(name, "a Box::from_raw that frees the elements of a collection in a loop acts on distinct pointers: the collection is built from fresh boxes in the same "
            "function, or a membership test / dedup on that pointer type is made first", floor=2)
    n = 0
    for f, t, ok, why in loop_free_sites(fx, ("src/ffi",)):
        n += 1
        ck.instance(name, "%s: %s" % (f.parent, why), F.short_span(t[6]), ok=ok)
        if not ok:
            ck.finding(name, "%s/%s" % (name, f.parent), F.short_span(t[6]),
                       "`%s` frees every element of a host-filled collection of handles in a loop (%s) with no membership test: a handle the host stored twice "
                       "(one value exported under two names) is read after it was freed and freed again" % (f.parent, F.short_span(t[6])))
    ck.anchor(n >= 2, "frees of collection elements inside loops in src/ffi (found %d; hand count 2: the callback trampoline's arguments, the module builder's values)" % n)
    got = sorted((f.path.split("::")[-1], ok) for f, t, ok, why in loop_free_sites(F.load_fixture(), ("src/lib.rs",)) if f.path.startswith("c17loopfree::"))
    want = [("bad_drain", False), ("good_drain", True), ("good_fresh", True)]
    if got != want:
        ck.closed_fail.append("R11 control failed: fixture reports %s (want %s)" % (got, want))
    ck.note("R11 controls: fixture bad_drain (frees each element of its argument) reported; good_drain (contains before push, freed afterwards) and good_fresh (map + Box::into_raw) silent")
    return n


def state_rule(fx, prefix="ffi::", bare=("value::JsValue", "gc::Gc<")):
    """[(adt, field, type, ok)]: a struct / enum of the API layer lives from one call to a later one; a script value stored in one as a bare
    JsValue / Gc is seen by no guard (the collector does not trace these types), so it must be stored as a RuntimeValue (value + guard) or as a handle"""
    out = []
    for name, adt in sorted(fx.adts.items()):
        if not name.startswith(prefix):
            continue
        for v in adt["variants"]:
            for fld in v["fields"]:
                ts = fx.tys(fld["ty"])
                out.append((name, "%s%s" % ((v.get("name") + ".") if len(adt["variants"]) > 1 and v.get("name") else "", fld["name"]), ts, not any(b in ts for b in bare)))
    return out


def arg_positions_rule(fx, prefix=("ffi::", "<ffi::"), callee="Interpreter::call_function", argpos=3):
    """[(fn, span, ok)]: the argument vector handed to a script function is built position by position (`map`), never with `filter_map`: a NULL
    element that is left out moves every later argument one place to the left"""
    from c09 import ancestors
    out = []
    groups = {}
    for f in fx.fns.values():
        if f.parent.startswith(prefix) and not f.derived:
            groups.setdefault(f.parent, []).append(f)
    for parent, fs in sorted(groups.items()):
        for f in fs:
            for bi, t in f.calls():
                if not (t[1].get("d") or "").endswith(callee) or len(t[2]) <= argpos or t[2][argpos][0] not in ("c", "m"):
                    continue
                anc = ancestors(f, t[2][argpos][1][0])
                bad = [t2 for b2, t2 in f.calls() if (t2[1].get("u") or "").endswith("Iterator::filter_map") and not t2[3][1] and t2[3][0] in anc]
                out.append((f, t[6], not bad))
    return out


def extend_rule(fx, prefix=("ffi::", "<ffi::")):
    """[(fn, param, span, ok)]: an integer parameter of an exported function that decides how far a collection is extended (`while v.len() <= index
    { v.push(..) }`, `v.resize(n, ..)`) is compared with a constant first: `usize::MAX` must be refused, not obeyed"""
    import c10
    import loops as L
    from c09 import ancestors
    out = []
    for f in sorted(externs(fx), key=lambda g: g.path):
        ints = [p for p in range(1, f.argc + 1) if fx.tys(f.locals[p]) in ("usize", "u64", "u32")]
        if not ints:
            continue
        guards = None
        loops = L.natural_loops(f)
        for p in ints:
            sites = []
            # `while v.len() <= index { push }`: a comparison of the parameter with a len() steering a loop that pushes
            for hd, body in loops:
                pushes = [bi for bi, t in f.calls() if bi in body and (t[1].get("d") or "").endswith(("Vec::<T, A>::push", "::resize", "::reserve"))]
                if not pushes:
                    continue
                for bi in body:
                    for s_ in f.blocks[bi]["s"]:
                        if s_[0] == "a" and s_[2][0] == "bin" and s_[2][1] in ("Le", "Lt", "Ge", "Gt"):
                            ops = [o for o in s_[2][2:4] if o[0] in ("c", "m")]
                            ancs = [ancestors(f, o[1][0]) for o in ops]
                            if any(p in a for a in ancs) and any(any((t[1].get("d") or "").endswith("::len") and not t[3][1] and t[3][0] in a for _, t in f.calls()) for a in ancs):
                                sites.append((bi, s_[3]))
            for bi, t in f.calls():
                if (t[1].get("d") or "").endswith(("Vec::<T, A>::resize", "Vec::<T, A>::with_capacity", "Vec::<T, A>::reserve")):
                    if any(a[0] in ("c", "m") and p in ancestors(f, a[1][0]) for a in t[2][-1:] if (t[1].get("d") or "").endswith("with_capacity")) or \
                            any(a[0] in ("c", "m") and p in ancestors(f, a[1][0]) for a in t[2][1:2]):
                        sites.append((bi, t[6]))
            for bi, sp in sites:
                if guards is None:
                    guards = c10.guards_for(fx, f)
                ok = c10.guarded(fx, f, bi, c10.root_of(f, p), 2 ** 32, guards)
                out.append((f, f.var_name(p) or "_%d" % p, sp, ok))
    return out


def run(tier):
    ck = Check("C17", tier, "null-test dominance on MIR CFG for extern \"C\" pointer parameters (helpers, closures, array idiom) + C header parser compared with compiled signatures + RefCell-guard-held-across-hazard dataflow",
               ["aliasing of `&mut TsRunContext` re-borrowed inside native callbacks", "callback re-entrancy protocols",
                "documented lifetimes of borrowed strings", "use-after-free of handles across tsrun_free (listed under C13)"])
    fx = F.load("A")
    ck.configs.append("A: cargo +nightly check --lib --features c-api (the only configuration that contains src/ffi)")
    ck.anchor(len(externs(fx)) >= 60, "extern \"C\" #[no_mangle] functions (found %d)" % len(externs(fx)))
    nuses = null_rule(fx, ck)
    ck.note("R1 examined %d valid-pointer uses" % nuses)
    if nuses < 10:
        ck.closed_fail.append("R1 saw only %d valid-pointer uses (hand count: 25+)" % nuses)
    header_rule(fx, ck)
    guard_rule(fx, ck)
    unguarded_rule(fx, ck)
    import arraylen
    arraylen.rule(fx, ck)
    borrowed_error_rule(fx, ck)
    freed_once_rule(fx, ck)
    loop_free_rule(fx, ck)
    ck.rule("R8.api-state-holds-guarded-values", "no struct or enum of src/ffi stores a bare JsValue / Gc: script values are kept between calls as RuntimeValue (value + guard) or as handles", floor=30)
    for adt8, fld8, ty8, ok8 in state_rule(fx):
        ck.instance("R8.api-state-holds-guarded-values", "%s.%s: %s" % (adt8, fld8, ty8), None, ok=ok8, nontrivial=not ok8)
        if not ok8:
            ck.finding("R8.api-state-holds-guarded-values", "R8.api-state-holds-guarded-values/%s/%s" % (adt8, fld8), None,
                       "`%s` keeps a script value in `%s: %s`: the collector does not trace API-layer state, so an object stored there between two calls (a module builder's "
                       "export between add_value and register) is swept by the next collection and the script reads a recycled object" % (adt8, fld8, ty8))
    ck.rule("R9.argument-positions-kept", "the argument vector a C API function hands to a script function is built with `map`, never `filter_map` (a NULL element is `undefined`, "
            "not a gap)", floor=2)
    for f9, sp9, ok9 in arg_positions_rule(fx):
        ck.instance("R9.argument-positions-kept", f9.parent, F.short_span(sp9), ok=ok9)
        if not ok9:
            ck.finding("R9.argument-positions-kept", "R9.argument-positions-kept/%s" % f9.parent, F.short_span(sp9),
                       "`%s` builds the argument list with `filter_map`: a NULL element is dropped and the later arguments move one place to the left "
                       "(`f(NULL, 2)` reaches the script as `f(2)`)" % f9.parent)
    ck.rule("R10.host-sizes-bounded", "an integer parameter of an exported function that decides how far a collection is extended is compared with a constant first", floor=1)
    for f10, p10, sp10, ok10 in extend_rule(fx):
        ck.instance("R10.host-sizes-bounded", "%s(%s)" % (f10.path.split("::")[-1], p10), F.short_span(sp10), ok=ok10)
        if not ok10:
            ck.finding("R10.host-sizes-bounded", "R10.host-sizes-bounded/%s/%s" % (f10.path.split("::")[-1], p10), F.short_span(sp10),
                       "`%s` extends a collection up to the host-supplied `%s` without an upper bound: `usize::MAX` makes the loop run until memory is exhausted "
                       "(the process aborts inside extern \"C\")" % (f10.path.split("::")[-1], p10))
    got8 = sorted((a.split("::")[-1], ok) for a, fl, ty, ok in state_rule(F.load_fixture(), prefix="c17state::"))
    if got8 != [("BadBuilder", False), ("GoodBuilder", True), ("GoodHandles", True)]:
        ck.closed_fail.append("R8 control failed: fixture gives %s" % got8)
    return ck.finish()
