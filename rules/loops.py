"""Natural loops of a MIR body and a progress classification (iterator / counter / drain driven)."""
import re

import facts as F
import mir as M

ITER_NEXT = re.compile(r"(iter::Iterator>::next$|Iterator::next$|DoubleEndedIterator>::next_back$|::next$|::next_back$|::pop$|::pop_front$|::pop_back$|::take$|::next_token$|::advance$)")


def natural_loops(f):
    """[(header, set(blocks))] from back edges u->h with h dominating u (non-unwind edges)"""
    loops = {}
    n = len(f.blocks)
    idom = f.idom()
    for u in range(n):
        if idom[u] is None and u != 0:
            continue
        for h in f.succ(u):
            if f.dominates(h, u):
                body = loops.setdefault(h, {h})
                work = [u]
                while work:
                    x = work.pop()
                    if x in body:
                        continue
                    body.add(x)
                    work.extend(f.preds()[x])
    return sorted(loops.items())


def classify(fx, f, header, body):
    """'iterator' if some exit test depends on the result of an Iterator::next/pop-like call made in
    the loop; 'counter' if an exit comparison involves a local that the loop changes by a constant
    step; 'call' if every cycle passes a call that can return Err/exit (left to the caller to judge);
    otherwise 'unbounded?'"""
    exits = []
    for b in body:
        for s in f.succ(b):
            if s not in body:
                exits.append((b, s))
    kinds = set()
    # values produced by next()-like calls inside the loop
    nexts = set()
    for b in body:
        t = f.blocks[b]["t"]
        if t[0] == "call" and ITER_NEXT.search(t[1].get("d", "") or "") and not t[3][1]:
            nexts.add(t[3][0])
    stepped = set()
    for b in body:
        for s in f.blocks[b]["s"]:
            if s[0] == "a" and s[2][0] == "bin" and s[2][1] in ("Add", "Sub", "AddWithOverflow", "SubWithOverflow", "AddUnchecked", "SubUnchecked") and (M.const_int(s[2][3]) is not None or M.const_int(s[2][2]) is not None):
                for op in (s[2][2], s[2][3]):
                    if op[0] in ("c", "m"):
                        stepped.add(F.place_fields(op[1])[-1][2] if F.place_fields(op[1]) else op[1][0])
    for (b, s) in exits:
        t = f.blocks[b]["t"]
        if t[0] != "switch" or t[1][0] not in ("c", "m"):
            if t[0] == "call":
                kinds.add("call-exit")
            continue
        cl = t[1][1][0]
        # discriminant of a next() result?
        for st in f.blocks[b]["s"]:
            if st[0] == "a" and st[1][0] == cl and st[2][0] == "disc":
                base = st[2][1][0]
                if base in nexts or any(base == x for x in nexts):
                    kinds.add("iterator")
                else:
                    # moved copy of a next() result
                    d0 = M.trace_back(f, base)
                    if d0 and d0[1] == "T" and ITER_NEXT.search(d0[2][1].get("d", "") or ""):
                        kinds.add("iterator")
            if st[0] == "a" and st[1][0] == cl and st[2][0] == "bin" and st[2][1] in ("Lt", "Le", "Gt", "Ge", "Eq", "Ne"):
                for op in (st[2][2], st[2][3]):
                    if op[0] in ("c", "m"):
                        key = F.place_fields(op[1])[-1][2] if F.place_fields(op[1]) else op[1][0]
                        root = key
                        if not isinstance(key, str):
                            d0 = M.trace_back(f, key)
                            if d0 and d0[1] != "T" and d0[2][0] == "use" and d0[2][1][0] in ("c", "m"):
                                fl = F.place_fields(d0[2][1][1])
                                root = fl[-1][2] if fl else d0[2][1][1][0]
                        if key in stepped or root in stepped:
                            kinds.add("counter")
        # bool result of a call such as is_empty()/is_at_end() evaluated in the loop
        d0 = M.trace_back(f, cl)
        if d0 and d0[1] == "T":
            kinds.add("call-test:" + (d0[2][1].get("d", "?").split("::")[-1]))
    return kinds
