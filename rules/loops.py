"""Natural loops of a MIR body and a progress classification (iterator / counter / drain driven)."""
import re

import facts as F
import mir as M

ITER_NEXT = re.compile(r"(iter::Iterator>::next$|Iterator::next$|DoubleEndedIterator>::next_back$|::next$|::next_back$|::pop$|::pop_front$|::pop_back$|::take$|::next_token$|::advance$)")


def natural_loops(f):
    """[(header, set(blocks))] from back edges u->h with h dominating u (non-unwind edges)"""
    loops = {}
    n = len(f.blocks)
    idom = f.idom()
    for u in range(n):
        if idom[u] is None and u != 0:
            continue
        for h in f.succ(u):
            if f.dominates(h, u):
                body = loops.setdefault(h, {h})
                work = [u]
                while work:
                    x = work.pop()
                    if x in body:
                        continue
                    body.add(x)
                    work.extend(f.preds()[x])
    return sorted(loops.items())


def classify(fx, f, header, body):
    """'iterator' if some exit test depends on the result of an Iterator::next/pop-like call made in
    the loop; 'counter' if an exit comparison involves a local that the loop changes by a constant
    step; 'call' if every cycle passes a call that can return Err/exit (left to the caller to judge);
    otherwise 'unbounded?'"""
    exits = []
    for b in body:
        for s in f.succ(b):
            if s not in body:
                exits.append((b, s))
    kinds = set()
    # values produced by next()-like calls inside the loop
    nexts = set()
    for b in body:
        t = f.blocks[b]["t"]
        if t[0] == "call" and ITER_NEXT.search(t[1].get("d", "") or "") and not t[3][1]:
            nexts.add(t[3][0])
    stepped = set()
    for b in body:
        for s in f.blocks[b]["s"]:
            if s[0] == "a" and s[2][0] == "bin" and s[2][1] in ("Add", "Sub", "AddWithOverflow", "SubWithOverflow", "AddUnchecked", "SubUnchecked") and (M.const_int(s[2][3]) is not None or M.const_int(s[2][2]) is not None):
                for op in (s[2][2], s[2][3]):
                    if op[0] in ("c", "m"):
                        stepped.add(F.place_fields(op[1])[-1][2] if F.place_fields(op[1]) else op[1][0])
    for (b, s) in exits:
        t = f.blocks[b]["t"]
        if t[0] != "switch" or t[1][0] not in ("c", "m"):
            if t[0] == "call":
                kinds.add("call-exit")
            continue
        cl = t[1][1][0]
        # discriminant of a next() result?
        for st in f.blocks[b]["s"]:
            if st[0] == "a" and st[1][0] == cl and st[2][0] == "disc":
                base = st[2][1][0]
                if base in nexts or any(base == x for x in nexts):
                    kinds.add("iterator")
                else:
                    # moved copy of a next() result
                    d0 = M.trace_back(f, base)
                    if d0 and d0[1] == "T" and ITER_NEXT.search(d0[2][1].get("d", "") or ""):
                        kinds.add("iterator")
            if st[0] == "a" and st[1][0] == cl and st[2][0] == "bin" and st[2][1] in ("Lt", "Le", "Gt", "Ge", "Eq", "Ne"):
                for op in (st[2][2], st[2][3]):
                    if op[0] in ("c", "m"):
                        key = F.place_fields(op[1])[-1][2] if F.place_fields(op[1]) else op[1][0]
                        root = key
                        if not isinstance(key, str):
                            d0 = M.trace_back(f, key)
                            if d0 and d0[1] != "T" and d0[2][0] == "use" and d0[2][1][0] in ("c", "m"):
                                fl = F.place_fields(d0[2][1][1])
                                root = fl[-1][2] if fl else d0[2][1][1][0]
                        if key in stepped or root in stepped:
                            kinds.add("counter")
        # bool result of a call such as is_empty()/is_at_end() evaluated in the loop
        d0 = M.trace_back(f, cl)
        if d0 and d0[1] == "T":
            kinds.add("call-test:" + (d0[2][1].get("d", "?").split("::")[-1]))
    return kinds


# ------------------------------------------------------------------ parser / lexer progress (C05)
TOKEN_PRESENT = re.compile(r"::(check|match_token|check_keyword|match_keyword|check_identifier|check_contextual|is_[a-z_]*start|peek_is|check_any|match_any|is_ascii_[a-z]+|is_id_continue_char|is_id_start_char|is_digit|is_alphanumeric|is_whitespace|is_ascii_digit|is_ascii_hexdigit)$")
AT_END = re.compile(r"::(is_at_end|is_eof|at_end)$")
OPTION_SRC = re.compile(r"::(peek|peek_char|peek_next|current_char|advance|next_char|next|peek_at|peek_ahead|get|chars|pop)$")


def _bool_switch(f, b):
    """(callee, true_target, false_target) if block b switches on the boolean result of a call
    (possibly negated) made in a predecessor chain within the same straight line"""
    t = f.blocks[b]["t"]
    if t[0] != "switch" or t[1][0] not in ("c", "m"):
        return None
    cur = t[1][1][0]
    neg = False
    for s in reversed(f.blocks[b]["s"]):
        if s[0] == "a" and s[1][0] == cur and not s[1][1] and s[2][0] == "un" and s[2][1] == "Not" and s[2][2][0] in ("c", "m"):
            cur = s[2][2][1][0]
            neg = not neg
    d0 = M.trace_back(f, cur)
    if not d0 or d0[1] != "T":
        return None
    false_t = next((x for v, x in t[2] if v == "0"), None)
    if false_t is None:
        return None
    true_t = t[3]
    if neg:
        true_t, false_t = false_t, true_t
    return d0[2][1].get("d", ""), true_t, false_t


def _self_state_place(f, pl, depth=0):
    """does the place read the parser/lexer's own state (a field of `self`, possibly through refs)?"""
    if pl[0] == 1 and any(isinstance(e, list) and e[0] == "f" for e in pl[1]):
        return True
    if depth > 4:
        return False
    d0 = M.trace_back(f, pl[0])
    if d0 and d0[1] != "T":
        rv = d0[2]
        if rv[0] == "ref":
            return _self_state_place(f, rv[2], depth + 1)
        if rv[0] == "use" and rv[1][0] in ("c", "m"):
            return _self_state_place(f, rv[1][1], depth + 1)
    if d0 and d0[1] == "T":
        t = d0[2]
        name = t[1].get("d", "")
        if name.endswith(("clone::Clone>::clone", "cheap_clone", "::clone")) and t[2] and t[2][0][0] in ("c", "m"):
            return _self_state_place(f, t[2][0][1], depth + 1)
    return False


def is_query_switch(f, b):
    """block b switches on a query of the input state: a call result (bool, or discriminant /
    comparison of a returned Option/Result/char) or a read of the parser/lexer's own fields"""
    t = f.blocks[b]["t"]
    if t[0] != "switch" or t[1][0] not in ("c", "m"):
        return False
    if _bool_switch(f, b):
        return True
    cl = t[1][1][0]
    for st in f.blocks[b]["s"]:
        if st[0] == "a" and st[1][0] == cl and st[2][0] in ("disc", "bin", "use"):
            for pl in F.rvalue_places(st[2]):
                if _self_state_place(f, pl):
                    return True
                d0 = M.trace_back(f, pl[0])
                if d0 and d0[1] == "T":
                    return True
                if d0 and d0[1] != "T" and d0[2][0] == "use" and d0[2][1][0] in ("c", "m"):
                    d1 = M.trace_back(f, d0[2][1][1][0])
                    if (d1 and d1[1] == "T") or d0[2][1][1][1]:
                        return True
    return False


def unguarded_cycle(fx, f, header, body):
    """True if the loop has a cycle on which no exit test depends on a *query of the input state*.
    gate  = a block inside the loop, with a successor outside it, whose switch is a query (see
            is_query_switch), an iterator/counter test, or a `matches!`-style merge of constants that is
            control dependent on a query inside the loop;
    progress edge = the *true* edge of a token-present test (check / match_token / char class) or the
            *false* edge of is_at_end(): a real token is there to be consumed.
    A cycle that passes no gate and no progress edge can only be left through tests on local flags
    and counters: at end of input (where advance() no longer consumes) it spins forever."""
    kinds = classify(fx, f, header, body)
    queries = {b for b in body if is_query_switch(f, b)}
    gates = set()
    for b in body:
        if not any(s not in body for s in f.succ(b)):
            continue
        t = f.blocks[b]["t"]
        if t[0] == "call":
            gates.add(b)
            continue
        if t[0] != "switch":
            continue
        if b in queries or (kinds & {"iterator", "counter"}):
            gates.add(b)
            continue
        if t[1][0] in ("c", "m") and not t[1][1][1]:
            defs = f.defs().get(t[1][1][0], [])
            if len(defs) >= 2 and all(si != "T" and rv[0] == "use" and rv[1][0] == "k" for (db, si, rv) in defs):
                for c in queries:
                    if f.dominates(c, b) and all(f.dominates(c, db) for (db, si, rv) in defs):
                        gates.add(b)
                        break
    progress = set()
    for b in body:
        bs = _bool_switch(f, b)
        if bs:
            d, tt, ft = bs
            if TOKEN_PRESENT.search(d):
                progress.add((b, tt))
            elif AT_END.search(d):
                progress.add((b, ft))
    # matching the current token's kind against specific variants: entering an arm other than the
    # catch-all (and other than Eof) means that token is there to be consumed
    for sb, en, place, arms, other, rest in M.enum_switches(fx, f):
        if sb in body and en.endswith("TokenKind") and _self_state_place(f, place):
            for var, tgt in arms.items():
                if var not in ("Eof", "EOF") and tgt != other:
                    progress.add((sb, tgt))
    if header in gates:
        return False
    seen = set()
    work = [s for s in f.succ(header) if s in body and s not in gates and (header, s) not in progress]
    while work:
        x = work.pop()
        if x == header:
            return True
        if x in seen:
            continue
        seen.add(x)
        for s in f.succ(x):
            if s in body and s not in gates and (x, s) not in progress:
                work.append(s)
    return False
