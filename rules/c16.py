"""C16 - data crosses the JSON boundary intact: two structural clauses.

Decided:
  R1 canonical property keys (representation invariant of PropertyKey): `PropertyKey::String(s)`
     must never hold a canonical array index.  Every construction of that variant is classified by
     the provenance of its payload: a non-numeric string literal; inside a canonicalising
     constructor (a function that builds both `Index` and `String` after a numeric test); a
     parameter that every caller fills with a literal; a binding / member name that is an
     identifier by the grammar (reasoned table); otherwise it is dynamic text and a finding
     (`JSON.parse('{"1":"x"}')[1]` would be undefined);
  R2 cycle refusal on the JSON export path: the recursive call of the exporter is dominated by the
     visited-set membership test, and the object is removed from the set again on the way out.
Not decided: fidelity of strings, numbers and ordering (values; serde_json is trusted); depth of
acyclic graphs (C06 R3).
"""
import re

from common import Check
import facts as F
import mir as M

PK = "value::PropertyKey"
CONVERT = re.compile(r"(JsString as std::convert::From<&str>>::from$|::intern$|<.* as std::convert::From<.*>>::from$|::into$|::to_string$|::to_owned$|cheap_clone$|::clone$|::as_str$|::deref$|JsString::new$|::from_str$|::as_ref$)")
# functions whose PropertyKey::String payloads are names that the grammar restricts to identifiers
IDENTIFIER_SOURCES = {
    "interpreter::bytecode_vm::BytecodeVM::execute_op": "names read from the chunk's constant pool: global / member / private names emitted by the compiler, which canonicalises literal keys itself",
    "interpreter::Interpreter::call_function_with_new_target": "parameter names of the callee (identifiers)",
    "interpreter::Interpreter::finalize_module_exports": "export names of a module (identifiers)",
    "interpreter::Interpreter::execute_pending_module": "export names of a module (identifiers)",
    "interpreter::Interpreter::create_source_module_object": "export names of a module (identifiers)",
    "interpreter::Interpreter::create_native_module_object": "export names of a registered native module (identifiers chosen by the host, importable only as identifiers)",
    "interpreter::Interpreter::setup_import_bindings": "imported names (identifiers)",
    "ffi::native::tsrun_register_internal_module": "export names of a registered native module (importable only as identifiers)",
    "value::EnumData::keys": "dead type (EnumData is constructed nowhere)",
    "interpreter::Interpreter::env_get": "variable names looked up on the global object (identifiers)",
    "interpreter::Interpreter::get_export": "export names of the main module (identifiers)",
}


def is_index_literal(s):
    return bool(re.fullmatch(r"0|[1-9][0-9]{0,9}", s)) and int(s) < 2 ** 32 - 1


def array_literals(fx, f, local, depth=0):
    """the string literals of the array an iterator local ranges over (`["a", "b"].into_iter()`), or None"""
    if depth > 10:
        return None
    ds = f.defs().get(local, [])
    if len(ds) != 1:
        return None
    bi, si, rv = ds[0]
    if si == "T":
        if (rv[1].get("u") or "").endswith(("IntoIterator::into_iter", "::iter")) and rv[2] and rv[2][0][0] in ("c", "m") and not rv[2][0][1][1]:
            return array_literals(fx, f, rv[2][0][1][0], depth + 1)
        return None
    if rv[0] in ("use",) and rv[1][0] in ("c", "m") and not rv[1][1][1]:
        return array_literals(fx, f, rv[1][1][0], depth + 1)
    if rv[0] == "ref" and rv[2][1] in ([], ["*"]):
        return array_literals(fx, f, rv[2][0], depth + 1)
    if rv[0] == "agg" and isinstance(rv[1], dict) and rv[1].get("k") == "array":
        out = []
        for o in rv[2]:
            r = provenance(fx, f, o, depth + 1)
            if not r or r[0] != "lit":
                return None
            out.append(r[1])
        return out or None
    return None


def provenance(fx, f, op, depth=0):
    """('lit', text) | ('param', i) | ('call', callee) | ('multi-lit', [..]) | None"""
    if op[0] == "k":
        s = M.const_str(op)
        return ("lit", s) if s is not None else None
    if op[0] not in ("c", "m") or depth > 10:
        return None
    base = op[1][0]
    if 1 <= base <= f.argc:
        return ("param", base)
    ds = f.defs().get(base, [])
    if not ds:
        return None
    if len(ds) > 1:
        lits = []
        for bi, si, rv in ds:
            if si == "T":
                return None
            if rv[0] != "use":
                return None
            r = provenance(fx, f, rv[1], depth + 1)
            if not r or r[0] not in ("lit", "multi-lit"):
                return None
            lits.extend([r[1]] if r[0] == "lit" else r[1])
        return ("multi-lit", lits)
    bi, si, rv = ds[0]
    if si == "T":
        name = rv[1].get("d", "")
        if CONVERT.search(name) and rv[2]:
            arg = rv[2][-1] if name.endswith("::intern") else rv[2][0]
            r = provenance(fx, f, arg, depth + 1)
            if r:
                return r
        return ("call", name)
    if rv[0] == "use":
        if rv[1][0] in ("c", "m") and rv[1][1][1]:
            # a field of a tuple / struct local: all of whose definitions are literal aggregates?
            src = rv[1][1]
            idx = [e[1] for e in src[1] if isinstance(e, list) and e[0] == "f"]
            # `for name in ["a", "b"]`: the Some payload of next() on an iterator over an array of literals
            d0 = f.defs().get(src[0], [])
            if len(d0) == 1 and d0[0][1] == "T" and (d0[0][2][1].get("u") or "").endswith("Iterator::next") and d0[0][2][2] and d0[0][2][2][0][0] in ("c", "m"):
                al = array_literals(fx, f, d0[0][2][2][0][1][0])
                if al:
                    return ("multi-lit", al)
            lits = []
            for (b2, s2, r2) in f.defs().get(src[0], []):
                if s2 != "T" and r2[0] == "agg" and idx and idx[0] < len(r2[2]):
                    r = provenance(fx, f, r2[2][idx[0]], depth + 1)
                    if r and r[0] == "lit":
                        lits.append(r[1])
                        continue
                lits = None
                break
            if lits:
                return ("multi-lit", lits)
        return provenance(fx, f, rv[1], depth + 1)
    if rv[0] == "ref":
        return provenance(fx, f, ["c", rv[2]], depth + 1)
    if rv[0] == "cast":
        return provenance(fx, f, rv[2], depth + 1)
    return None


def string_key_sites(fx):
    for f in fx.fns.values():
        if f.derived:
            continue
        for bi, bl in enumerate(f.blocks):
            for s in bl["s"]:
                if s[0] == "a" and s[2][0] == "agg" and s[2][1].get("p") == PK and s[2][1]["v"] == "String":
                    yield f, bi, s


def index_helpers(fx):
    """local functions that decide whether a text is an index: they return (an Option of) u32 and parse the text as u32 themselves
    (`fn canonical_index(name: &str) -> Option<u32>` shared by several constructors)"""
    out = set()
    for f in fx.fns.values():
        if f.derived or f.closure or not f.sig or "u32" not in fx.tys(f.sig[-1]):
            continue
        for bi, t in f.calls():
            d = t[1].get("d", "")
            if d.endswith("::parse") and "u32" in [fx.tys(x) for x in t[1].get("targs", [])]:
                out.add(f.path)
    return out


def canonicalisers(fx):
    """functions that construct both PropertyKey::Index and PropertyKey::String and perform a numeric test (themselves or through an
    index helper)"""
    out = set()
    helpers = index_helpers(fx)
    for f in fx.fns.values():
        vs = set()
        for bl in f.blocks:
            for s in bl["s"]:
                if s[0] == "a" and s[2][0] == "agg" and s[2][1].get("p") == PK:
                    vs.add(s[2][1]["v"])
        if {"Index", "String"} <= vs:
            numeric = False
            for bi, t in f.calls():
                d = t[1].get("d", "")
                if d.endswith(("::parse", "str::<impl str>::parse")) or "parse::<u32>" in d or d.endswith("math::fract") or d in helpers:
                    numeric = True
            for bl in f.blocks:
                for s in bl["s"]:
                    if s[0] == "a" and s[2][0] == "cast" and s[2][1] in ("FloatToInt", "IntToFloat"):
                        numeric = True
            if numeric:
                out.add(f.parent)
    return out


def callers_pass_literals(fx, f, param):
    """every call of f passes a non-index string literal for parameter `param`"""
    n = 0
    for g in fx.fns.values():
        for bi, t in g.calls():
            if t[1].get("d") == f.path:
                n += 1
                if param - 1 >= len(t[2]):
                    return False, n
                r = provenance(fx, g, t[2][param - 1])
                if not r or r[0] not in ("lit", "multi-lit"):
                    return False, n
                lits = [r[1]] if r[0] == "lit" else r[1]
                if any(is_index_literal(x) for x in lits):
                    return False, n
    return n > 0, n


def text_rewrites(fx, serializer_re):
    """(fn, #serializer calls, [(method, constant pattern or None, span)]) per function group that calls a JSON serializer"""
    import re as _re
    out = []
    for f in fx.fns.values():
        if f.closure or f.derived:
            continue
        grp = fx.body_group(f)
        ser = [t for g in grp for _, t in g.calls() if _re.search(serializer_re, t[1].get("d", ""))]
        if not ser:
            continue
        reps = [(t[1]["d"].split("::")[-1], M.const_str(t[2][1]) if len(t[2]) > 1 else None, t[6]) for g in grp for _, t in g.calls()
                if _re.search(r"(<impl str>::replace(n)?$|String::replace_range$)", t[1].get("d", ""))]
        out.append((f, len(ser), reps))
    return out


def member_omission(fx, ck, name, scope):
    """R4: in a loop that fills a JSON object (`Map::insert`), a member may be skipped only on the positive edge of `val is Undefined`.
    A skip decided by the *converted* value (`json_val.is_null()`) also drops NaN / Infinity members, which JSON.stringify writes as null."""
    import loops as L
    n = 0
    omitted_kinds = {}
    member_omission.kinds = omitted_kinds
    ck.rule(name, "every path on which the exporter leaves a member out of an object passes the positive edge of a test of what the source value is "
                  "(`Undefined`, `Symbol`, callable)")
    for p, f in sorted(fx.fns.items()):
        if f.closure or not scope(f):
            continue
        inserts = [bi for bi, t in f.calls() if re.search(r"serde_json::(map::)?Map::<.*>::insert$|c16omit::Map::insert$", t[1].get("d", ""))]
        if not inserts:
            continue
        for hd, body in L.natural_loops(f):
            ins = [b for b in inserts if b in body]
            # member loops only: the inserted value is what the converter made of the loop's element
            from c09 import ancestors
            conv_blocks = {bi for bi, t in f.calls() if bi in body and t[1].get("local") and "Json" in fx.tys(f.locals[t[3][0]]) + "Json"
                           and (t[1].get("d") == p or (t[1].get("d") or "").endswith("::convert"))}
            conv_locals = {f.blocks[b]["t"][3][0] for b in conv_blocks}
            ins = [b for b in ins if len(f.blocks[b]["t"][2]) >= 3 and f.blocks[b]["t"][2][2][0] in ("c", "m")
                   and ancestors(f, f.blocks[b]["t"][2][2][1][0]) & conv_locals]
            if not ins:
                continue
            # smallest loop around the insert only
            if any(h2 != hd and set(ins) <= b2 and len(b2) < len(body) for h2, b2 in L.natural_loops(f)):
                continue
            n += 1
            # tests of what the source value IS: the Undefined / Symbol arms of a match on it, the true edge of `is_callable()`
            undef = set()
            kinds_tested = set()
            for sb, en, place, arms, other, rest in M.enum_switches(fx, f):
                if en.endswith("JsValue") and sb in body:
                    for v in ("Undefined", "Symbol"):
                        if v in arms and {w for w, t2 in arms.items() if t2 == arms[v]} <= {"Undefined", "Symbol"}:
                            undef.add(arms[v])
                            kinds_tested.add(v)
            import modlook
            for bi, t in f.calls():
                if bi in body and (t[1].get("d") or "").endswith("::is_callable"):
                    tt = modlook.true_target(f, bi)
                    if tt is not None:
                        undef.add(tt)
                        kinds_tested.add("Function")
            omitted_kinds[p] = omitted_kinds.get(p, set()) | kinds_tested
            # a cycle through the header that avoids the insert and every Undefined edge = a member skipped for another reason
            stop = set(ins) | undef
            reach = M.reach_bool_sensitive(fx, f, f.succ(hd), stop=stop, within=body)
            skip = any(hd in f.succ(b) for b in reach if b not in stop)
            # paths that leave through an error (`?`) are not omissions; only the back edge counts
            ok = not skip
            ck.instance(name, "%s: member loop" % p, F.short_span(f.blocks[ins[0]]["t"][6]), ok=ok)
            if not ok:
                ck.finding(name, "%s/%s" % (name, p), F.short_span(f.blocks[ins[0]]["t"][6]),
                           "`%s` can leave a member out of the object on a path that does not test the source value for `Undefined`: a member whose "
                           "value merely converts to null (NaN, Infinity) disappears instead of being written as null" % p)
    return n


def run(tier):
    ck = Check("C16", tier, "representation-invariant check at every construction site of PropertyKey::String (operand provenance, canonicaliser discovery, one level of caller provenance) + dominance of the JSON exporter's recursion by its visited-set test",
               ["fidelity of strings, numbers and key order through serde_json (values)", "depth of acyclic graphs (C06 R3)"])
    fx = F.load("A")
    ck.configs.append("A: cargo +nightly check --lib --features c-api")
    ck.anchor(PK in fx.adts, "enum value::PropertyKey")
    canon = canonicalisers(fx)
    ck.anchor({"interpreter::Interpreter::property_key", "value::PropertyKey::from_value"} <= canon, "canonicalising constructors discovered: %s" % sorted(canon))
    ck.rule("R1.canonical-keys", "PropertyKey::String is only built from non-index literals, inside canonicalising constructors, from literal-fed parameters or from identifier-class names", floor=340)
    for f, bi, s in string_key_sites(fx):
        r = provenance(fx, f, s[2][2][0])
        where = F.short_span(s[3])
        ok = False
        why = "dynamic text"
        if f.parent in canon:
            ok, why = True, "inside canonicalising constructor"
        elif r and r[0] in ("lit", "multi-lit"):
            lits = [r[1]] if r[0] == "lit" else r[1]
            bad = [x for x in lits if is_index_literal(x)]
            ok, why = (not bad), ("literal %r" % lits[0] if not bad else "index-like literal %r" % bad[0])
        elif r and r[0] == "param":
            good, n = callers_pass_literals(fx, f, r[1])
            ok, why = good, ("parameter fed with literals by all %d callers" % n if good else "parameter `%s` receives non-literal text" % (f.var_name(r[1]) or r[1]))
        if not ok and f.parent in IDENTIFIER_SOURCES:
            ok, why = True, "identifier class: " + IDENTIFIER_SOURCES[f.parent]
        elif not ok and M.only_called_from(fx, f.parent, set(IDENTIFIER_SOURCES)):
            ok, why = True, "identifier class: helper called only from identifier-class functions"
        ck.instance("R1.canonical-keys", "%s [%s]" % (f.parent, why), where, ok=ok, nontrivial=(why != "inside canonicalising constructor"))
        if not ok:
            ck.finding("R1.canonical-keys", "R1.canonical-keys/%s" % f.parent, where,
                       "`%s` builds PropertyKey::String from %s: a name such as '1' becomes a string key that index access (`obj[1]`, array elements) never finds"
                       % (f.parent, why))
    for p in IDENTIFIER_SOURCES:
        ck.anchor(p in fx.fns or p.endswith("EnumData::keys"), "function " + p)

    # R1b: the text canonicalisers agree on what a canonical index is: parse as u32 AND print back to the same text
    ck.rule("R1b.canonicaliser-roundtrip", "every canonicaliser that parses text as u32 also compares the printed-back index with the text (leading zeros, '+1', ' 1' are not indices)", floor=4)
    helpers9 = index_helpers(fx)
    for p in sorted(canon):
        f = fx.fns[p]
        parses = prints = compares = False
        group = list(fx.body_group(f))
        for g in list(group):
            for bi, t in g.calls():
                if t[1].get("d") in helpers9 and fx.fns[t[1]["d"]] not in group:
                    group.extend(fx.body_group(fx.fns[t[1]["d"]]))
        for g in group:
            for bi, t in g.calls():
                d = t[1].get("d", "")
                targs = [fx.tys(x) for x in t[1].get("targs", [])]
                if d.endswith("::parse") and (("u32" in targs) or d.endswith("JsString::parse")):
                    parses = True
                if d.endswith("ToString>::to_string") or d.endswith("::to_string"):
                    if "u32" in targs:
                        prints = True
                if d.endswith("PartialEq<&str>>::eq") or d.endswith("::eq") or d.endswith("PartialEq>::eq"):
                    compares = True
        if not (parses or prints):
            continue
        ok = prints and compares
        ck.instance("R1b.canonicaliser-roundtrip", p, F.short_span(f.span), ok=ok)
        if not ok:
            ck.finding("R1b.canonicaliser-roundtrip", "R1b.canonicaliser-roundtrip/" + p, F.short_span(f.span),
                       "`%s` accepts any text that parses as u32 as an array index without printing it back: '007' becomes index 7, so `obj['007']` and `obj[7]` collide and sibling canonicalisers disagree" % p)

    # R1c: the consumer side of the invariant.  A `PropertyKey::String` is never an index, so code that meets one must not try to read an
    # index out of it: an integer parse of the text accepts what the canonicaliser refused ("01", "+1", "4294967296").
    ck.rule("R1c.no-reparse-of-string-keys", "no arm for PropertyKey::String parses the key's text as an integer (a string key is never an array index)", floor=20)
    n1c = 0
    for p1, f1 in sorted(fx.fns.items()):
        if f1.derived:
            continue
        for b1, en1, pl1, arms1, other1, rest1 in M.enum_switches(fx, f1):
            if en1 != PK or "String" not in arms1:
                continue
            n1c += 1
            tgt1 = arms1["String"]
            bad1 = []
            if all(q == b1 for q in f1.preds()[tgt1]):
                reg1 = M.dominated_region(f1, tgt1)
                for b2, t1 in f1.calls():
                    d1 = t1[1].get("d") or ""
                    targs1 = [fx.tys(x) for x in t1[1].get("targs", [])]
                    if b2 in reg1 and d1.endswith(("str::<impl str>::parse", "JsString::parse")) and targs1 and targs1[0] in ("usize", "u32", "u64", "i32", "i64", "isize", "u16", "u8"):
                        bad1.append((t1, targs1[0]))
            ck.instance("R1c.no-reparse-of-string-keys", "%s: String arm" % f1.path, F.short_span(f1.blocks[b1]["t"][-1]) if isinstance(f1.blocks[b1]["t"][-1], str) else None, ok=not bad1,
                        nontrivial=bool(bad1))
            for t1, ty1 in bad1:
                ck.finding("R1c.no-reparse-of-string-keys", "R1c.no-reparse-of-string-keys/%s" % (f1.parent if f1.closure else f1.path), F.short_span(t1[6]),
                           "`%s` parses the text of a PropertyKey::String as %s: canonical indices arrive as PropertyKey::Index, so what parses here is a non-canonical "
                           "spelling - `[10,20].hasOwnProperty(\"01\")` is true and `Object.defineProperty(arr, \"01\", {value: 5})` overwrites element 1" % (f1.path, ty1))
    ck.anchor(n1c >= 20, "matches on PropertyKey with a String arm (found %d)" % n1c)

    # ---------------- R2
    ck.rule("R2.json-cycle-refusal", "the JSON exporter's recursion is dominated by the visited-set test and undone on exit", floor=1)
    ex = fx.fns.get("interpreter::builtins::json::js_value_to_json_with_visited")
    if ck.anchor(ex is not None, "json::js_value_to_json_with_visited"):
        # recursion sites: direct self calls, and calls of helpers through which the exporter reaches itself again (`enum_to_json`)
        cg, _ = fx.callgraph()
        back = set()
        for p2 in fx.fns:
            if p2 != ex.path and ex.path in M.reachable_fns(fx, [p2]) and p2.startswith("interpreter::builtins::json::"):
                back.add(p2)
        rec = [(bi, t) for bi, t in ex.calls() if t[1].get("d") == ex.path or t[1].get("d") in back]
        tests = []
        inserts = []
        for bi, t in ex.calls():
            if re.search(r"HashSet::<[^>]*>::contains$", t[1].get("d", "")) and t[4] >= 0:
                blk = ex.blocks[t[4]]
                sw = blk["t"]
                if sw[0] == "switch":
                    false_t = next((x for v, x in sw[2] if v == "0"), None)
                    if false_t is not None:
                        tests.append((t[4], false_t))
            # `if !visited.insert(id) { refuse }`: insert() answers whether the id was new - test and record in one call
            if re.search(r"HashSet::<[^>]*>::insert$", t[1].get("d", "")) and t[4] >= 0:
                from modlook import true_target
                tt = true_target(ex, bi)     # the `true` (newly inserted) edge, through `!` and copies
                if tt is not None:
                    tests.append((t[4], tt))
                    inserts.append(tt)
        inserts += [bi for bi, t in ex.calls() if re.search(r"HashSet::<[^>]*>::insert$", t[1].get("d", ""))]
        removes = [bi for bi, t in ex.calls() if re.search(r"HashSet::<[^>]*>::remove$", t[1].get("d", ""))]
        ck.anchor(bool(rec), "recursive call in the exporter")
        for bi, t in rec:
            ok = any(ex.dominates(ft, bi) for sb, ft in tests) and any(ex.dominates(i, bi) for i in inserts)
            ck.instance("R2.json-cycle-refusal", "recursive call", F.short_span(t[6]), ok=ok)
            if not ok:
                ck.finding("R2.json-cycle-refusal", "R2.json-cycle-refusal/recursion", F.short_span(t[6]),
                           "the exporter recurses into an object without having tested / recorded it in the visited set: a cyclic value recurses until the stack overflows")
        ok = bool(removes)
        # ... on every path that leaves the function after the object was recorded, error propagation aside (the whole call fails then): an early
        # `return Ok(..)` in one arm leaves the object in the set, and a value that contains the same array twice is refused as cyclic
        if ok and inserts:
            rets = {bi for bi, bl in enumerate(ex.blocks) if bl["t"][0] == "ret"}
            errs = {bi for bi, t in ex.calls() if (t[1].get("d") or "").endswith("::from_residual")}
            for bi, bl in enumerate(ex.blocks):
                for s_ in bl["s"]:
                    if s_[0] == "a" and s_[1][0] == 0 and s_[2][0] == "agg" and isinstance(s_[2][1], dict) and s_[2][1].get("v") == "Err":
                        errs.add(bi)
            seen, work = set(), [b for b in inserts if isinstance(b, int)]
            while work:
                x = work.pop()
                if x in seen or x in removes or x in errs:
                    continue
                seen.add(x)
                if x in rets:
                    ok = False
                    break
                work.extend(ex.succ(x))
        ck.instance("R2.json-cycle-refusal", "visited set restored on exit", F.short_span(ex.span), ok=ok)
        if not ok:
            ck.finding("R2.json-cycle-refusal", "R2.json-cycle-refusal/restore", F.short_span(ex.span),
                       "the exporter can return successfully without removing the object it recorded from the visited set: a value referenced twice (a DAG, "
                       "`const t = [1]; JSON.stringify({a: t, b: t})`) is refused as cyclic")
    # ---------------- R3 serialized JSON text is not rewritten by a structure-blind substitution
    ck.rule("R3.no-text-rewrite", "no function that serializes JSON text applies str::replace / replacen / replace_range to text (a pattern without a line break can occur inside a string value or key)", floor=2)
    for f, ser, reps in text_rewrites(fx, r"serde_json::(ser::)?to_(string|vec|writer)(_pretty)?$"):
        bad = [r for r in reps if r[1] is None or "\n" not in r[1]]
        ck.instance("R3.no-text-rewrite", f.path, F.short_span(f.span), ok=not bad)
        if bad:
            ck.finding("R3.no-text-rewrite", "R3.no-text-rewrite/" + f.path, F.short_span(bad[0][2]),
                       "`%s` serializes JSON and then rewrites text with `%s(%r, ..)`: the substitution also hits string values and keys that contain the pattern, "
                       "so the text no longer reads back as the document (or is no longer JSON)" % (f.path, bad[0][0], bad[0][1]))
    # ---------------- R4 a member is omitted because of what it IS (undefined), not because of what it converts to
    ck.rule("R4.omission-by-source-kind", "every path on which the exporter leaves a member out of an object passes the positive edge of a test of the "
                                          "source value for `Undefined`", floor=1)
    n4 = member_omission(fx, ck, "R4.omission-by-source-kind", lambda g: g.path.startswith("interpreter::builtins::json::") or g.path.startswith("ffi::"))
    ck.anchor(n4 >= 1, "member loop of the JSON exporter (serde_json::Map::insert)")
    # R4c: the members that have no JSON representation ARE left out (the property: "with undefined/functions omitted")
    ck.rule("R4c.unrepresentable-omitted", "the exporter's member loop tests the source value for each kind without a JSON representation (undefined, function, symbol) "
                                           "and leaves such a member out", floor=3)
    for p4, kinds4 in sorted(member_omission.kinds.items()):
        if not p4.startswith("interpreter::builtins::json::"):
            continue
        for kind in ("Undefined", "Function", "Symbol"):
            ok4 = kind in kinds4
            ck.instance("R4c.unrepresentable-omitted", "%s: %s members" % (p4, kind), None, ok=ok4)
            if not ok4:
                ck.finding("R4c.unrepresentable-omitted", "R4c.unrepresentable-omitted/%s/%s" % (p4, kind), None,
                           "`%s` never tests a member's value for %s in its member loop: such a member is written as `null` instead of being left out "
                           "(`JSON.stringify({f(){}})` gives `{\"f\":null}`)" % (p4, kind))
    # R5: a double written to the document as an integer is inside that integer type
    import fcast
    ck.rule("R5.integral-cast-in-range", "every float->int cast whose result is written to a document (serde_json::Number::from) is dominated by comparisons "
                                         "that keep the value inside the integer type (constants evaluated as doubles)", floor=1)
    for f5, sp5, ty5, ok5, why5 in fcast.sites(fx, lambda g: g.file.startswith("src/")):
        ck.instance("R5.integral-cast-in-range", "%s: `as %s` -> serde_json::Number" % (f5.path, ty5), F.short_span(sp5), ok=ok5)
        if not ok5:
            ck.finding("R5.integral-cast-in-range", "R5.integral-cast-in-range/%s/%s" % (f5.path, ty5), F.short_span(sp5),
                       "`%s` writes `x as %s` to the document and %s: the cast saturates, so every larger whole number is exported as the same integer "
                       "(2**63 -> 9223372036854775807, 1e20 -> 18446744073709551615)" % (f5.path, ty5, why5))
    ctl = F.load_fixture()
    got5 = sorted((f.path.split("::")[-1], ok) for f, sp, ty, ok, why in fcast.sites(ctl, lambda g: g.path.startswith("c16cast::"), sink=("c16cast::Number::from_",)))
    want5 = [("bad_abs_bound", False), ("bad_inclusive_bound", False), ("good_strict_bound", True)]
    if got5 != want5:
        ck.closed_fail.append("R5 control failed: fixture reports %s (want %s)" % (got5, want5))
    ck.note("R5 controls: `x <= i64::MAX as f64` and `x.abs() < 1e21` then `as u64` reported; `x >= i64::MIN as f64 && x < i64::MAX as f64` silent")
    ck4 = Check("C16", tier, "", [])
    member_omission(ctl, ck4, "R4.omission-by-source-kind", lambda g: g.path.startswith("c16omit::"))
    bad4 = {fd[1].split("/")[-1] for fd in ck4.findings}
    if "c16omit::bad_export" not in bad4 or "c16omit::good_export" in bad4:
        ck.closed_fail.append("R4 positive control failed: fixture reports %s" % sorted(bad4))
    hits = {f.path: reps for f, ser, reps in text_rewrites(ctl, r"c16text::to_string_pretty$")}
    if not hits.get("c16text::bad_reindent") or hits.get("c16text::good_reindent"):
        ck.closed_fail.append("R3 positive control failed (%s)" % {k: len(v) for k, v in hits.items()})
    ck.note("R3 positive control: fixture bad_reindent reported, good_reindent (line-anchored re-indentation) silent")
    return ck.finish()
