"""Nested function compilers inherit the same context (T-SIB).

Every function, constructor and arrow body is compiled by a fresh `Compiler`.  What such a compiler must know about its surroundings -
the source file its frames are reported under, the classes whose private names are in scope - is copied into it by whoever creates it.
The creators are siblings: a field of `Compiler` that one of them copies from `self` into the fresh compiler is copied by all of them
(directly, or because they all obtain the compiler from one helper that does).
"""
import facts as F
from c09 import ancestors

COMP = "compiler::Compiler"


def creators(fx, comp=COMP):
    """{path: (fn, fields written on a by-value Compiler local from the same field of self, span of the creation)}"""
    out = {}
    for p, f in sorted(fx.fns.items()):
        if f.derived or f.closure or not f.sig or f.argc < 1:
            continue
        if comp not in fx.tys(f.locals[1]) or not fx.tys(f.locals[1]).startswith("&"):
            continue
        # constructors of the compiler: `new`, and functions without a receiver that return one (`with_source_file(path)`)
        ctors = {q for q, g in fx.fns.items() if not g.derived and not g.closure and g.sig and fx.tys(g.sig[-1]) == comp
                 and (g.argc == 0 or comp not in fx.tys(g.locals[1]))}
        news = [(bi, t) for bi, t in f.calls() if (t[1].get("d") or "") == comp + "::new" or t[1].get("d") in ctors]
        if not news:
            continue
        fields = set()
        # a constructor that is handed something read from a field of self and stores it in the same field of what it builds
        for bi, t in news:
            g = fx.fns.get(t[1].get("d"))
            if g is None or not t[2]:
                continue
            gw = set()
            for bl in g.blocks:
                for s_ in bl["s"]:
                    if s_[0] == "a" and s_[1][1]:
                        for a_, v_, n_ in F.place_fields(s_[1]):
                            if a_ == comp:
                                gw.add(n_)
            for a in t[2]:
                if a[0] not in ("c", "m"):
                    continue
                for l in ancestors(f, a[1][0]):
                    for (db, si, rv) in f.defs().get(l, []):
                        if si == "T":
                            continue
                        for pl in F.rvalue_places(rv):
                            for a_, v_, n_ in F.place_fields(pl):
                                if a_ == comp and n_ in gw and 1 in ancestors(f, pl[0]):
                                    fields.add(n_)
        for bl in f.blocks:
            if bl["c"]:
                continue
            for s in bl["s"]:
                if s[0] != "a" or not s[1][1]:
                    continue
                base = s[1][0]
                if fx.tys(f.locals[base]) != comp:
                    continue
                fl = [x for x in F.place_fields(s[1]) if x[0] == comp]
                if not fl:
                    continue
                # the value comes from self
                srcs = set()
                for pl in F.rvalue_places(s[2]):
                    srcs |= ancestors(f, pl[0])
                if 1 in srcs:
                    fields.add(fl[0][2])
        out[p] = (f, fields, news[0][1][6])
    return out


def rule(fx, comp=COMP):
    """(union, [(fn, span, inherited, missing, via)]) for every function that obtains a fresh nested compiler"""
    cr = creators(fx, comp)
    union = set()
    for p, (f, fields, sp) in cr.items():
        union |= fields
    rows = []
    for p, (f, fields, sp) in sorted(cr.items()):
        rows.append((f, sp, fields, union - fields, None))
    # functions that get theirs from a creator count as inheriting what that creator copies
    for p, f in sorted(fx.fns.items()):
        if f.derived or p in cr:
            continue
        for bi, t in f.calls():
            d = t[1].get("d")
            if d in cr and comp in fx.tys(fx.fns[d].sig[-1]):
                rows.append((f, t[6], cr[d][1], union - cr[d][1], d))
    return union, rows
