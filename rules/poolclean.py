"""C13 O9 - recycled root buffers are empty.

A guard's root list is a `Vec<NonNull<GcBox>>`; dropped guards hand theirs to `Space.guard_pool`, and `create_guard` builds the next
guard around a popped buffer WITHOUT looking at it.  Whatever a buffer contains when it enters the pool is therefore rooted by an
unrelated later guard: objects that no live guard reaches survive `collect()`.

Rule (T-WHO over the writes of one field + T-DOM): in every function that borrows the pool field mutably,
  - `push` / `insert` of a buffer into the pool is dominated by `Vec::clear` on that same buffer (or the buffer is a fresh `Vec::new()` /
    `with_capacity`);
  - `mem::swap` / `mem::replace` on the buffer type has an argument that is a local buffer cleared before the call;
  - `extend` / `append` / `resize` / `extend_from_slice` of the pool are not used (no recognised way to show the added buffers empty).
"""
import facts as F
import exits as E

ADDERS = ("Vec::<T, A>::push", "Vec::<T, A>::insert")
BULK = ("::extend", "Vec::<T, A>::append", "Vec::<T, A>::resize", "Vec::<T, A>::extend_from_slice", "Vec::<T, A>::resize_with")


def _base_local(f, op):
    """local a `&mut local` operand was borrowed from (through copies/reborrows)"""
    if op[0] not in ("c", "m"):
        return None
    cur = op[1][0]
    if op[1][1]:
        return None
    for _ in range(6):
        d = f.defs().get(cur, [])
        if len(d) != 1 or d[0][1] == "T":
            return cur
        rv = d[0][2]
        if rv[0] == "ref":
            pl = rv[2]
            if not pl[1]:
                return pl[0]
            if pl[1] == ["*"]:
                cur = pl[0]
                continue
            return None
        if rv[0] == "use" and rv[1][0] in ("c", "m") and not rv[1][1][1]:
            cur = rv[1][1][0]
            continue
        return cur
    return cur


def cleared_before(f, local, blk):
    """a `Vec::clear(&mut local)` call (or a fresh Vec::new/with_capacity definition of `local`) dominating block `blk`"""
    for bi, t in f.calls():
        d = t[1].get("d", "")
        if d.endswith("Vec::<T, A>::clear") and t[2] and _base_local(f, t[2][0]) == local and t[4] >= 0 and f.dominates(t[4], blk):
            return True
        if (d.endswith("Vec::<T>::new") or d.endswith("Vec::<T>::with_capacity")) and t[3] and t[3][0] == local and not t[3][1]:
            return True
    return False


def rule(fx, ck, scope, field, rule_id="O9.pool-buffers-empty", keypre="O9.pool-buffers-empty/", emit=True):
    """returns (n_sites, findings)"""
    n = 0
    out = []
    for f in sorted(fx.fns.values(), key=lambda g: g.path):
        if f.derived or not scope(f):
            continue
        top = f.parent if f.closure else f.path
        touches = False
        for bl in f.blocks:
            for s in bl["s"]:
                if s[0] == "a" and s[2][0] == "ref" and s[2][1] != "shared":
                    fl = F.place_fields(s[2][2])
                    if fl and fl[-1][2] == field:
                        touches = True
        if not touches:
            continue
        for bi, t in f.calls():
            d = t[1].get("d", "")
            if d.endswith(ADDERS) and t[2]:
                fl = E.field_of_ref(f, t[2][0][1][0]) if t[2][0][0] in ("c", "m") else None
                if not fl or fl[2] != field:
                    continue
                n += 1
                arg = t[2][-1]
                src = arg[1][0] if arg[0] in ("c", "m") and not arg[1][1] else None
                # the pushed value may be a moved copy of the cleared local
                chain = set()
                cur = src
                for _ in range(4):
                    if cur is None or cur in chain:
                        break
                    chain.add(cur)
                    dd = f.defs().get(cur, [])
                    if len(dd) == 1 and dd[0][1] != "T" and dd[0][2][0] == "use" and dd[0][2][1][0] in ("c", "m") and not dd[0][2][1][1][1]:
                        cur = dd[0][2][1][1][0]
                    else:
                        break
                ok = any(cleared_before(f, l, bi) for l in chain)
                if emit:
                    ck.instance(rule_id, "%s: %s into %s" % (f.path, d.split("::")[-1], field), F.short_span(t[6]), ok=ok)
                if not ok:
                    out.append((keypre + top + "/" + d.split("::")[-1], t[6],
                                "`%s` puts a root buffer into `%s` without clearing it first: the next guard created from the pool roots everything the "
                                "dropped guard rooted, so unreachable objects survive collect()" % (top, field)))
            elif d.endswith(BULK) and t[2] and t[2][0][0] in ("c", "m"):
                fl = E.field_of_ref(f, t[2][0][1][0])
                if fl and fl[2] == field:
                    n += 1
                    if emit:
                        ck.instance(rule_id, "%s: %s into %s" % (f.path, d.split("::")[-1], field), F.short_span(t[6]), ok=False)
                    out.append((keypre + top + "/" + d.split("::")[-1], t[6],
                                "`%s` adds buffers to `%s` in bulk: nothing shows they are empty" % (top, field)))
            elif d.endswith(("mem::swap", "mem::replace")):
                targs = [fx.tys(x) for x in t[1].get("targs", [])]
                if not any(x.startswith("std::vec::Vec<std::ptr::NonNull<") for x in targs):
                    continue
                n += 1
                ok = False
                for a in t[2]:
                    l = _base_local(f, a)
                    if l is not None and cleared_before(f, l, bi):
                        ok = True
                if emit:
                    ck.instance(rule_id, "%s: %s of root buffers" % (f.path, d.split("::")[-1]), F.short_span(t[6]), ok=ok)
                if not ok:
                    out.append((keypre + top + "/" + d.split("::")[-1], t[6],
                                "`%s` exchanges a root buffer with one inside `%s` and neither side was cleared: a dead guard's roots enter the pool and the "
                                "next guard created from it keeps those objects alive" % (top, field)))
    if emit:
        for k, sp, msg in out:
            ck.finding(rule_id, k, F.short_span(sp), msg)
    return n, out
