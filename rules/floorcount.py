"""C13 O8: a count obtained by truncating division is not used as the bound of a counter.

`len >> 6` (or `len / 64`) is the index of the word that holds slot `len`, not the number of words
that hold `len` slots: used as the exclusive bound of a word counter it drops the partially filled
last word, and the sweep never visits the slots there (garbage is kept, slots are not recycled).
The rule follows every quotient by a constant (through copies, casts, `min`, and struct fields built
from it) to comparisons whose other side is a counter (a place the same function increments by a
constant).  A quotient whose numerator was first raised by divisor-1 (`(len + 63) >> 6`) is a
ceiling and is fine; a quotient used as an index (`bits[i >> 6]`) or compared with a length
(`i / 256 < chunks.len()`, a bounds check) is not a bound of a counter and is not reported.
"""
import facts as F
import mir as M
import c10

DIVS = ("Shr", "ShrUnchecked", "Div")
CMPS = ("Lt", "Le", "Gt", "Ge")


def divisor(rv):
    v = M.const_int(rv[3])
    if v is None:
        return None
    return (1 << v) if rv[1].startswith("Shr") else v


def is_ceil(fx, f, op, div, depth=0):
    """numerator is `x + k` with k >= div - 1"""
    if op[0] not in ("c", "m") or depth > 6:
        return False
    local, proj = op[1][0], op[1][1]
    d = f.defs().get(local, [])
    if len(d) != 1 or d[0][1] == "T":
        return False
    rv = d[0][2]
    if rv[0] == "bin" and rv[1] in ("Add", "AddWithOverflow", "AddUnchecked"):
        for o in (rv[2], rv[3]):
            k = c10.const_bound(fx, f, o)
            if k is not None and k >= div - 1:
                return True
        return False
    if rv[0] == "use" and rv[1][0] in ("c", "m"):
        return is_ceil(fx, f, rv[1], div, depth + 1)
    if rv[0] == "cast":
        return is_ceil(fx, f, rv[2], div, depth + 1)
    return False


def counters(f):
    """place signatures the function increments by a constant: P = P + c"""
    out = set()
    for bl in f.blocks:
        for s in bl["s"]:
            if s[0] == "a" and s[2][0] == "bin" and s[2][1] in ("Add", "AddWithOverflow", "AddUnchecked"):
                for o, k in ((s[2][2], s[2][3]), (s[2][3], s[2][2])):
                    if M.const_int(k) is not None and o[0] in ("c", "m"):
                        out.add(c10.root_of(f, o[1][0]) if not o[1][1] else ("place", c10.place_sig(f, o[1])))
    return out


def analyse(fx, fns):
    """yield (fn, span, divisor, how) for every floor quotient that bounds a counter"""
    fns = list(fns)
    tainted_fields = {}   # (adt, field) -> (origin fn path, span, div)
    local_taint = {}      # fn path -> {local: (span, div)}
    for f in fns:
        t = {}
        for bl in f.blocks:
            for s in bl["s"]:
                if s[0] == "a" and s[2][0] == "bin" and s[2][1] in DIVS and not s[1][1]:
                    dv = divisor(s[2])
                    if dv is None or dv < 2 or is_ceil(fx, f, s[2][2], dv):
                        continue
                    t[s[1][0]] = (s[3], dv)
        # forward closure over copies / casts / min / checked-op tuples
        ch = True
        while ch:
            ch = False
            for bi, bl in enumerate(f.blocks):
                for s in bl["s"]:
                    if s[0] != "a" or s[1][1] or s[1][0] in t:
                        continue
                    rv = s[2]
                    src = rv[1] if rv[0] == "use" else (rv[2] if rv[0] == "cast" else None)
                    if src is not None and src[0] in ("c", "m") and src[1][0] in t and not [e for e in src[1][1] if e == "*"]:
                        t[s[1][0]] = t[src[1][0]]
                        ch = True
                tt = bl["t"]
                if tt[0] == "call" and tt[1].get("d", "").endswith(("::min", "Ord::min")) and tt[3] and not tt[3][1] and tt[3][0] not in t:
                    for a in tt[2]:
                        if a[0] in ("c", "m") and a[1][0] in t:
                            t[tt[3][0]] = t[a[1][0]]
                            ch = True
        local_taint[f.path] = t
        for bl in f.blocks:
            for s in bl["s"]:
                if s[0] == "a" and s[2][0] == "agg" and isinstance(s[2][1], dict) and s[2][1].get("k") == "adt":
                    names = s[2][1].get("fields") or []
                    for nm, o in zip(names, s[2][2]):
                        if o[0] in ("c", "m") and not o[1][1] and o[1][0] in t:
                            tainted_fields[(s[2][1]["p"], nm)] = (f.path,) + t[o[1][0]]
    for f in fns:
        cnt = None
        t = local_taint[f.path]
        for bl in f.blocks:
            for s in bl["s"]:
                if s[0] != "a" or s[2][0] != "bin" or s[2][1] not in CMPS:
                    continue
                for q, other in ((s[2][2], s[2][3]), (s[2][3], s[2][2])):
                    src = None
                    if q[0] in ("c", "m"):
                        if not q[1][1] and q[1][0] in t:
                            src = (f.path,) + t[q[1][0]]
                        else:
                            # a read of a tainted field, directly or through one copy
                            pl = q[1]
                            if not pl[1]:
                                d = f.defs().get(pl[0], [])
                                if len(d) == 1 and d[0][1] != "T" and d[0][2][0] == "use" and d[0][2][1][0] in ("c", "m"):
                                    pl = d[0][2][1][1]
                            pf = [e for e in pl[1] if isinstance(e, list) and e[0] == "f"]
                            if pf and (pf[-1][3], pf[-1][2]) in tainted_fields:
                                src = tainted_fields[(pf[-1][3], pf[-1][2])]
                    if src is None or other[0] not in ("c", "m"):
                        continue
                    if cnt is None:
                        cnt = counters(f)
                    oroot = c10.root_of(f, other[1][0]) if not other[1][1] else ("place", c10.place_sig(f, other[1]))
                    if oroot in cnt:
                        yield f, s[3], src


def rule(fx, ck, name="O8.floor-count"):
    ck.rule(name, "no count obtained by truncating division bounds a counter in the collector (the sweep's word iterator covers the partially filled last word)")
    gcf = [f for f in fx.fns.values() if f.file.startswith("src/gc.rs") and not f.derived]
    nq = 0
    for f in gcf:
        for bl in f.blocks:
            for s in bl["s"]:
                if s[0] == "a" and s[2][0] == "bin" and s[2][1] in DIVS and divisor(s[2]):
                    nq += 1
                    ck.instance(name, "%s: quotient by %d" % (f.path, divisor(s[2])), F.short_span(s[3]))
    for f, sp, src in analyse(fx, gcf):
        ck.finding(name, "%s/%s" % (name, f.path), F.short_span(sp),
                   "`%s` compares a counter with a count computed by truncating division by %d (at %s in %s): the partially filled last unit is never visited"
                   % (f.path, src[2], F.short_span(src[1]), src[0]))
    ck.anchor(nq >= 2, "quotients by a constant in src/gc.rs (found %d)" % nq)
    ctl = F.load_fixture()
    cf = [f for f in ctl.fns.values() if f.path.startswith("c13::")]
    hits = {(f.path, src[0]) for f, sp, src in analyse(ctl, cf)}
    bad = any("WordIter" in h[0] and h[1].endswith("bad_words") for h in hits)
    good = any("CeilIter" in h[0] for h in hits) or any(h[1].endswith(("good_words", "ceil_iter")) for h in hits)
    if not bad or good:
        ck.closed_fail.append("%s positive control failed (hits=%s)" % (name, sorted(hits)))
    ck.note("%s: positive control: fixture c13::bad_words reported through WordIter::step, the ceiling variants silent" % name)
