"""C08 - the order protocol is exact: ledger-discipline clauses.

Decided:
  R1 report-on-suspend: every construction of StepResult::Suspended takes `cancelled` with
     mem::take(cancelled_orders) and `pending` with mem::take(pending_orders), or Vec::new() where
     the ledger is known empty (dominated by the empty edge of pending_orders.is_empty()); so an
     issued order cannot be left behind when control returns to the host nor be reported twice;
  R2 complete-only-when-quiescent: every construction of StepResult::Complete is dominated by the
     "nothing outstanding" edges of pending_orders.is_empty(), suspended_for_order.is_some() and
     wait_graph.has_waiting_contexts();
  R3 fresh ids: every Order{id,..} takes its id from a read of next_order_id in a function that
     also increments it, and next_order_id is only ever incremented;
  R4 who-may-touch the ledger fields;
  R5 no lost wake-up by construction: in step(), taking a ready context from the wait graph is
     dominated by check_resolved_promises();
  R6 sibling agreement of the two VmResult -> StepResult mappers, per VmResult variant.
Not decided: progress after fulfilment, combinator settlement (Promise.any/allSettled),
"cancellation names an issued order" (values), payload integrity.
"""
from common import Check
import facts as F
import mir as M
import exits as E
from c10 import origin_call

INTERP = "interpreter::Interpreter"
LEDGER = ("pending_orders", "cancelled_orders", "order_responses", "suspended_for_order", "next_order_id")
LEDGER_WRITERS = {
    "interpreter::builtins::internal::order_syscall": "issues an order",
    "interpreter::builtins::internal::cancel_order_syscall": "cancels an order",
    "interpreter::builtins::internal::get_order_id_syscall": "reserves an id",
    "interpreter::builtins::promise::reject_promise": "records cancellation of an order promise",
    "interpreter::builtins::promise::handle_promise_race_settle": "records cancellation of the losers of a race",
    "interpreter::Interpreter::run_vm_to_completion": "result mapping (eval path)",
    "interpreter::Interpreter::step": "resume logic",
    "interpreter::Interpreter::process_vm_result": "result mapping (step path)",
    "interpreter::Interpreter::fulfill_orders": "host responses",
    "ffi::order::tsrun_create_pending_order": "C API order creation",
    "interpreter::Interpreter::abort_active_execution": "disposal of a run the host abandoned: drops the continuation parked for an order (suspended_for_order)",
    "interpreter::Interpreter::new": "construction",
    "interpreter::Interpreter::with_config": "construction",
}


def field_take(f, op):
    """name of the Interpreter field if operand's value is mem::take(&mut self.<field>)"""
    if op[0] not in ("c", "m") or op[1][1]:
        return None
    call = origin_call(f, op[1][0])
    if call is None:
        return None
    d = call[1].get("d", "")
    if d == "std::mem::take" and call[2] and call[2][0][0] in ("c", "m"):
        fl = E.field_of_ref(f, call[2][0][1][0])
        if fl and fl[0] == INTERP:
            return ("take", fl[2])
    if d.endswith("Vec::<T>::new"):
        return ("new", None)
    return ("other", d)


def bool_tests(f, pred):
    """[(switch_block, true_target, false_target, what)] for calls matching pred(call) -> label"""
    out = []
    for bi, t in f.calls():
        what = pred(f, t)
        if not what or t[4] < 0 or t[3][1]:
            continue
        c = t[3][0]
        blk = f.blocks[t[4]]
        neg = False
        cur = c
        for s in blk["s"]:
            if s[0] == "a" and s[2][0] == "un" and s[2][1] == "Not" and s[2][2][0] in ("c", "m") and s[2][2][1][0] == cur and not s[1][1]:
                cur = s[1][0]
                neg = not neg
        sw = blk["t"]
        if sw[0] == "switch" and sw[1][0] in ("c", "m") and sw[1][1][0] == cur:
            false_t = next((b for v, b in sw[2] if v == "0"), None)
            if false_t is None:
                continue
            true_t = sw[3]
            if neg:
                true_t, false_t = false_t, true_t
            out.append((t[4], true_t, false_t, what))
    return out


def ledger_pred(f, t):
    d = t[1].get("d", "")
    if not t[2] or t[2][0][0] not in ("c", "m"):
        return None
    if d.endswith("::is_empty") or d.endswith("::is_some") or d.endswith("::is_none"):
        fl = E.field_of_ref(f, t[2][0][1][0])
        if fl and fl[0] == INTERP and fl[2] in LEDGER:
            return "%s.%s" % (fl[2], d.split("::")[-1])
    if d.endswith("WaitGraph::has_waiting_contexts"):
        return "wait_graph.has_waiting_contexts"
    return None


def on_edge(f, tests, block, want):
    """block is dominated by the target of the edge `want` = {what: bool}"""
    ok = {}
    for (sb, tt, ft, what) in tests:
        if what not in want:
            continue
        tgt = tt if want[what] else ft
        other = ft if want[what] else tt
        if f.dominates(tgt, block) and all(p == sb for p in f.preds()[tgt]):
            ok[what] = True
        elif f.dominates(sb, block):
            # the other edge cannot reach the block
            reach = {other} | f.reachable_from(other)
            if block not in reach:
                ok[what] = True
    return ok


def step_result_aggs(fx):
    for f in fx.fns.values():
        for bi, bl in enumerate(f.blocks):
            for s in bl["s"]:
                if s[0] == "a" and s[2][0] == "agg" and s[2][1].get("k") == "adt" and s[2][1]["p"] == "StepResult":
                    yield f, bi, s


def wake_up_rule(fx, ck, name):
    """No lost wake-up: every take_ready() is dominated by check_resolved_promises() in the same function
    (shared by C07 and C08; wherever the readiness test lives - step() or a helper extracted from it)."""
    ck.rule(name, "every wait_graph.take_ready() is dominated by check_resolved_promises()", floor=1)
    n = 0
    for f in fx.fns.values():
        if f.derived:
            continue
        takes = [(bi, t) for bi, t in f.calls() if t[1].get("d", "").endswith("WaitGraph::take_ready")]
        if not takes:
            continue
        checks = [bi for bi, t in f.calls() if t[1].get("d", "").endswith("Interpreter::check_resolved_promises")]
        short = f.parent.split("::")[-1]
        for bi, t in takes:
            n += 1
            ok = any(f.dominates(c, bi) for c in checks)
            ck.instance(name, "%s/take_ready" % short, F.short_span(t[6]), ok=ok)
            if not ok:
                ck.finding(name, name + "/" + short, F.short_span(t[6]),
                           "%s() takes a ready context without first moving waiters of settled promises to the ready queue (check_resolved_promises): "
                           "a promise settled by any route other than the api helpers never wakes its waiter" % short)
    ck.anchor(n >= 1, "a call of WaitGraph::take_ready in the interpreter (found %d)" % n)


def run(tier):
    ck = Check("C08", tier, "operand-provenance + dominance templates on StepResult constructions, who-may-write table, must-pass-through in step(), per-variant sibling comparison",
               ["progress after the host has answered everything outstanding", "settlement of Promise.any/allSettled/race over host promises",
                "that a cancellation names an issued order (values)", "payload integrity"])
    fx = F.load("A")
    ck.configs.append("A: cargo +nightly check --lib --features c-api")
    ck.anchor("StepResult" in fx.adts, "enum StepResult")
    interp = fx.adts.get(INTERP)
    have = {x["name"] for x in interp["variants"][0]["fields"]} if interp else set()
    ck.anchor(set(LEDGER) <= have, "Interpreter ledger fields %s" % (LEDGER,))

    ck.rule("R1.report-on-suspend", "Suspended{pending,cancelled}: cancelled = mem::take(cancelled_orders); pending = mem::take(pending_orders) or Vec::new() on the ledger-empty edge", floor=2)
    ck.rule("R2.complete-quiescent", "Complete is constructed only on the nothing-outstanding edges of the three ledger tests", floor=1)
    for f, bi, s in step_result_aggs(fx):
        var = s[2][1]["v"]
        names = s[2][1]["fields"]
        ops = dict(zip(names, s[2][2]))
        if var == "Suspended":
            tests = bool_tests(f, ledger_pred)
            c = field_take(f, ops["cancelled"])
            p = field_take(f, ops["pending"])
            problems = []
            if c != ("take", "cancelled_orders"):
                problems.append("`cancelled` is not mem::take(&mut self.cancelled_orders) (%s)" % (c,))
            if p == ("take", "pending_orders"):
                pass
            elif p == ("new", None):
                if not on_edge(f, tests, bi, {"pending_orders.is_empty": True}):
                    problems.append("`pending` is Vec::new() on a path where pending_orders is not known to be empty")
            else:
                problems.append("`pending` is not mem::take(&mut self.pending_orders) (%s)" % (p,))
            ck.instance("R1.report-on-suspend", "%s/Suspended" % f.path, F.short_span(s[3]), ok=not problems)
            for pr in problems:
                ck.finding("R1.report-on-suspend", "R1.report-on-suspend/%s" % f.path, F.short_span(s[3]),
                           "`%s` builds StepResult::Suspended but %s: an issued order/cancellation can be dropped or reported twice" % (f.path, pr))
        elif var == "Complete":
            tests = bool_tests(f, ledger_pred)
            want = {"pending_orders.is_empty": True, "suspended_for_order.is_some": False, "wait_graph.has_waiting_contexts": False}
            got = on_edge(f, tests, bi, want)
            missing = [w for w in want if w not in got]
            ck.instance("R2.complete-quiescent", "%s/Complete" % f.path, F.short_span(s[3]), ok=not missing)
            if missing:
                ck.finding("R2.complete-quiescent", "R2.complete-quiescent/%s" % f.path, F.short_span(s[3]),
                           "`%s` reports Complete without having excluded: %s" % (f.path, ", ".join(missing)))

    # R3 fresh ids
    ck.rule("R3.fresh-ids", "Order ids come from next_order_id, which is only incremented", floor=3)
    # helpers that hand out the next id (`fn take_next_order_id(interp) -> u64 { let id = interp.next_order_id; interp.next_order_id += 1; id }`): they
    # write the counter (judged below like every writer) and return a value read from it
    from c09 import ancestors as anc3
    id_takers = set()
    for g3 in fx.fns.values():
        if g3.derived or g3.closure or not g3.sig or fx.tys(g3.sig[-1]) not in ("u64", "u32", "usize", "OrderId"):
            continue
        wr3 = any(s_[0] == "a" and F.place_fields(s_[1]) and F.place_fields(s_[1])[-1][0] == INTERP and F.place_fields(s_[1])[-1][2] == "next_order_id"
                  for bl_ in g3.blocks for s_ in bl_["s"])
        rd3 = False
        for l3 in anc3(g3, 0):
            for (db, si, drv) in g3.defs().get(l3, []):
                if si != "T" and drv[0] == "use" and drv[1][0] in ("c", "m") and any(x[2] == "next_order_id" for x in F.place_fields(drv[1][1])):
                    rd3 = True
        if wr3 and rd3:
            id_takers.add(g3.path)
    for f in fx.fns.values():
        writes = []
        for bi, bl in enumerate(f.blocks):
            for s in bl["s"]:
                if s[0] == "a":
                    fl = F.place_fields(s[1])
                    if fl and fl[-1][0] == INTERP and fl[-1][2] == "next_order_id":
                        writes.append((bi, s))
        for bi, s in writes:
            # value written must be (checked) old + 1
            ok = False
            rv = s[2]
            src = None
            if rv[0] == "use" and rv[1][0] in ("c", "m"):
                src = rv[1][1]
            if src is not None:
                # tuple.0 of AddWithOverflow(copy self.next_order_id, 1)
                for (db, si, drv) in f.defs().get(src[0], []):
                    if si != "T" and drv[0] == "bin" and drv[1].startswith("Add") and M.const_int(drv[3]) == 1:
                        a = drv[2]
                        if a[0] in ("c", "m") and any(x[2] == "next_order_id" for x in F.place_fields(a[1])):
                            ok = True
            ck.instance("R3.fresh-ids", "%s writes next_order_id" % f.path, F.short_span(s[3]), ok=ok)
            if not ok:
                ck.finding("R3.fresh-ids", "R3.fresh-ids/write/%s" % f.path, F.short_span(s[3]),
                           "`%s` writes next_order_id with something other than old+1: ids may repeat" % f.path)
        for bi, bl in enumerate(f.blocks):
            for s in bl["s"]:
                if s[0] == "a" and s[2][0] == "agg" and s[2][1].get("k") == "adt" and s[2][1]["p"] == "Order":
                    ops = dict(zip(s[2][1]["fields"], s[2][2]))
                    idop = ops.get("id")
                    fresh = False
                    if idop and idop[0] in ("c", "m") and not idop[1][1]:
                        d0 = M.trace_back(f, idop[1][0])
                        if d0 and d0[1] != "T" and d0[2][0] == "agg" and d0[2][1].get("p") == "OrderId":
                            o = d0[2][2][0]
                            if o[0] in ("c", "m"):
                                if any(x[2] == "next_order_id" for x in F.place_fields(o[1])):
                                    fresh = True
                                elif not o[1][1]:
                                    d1 = M.trace_back(f, o[1][0])
                                    if d1 and d1[1] != "T" and d1[2][0] == "use" and d1[2][1][0] in ("c", "m") and any(x[2] == "next_order_id" for x in F.place_fields(d1[2][1][1])):
                                        fresh = True
                                    elif d1 and d1[1] == "T" and d1[2][1].get("d") in id_takers:
                                        fresh = "taker"
                    fresh = (fresh == "taker") or (fresh and bool(writes))
                    ck.instance("R3.fresh-ids", "%s constructs Order" % f.path, F.short_span(s[3]), ok=fresh)
                    if not fresh:
                        ck.finding("R3.fresh-ids", "R3.fresh-ids/order/%s" % f.path, F.short_span(s[3]),
                                   "`%s` constructs an Order whose id is not a fresh read of next_order_id followed by an increment" % f.path)

    # R4 who may touch the ledger
    ck.rule("R4.ledger-writers", "only the designated functions mutate / mutably borrow the ledger fields", floor=5)
    for f in fx.fns.values():
        touched = set()
        for bi, kind, place, sp in M.all_places(f):
            for (adt, v, name) in F.place_fields(place):
                if adt == INTERP and name in LEDGER and kind in ("w", "b"):
                    # shared borrows are reads; only `&mut` and writes count
                    touched.add(name)
        mut = set()
        for bl in f.blocks:
            for s in bl["s"]:
                if s[0] == "a":
                    if s[2][0] == "ref" and s[2][1] is True:
                        for (adt, v, name) in F.place_fields(s[2][2]):
                            if adt == INTERP and name in LEDGER:
                                mut.add(name)
                    for (adt, v, name) in F.place_fields(s[1]):
                        if adt == INTERP and name in LEDGER:
                            mut.add(name)
        if not mut:
            continue
        ok = f.parent in LEDGER_WRITERS or M.only_called_from(fx, f.parent, set(LEDGER_WRITERS))
        ck.instance("R4.ledger-writers", "%s: %s" % (f.parent, ",".join(sorted(mut))), F.short_span(f.span), ok=ok)
        if not ok:
            ck.finding("R4.ledger-writers", "R4.ledger-writers/%s" % f.parent, F.short_span(f.span),
                       "`%s` mutates the order ledger (%s) but is not one of the designated ledger functions" % (f.parent, ", ".join(sorted(mut))))

    # R4b: what the designated functions may do to the response table.  A response the host delivered is
    # taken out only under the exact id being resumed or cancelled; wholesale operations belong to disposal.
    ck.rule("R4b.response-by-key", "order_responses is consumed by key (remove/get), filled by insert; bulk operations only where a run is disposed", floor=2)
    BULK = ("retain", "retain_mut", "clear", "drain", "extract_if", "take", "split_off", "truncate", "replace", "swap", "into_iter", "into_values", "into_keys")
    DISPOSERS = ("Interpreter::abort_active_execution", "Interpreter::finalize_active_execution", "Interpreter::prepare", "Interpreter::new", "Interpreter::with_config")
    for f in fx.fns.values():
        for bi, t in f.calls():
            if not t[2] or t[2][0][0] not in ("c", "m"):
                continue
            fl = E.field_of_ref(f, t[2][0][1][0])
            if not fl or fl[0] != INTERP or fl[2] != "order_responses":
                continue
            meth = t[1].get("d", "?").split("::")[-1]
            bulk = meth in BULK
            ok = not bulk or f.parent.endswith(DISPOSERS) or M.only_called_from(fx, f.parent, {p for p in fx.fns if p.endswith(DISPOSERS)})
            ck.instance("R4b.response-by-key", "%s: order_responses.%s" % (f.parent, meth), F.short_span(t[6]), ok=ok)
            if not ok:
                ck.finding("R4b.response-by-key", "R4b.response-by-key/%s/%s" % (f.parent, meth), F.short_span(t[6]),
                           "`%s` applies `%s` to order_responses: responses other than the one being resumed or cancelled are dropped, so an order the host "
                           "already answered can suspend its waiter for ever" % (f.parent, meth))

        for bl in f.blocks:
            for st in bl["s"]:
                if st[0] == "a" and st[1][1] and isinstance(st[1][1][-1], list) and st[1][1][-1][0] == "f" and st[1][1][-1][2] == "order_responses" \
                        and st[1][1][-1][3] == INTERP and not f.derived:
                    ok = f.parent.endswith(DISPOSERS) or M.only_called_from(fx, f.parent, {p for p in fx.fns if p.endswith(DISPOSERS)})
                    ck.instance("R4b.response-by-key", "%s: order_responses = ..." % f.parent, F.short_span(st[3]), ok=ok)
                    if not ok:
                        ck.finding("R4b.response-by-key", "R4b.response-by-key/%s/assign" % f.parent, F.short_span(st[3]),
                                   "`%s` replaces order_responses wholesale: delivered responses of other outstanding orders are dropped" % f.parent)

    wake_up_rule(fx, ck, "R5.wake-up")
    cancel_once_rule(fx, ck)

    # R8 (shared with C07 R6): the index a race settler carries ranges over the collection that sized input_order_ids - the losers it cancels are
    # found by position, so an index over another collection cancels the winner and spares a loser
    import slotindex
    n8 = slotindex.rule(fx, ck, name="R8.cancel-index-domain")
    ck.anchor(n8 >= 1, "settle-handler aggregates pairing an index with a shared state (found %d)" % n8)
    # R6 siblings
    import c19
    c19.sibling_vmresult_mappers(fx, ck, "R6.mapper-siblings")
    # ---------------- R10 a dead run takes its ledger with it
    import exits as E10
    ck.rule("R10.disposer-clears-ledger", "the run disposer (the function that resets active_vm and wait_graph) empties pending_orders, cancelled_orders and order_responses: "
            "what a failed or abandoned run issued, cancelled or was answered is never reported by the next run", floor=3)
    for p10, f10 in sorted(fx.fns.items()):
        if f10.derived or f10.closure or not p10.startswith(INTERP + "::"):
            continue
        w10, cleared = set(), set()
        for bl in f10.blocks:
            for s_ in bl["s"]:
                if s_[0] == "a":
                    for a_, v_, n_ in F.place_fields(s_[1]):
                        if a_ == INTERP:
                            w10.add(n_)
        if not {"active_vm", "wait_graph"} <= w10:
            continue
        # ... itself, or in a helper it calls (`discard_order_traffic()`)
        group10 = [f10] + [fx.fns[t[1]["d"]] for _, t in f10.calls() if t[1].get("local") and (t[1].get("d") or "").startswith(INTERP + "::") and t[1]["d"] in fx.fns
                           and t[1]["d"] != p10]
        for g10 in group10:
            for bi, t in g10.calls():
                if (t[1].get("d") or "").split("::")[-1] in ("clear", "take", "drain") and t[2] and t[2][0][0] in ("c", "m"):
                    fl = E10.field_of_ref(g10, t[2][0][1][0])
                    if fl and fl[0] == INTERP:
                        cleared.add(fl[2])
        for fld in ("pending_orders", "cancelled_orders", "order_responses"):
            ok10 = fld in cleared or fld in w10
            ck.instance("R10.disposer-clears-ledger", "%s empties %s" % (p10, fld), F.short_span(f10.span), ok=ok10)
            if not ok10:
                ck.finding("R10.disposer-clears-ledger", "R10.disposer-clears-ledger/%s/%s" % (p10, fld), F.short_span(f10.span),
                           "`%s` drops a failed or abandoned run but leaves `%s` as it was: the first suspension of the next program reports the dead run's entries to the host "
                           "(`[{n:1},{n:2}].map(order); throw ..` then a run with one order: Suspended pending=[1,2,3])" % (p10, fld))
    # ---------------- R9 the countdown of a combinator starts at the number of handlers attached
    import countdown
    ck.rule("R9.countdown-sized-by-attach-loop", "a Cell<usize> countdown shared (through an Rc cloned in a loop) by the handlers of a combinator starts at the len() of the collection "
            "that loop iterates, or at a counter incremented with every push onto it", floor=1)
    for f9, sp9, ok9, why9 in countdown.sites(fx, lambda g: g.file.startswith("src/interpreter")):
        ck.instance("R9.countdown-sized-by-attach-loop", "%s [%s]" % (f9.path, why9), F.short_span(sp9), ok=ok9)
        if not ok9:
            ck.finding("R9.countdown-sized-by-attach-loop", "R9.countdown-sized-by-attach-loop/%s" % f9.path, F.short_span(sp9),
                       "`%s` shares a countdown among the handlers it attaches in a loop, and %s: with inputs that were settled already fewer handlers exist than the "
                       "countdown expects, it never reaches zero and the combined promise never settles (step() stays Suspended with nothing outstanding)" % (f9.path, why9))
    got9 = sorted((f.path.split("::")[-1], ok) for f, sp, ok, why in countdown.sites(F.load_fixture(), lambda g: g.path.startswith("countdown::")))
    if got9 != [("bad_all", False), ("good_counter", True), ("good_len", True)]:
        ck.closed_fail.append("R9 control failed: fixture gives %s" % got9)
    ck.note("R9 controls: fixture bad_all (sized by all inputs) reported; good_len and good_counter silent")
    return ck.finish()


def cancel_once_rule(fx, ck, name="R7.cancel-once", scope_prefix="interpreter::", interp=INTERP):
    """R7: a cancellation is put on the ledger behind a once-only latch.

    Settling is idempotent for the program ("already settled: ignore") but the handlers that run on a settlement are called for
    every input that settles, also after the outcome is decided.  Every push onto `cancelled_orders` must therefore be dominated by
    the passing edge of a test that cannot pass twice: `Cell<bool>::get()` / `replace(true)` of a latch that the same function sets,
    or a comparison of a promise `status` with `Pending` that is followed by a write of that status."""
    from c09 import edge_dominates, ancestors
    from c18 import true_edge
    ck.rule(name, "every push onto cancelled_orders is dominated by the passing edge of a once-only test (a latch the function sets, or status == Pending "
                  "followed by a status write)", floor=2)
    for p, f in sorted(fx.fns.items()):
        if not p.startswith(scope_prefix):
            continue
        pushes = []
        for bi, t in f.calls():
            if not (t[1].get("d") or "").endswith(("Vec::<T, A>::push", "Vec::<T, A>::extend", "Vec::<T, A>::insert", "::extend_from_slice", "Vec::<T, A>::append")):
                continue
            if not t[2] or t[2][0][0] not in ("c", "m"):
                continue
            d = M.trace_back(f, t[2][0][1][0])
            if d and d[1] != "T" and d[2][0] == "ref" and any(a == interp and n == "cancelled_orders" for a, v, n in F.place_fields(d[2][2])):
                pushes.append((bi, t))
        if not pushes:
            continue
        latches = []   # (passing edge block, description)
        for bi, t in f.calls():
            d = t[1].get("d") or ""
            if d.endswith(("Cell::<T>::get", "Cell::<T>::replace")) and fx.tys(f.locals[t[3][0]]) == "bool":
                te = true_edge(f, bi)
                if not te:
                    continue
                sets = d.endswith("replace") or any((t2[1].get("d") or "").endswith(("Cell::<T>::set", "Cell::<T>::replace")) and
                                                    (f.dominates(te[1], b2)) for b2, t2 in f.calls() if b2 != bi)
                if sets:
                    latches.append((te[1], "latch (Cell<bool>)"))
            # `if open.remove(&id) { .. }`: taking the id out of a set passes at most once per id
            if (d.endswith("::remove") and "HashSet" in d) and fx.tys(f.locals[t[3][0]]) == "bool":
                te = true_edge(f, bi)
                if te:
                    latches.append((te[0], "removal from a set of open ids"))
            u = t[1].get("u") or ""
            if u.endswith(("PartialEq::ne", "PartialEq::eq")) and t[2] and any(
                    a[0] in ("c", "m") and any(n == "status" for l in ancestors(f, a[1][0]) for db, si, rv in f.defs().get(l, []) if si != "T"
                                                for pl in F.rvalue_places(rv) for _, _, n in F.place_fields(pl)) for a in t[2]):
                te = true_edge(f, bi)
                if not te:
                    continue
                passing = te[1] if u.endswith("ne") else te[0]
                writes = [b2 for b2, bl in enumerate(f.blocks) for st in bl["s"] if st[0] == "a" and st[1][1] and isinstance(st[1][1][-1], list)
                          and st[1][1][-1][0] == "f" and st[1][1][-1][2] == "status" and f.dominates(passing, b2)]
                if writes:
                    latches.append((passing, "status == Pending, then status written"))
        for bi, t in pushes:
            hit = [dsc for eb, dsc in latches if edge_dominates(f, eb, bi)]
            ok = bool(hit)
            ck.instance(name, "%s: cancelled_orders.%s behind %s" % (p, (t[1].get("d") or "").split("::")[-1], hit[0] if hit else "nothing"),
                        F.short_span(t[6]), ok=ok)
            if not ok:
                ck.finding(name, "%s/%s" % (name, p), F.short_span(t[6]),
                           "`%s` puts order ids on `cancelled_orders` on a path that is not behind a once-only test: when the function runs again "
                           "for a later settlement (a race loser the host fulfils anyway, a second reject) the host is told again, and about orders "
                           "that completed" % p)
