"""C03 R8: a speculative parser that answers "no" has consumed nothing.

`try_parse_x(..) -> Result<Option<T>>` looks ahead by parsing: it takes a lexer checkpoint, consumes tokens, and on failure restores the checkpoint and
answers `None`; the caller then parses the same tokens another way.  `None` therefore means "nothing consumed".  Typestate along every path of a
function that calls `Lexer::restore`: CLEAN -> (checkpoint) -> MARKED -> (consuming call) -> DIRTY -> (restore) -> MARKED; a consuming call in CLEAN
leads to LOST, which no later checkpoint repairs.  A `None` answer in DIRTY or LOST is a violation: a token consumed before the checkpoint (the modifier
word `readonly` in front of a mapped-type bracket) is gone although the caller was told nothing matched.
"""
import facts as F
import mir as M

CLEAN, MARKED, DIRTY, LOST = range(4)


def consuming(fx, scope, advance_suffix="::advance"):
    """functions from which the token-consuming primitive is reachable"""
    callees, callers = fx.callgraph()
    roots = [p for p, g in fx.fns.items() if scope(g) and p.endswith(advance_suffix) and not g.closure]
    out, work = set(), list(roots)
    while work:
        x = work.pop()
        if x in out:
            continue
        out.add(x)
        work.extend(callers.get(x, ()))
    return out


def none_returns(fx, f):
    """blocks that make the function answer None (`_0 = None`, `_0 = Ok(None)`)"""
    out = set()
    for bi, bl in enumerate(f.blocks):
        for s in bl["s"]:
            if s[0] == "a" and s[1][0] == 0 and not s[1][1] and s[2][0] == "agg" and isinstance(s[2][1], dict):
                v = s[2][1].get("v")
                if v == "None":
                    out.add(bi)
                elif v == "Ok" and s[2][2]:
                    o = s[2][2][0]
                    if o[0] in ("c", "m"):
                        d = M.trace_back(f, o[1][0])
                        if d and d[1] != "T" and d[2][0] == "agg" and isinstance(d[2][1], dict) and d[2][1].get("v") == "None":
                            out.add(bi)
                    elif o[0] == "k" and "None" in str(o[2]):
                        out.add(bi)
    return out


def sites(fx, scope, checkpoint="::checkpoint", restore="::restore"):
    """[(fn, span, ok, state name)] one per None answer of every function that restores a checkpoint"""
    cons = consuming(fx, scope)
    out = []
    for p, f in sorted(fx.fns.items()):
        if f.derived or f.closure or not scope(f):
            continue
        kinds = {}
        for bi, t in f.calls():
            d = t[1].get("d") or ""
            if d.endswith(restore) and "Lexer" in d:
                kinds[bi] = "restore"
            elif d.endswith(checkpoint) and "Lexer" in d:
                kinds[bi] = "checkpoint"
            elif d in cons and d != p:
                kinds[bi] = "consume"
        if "restore" not in kinds.values() or "checkpoint" not in kinds.values():
            continue
        nones = none_returns(fx, f)
        if not nones:
            continue
        # forward typestate
        reach = {}
        work = [(0, CLEAN)]
        while work:
            b, st = work.pop()
            if st in reach.setdefault(b, set()):
                continue
            reach[b].add(st)
            k = kinds.get(b)
            ns = st
            if k == "checkpoint":
                ns = MARKED if st in (CLEAN, MARKED, DIRTY) else LOST
            elif k == "consume":
                ns = LOST if st in (CLEAN, LOST) else DIRTY
            elif k == "restore":
                ns = MARKED if st in (MARKED, DIRTY) else st
            for y in f.succ(b):
                work.append((y, ns))
        for b in sorted(nones):
            bad = sorted(reach.get(b, set()) & {DIRTY, LOST})
            sp = next((s[3] for s in f.blocks[b]["s"] if s[0] == "a" and s[1][0] == 0), f.span)
            out.append((f, sp, not bad, ["clean", "marked", "consumed since the checkpoint", "consumed before any checkpoint"][bad[-1]] if bad else "clean"))
    return out
