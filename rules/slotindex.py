"""C07 R6: a slot index is taken from the collection that sized the slots.

A combinator that waits for several inputs keeps one result slot per input (`results = vec![..; inputs.len()]`) and gives each
settle handler the index of its slot.  Which inputs are still pending depends on the schedule - on what the host settled before
the call - so an index that counts positions in any *other* collection (the pending inputs only, a filtered or re-ordered copy)
is right for some schedules and wrong for others.  The rule computes, for every aggregate that pairs an `index` with a shared
state holding a vector (`PromiseAllFulfill { state, index }`), the collection whose positions the index ranges over and the
collection whose length sized the vector, and requires them to be the same local collection.

Index domains are followed through copies, casts, the counter of `enumerate()` over `C.iter()` and through vectors of indices
(`idxs.push(i)` ... `for &i in &idxs`): the domain of an element of such a vector is the union of the domains of what is pushed.
"""
import facts as F
import mir as M

ITER_MAKERS = ("::iter", "::iter_mut", "IntoIterator>::into_iter", "Iterator::enumerate", "Iterator::by_ref", "Deref>::deref", "::as_slice",
               "Iterator::rev", "Iterator::peekable", "Iterator::skip", "Iterator::take", "Iterator::zip", "Iterator::filter", "Iterator::map",
               "Iterator::filter_map", "Iterator::cloned", "Iterator::copied")
NARROWING = ("Iterator::filter", "Iterator::filter_map", "Iterator::skip", "Iterator::take", "Iterator::rev", "Iterator::zip")


def root_collection(f, local, depth=0, narrowed=None):
    """(root local, narrowed?) of the collection an iterator / reference ranges over"""
    narrowed = narrowed if narrowed is not None else [False]
    if depth > 14:
        return None
    ds = f.defs().get(local, [])
    if not ds:
        return local
    if len(ds) != 1:
        return local
    bi, si, rv = ds[0]
    if si == "T":
        d = rv[1].get("d") or ""
        u = rv[1].get("u") or ""
        if (d.endswith(ITER_MAKERS) or u.endswith(ITER_MAKERS)) and rv[2] and rv[2][0][0] in ("c", "m"):
            if d.endswith(NARROWING) or u.endswith(NARROWING):
                narrowed[0] = True
            return root_collection(f, rv[2][0][1][0], depth + 1, narrowed)
        return local
    if rv[0] == "ref" or (rv[0] == "use" and rv[1][0] in ("c", "m")):
        pl = rv[2] if rv[0] == "ref" else rv[1][1]
        if any(isinstance(e, list) and e[0] == "f" for e in pl[1]):
            return local
        return root_collection(f, pl[0], depth + 1, narrowed)
    return local


def index_domain(fx, f, op, depth=0, seen=None):
    """set of root collection locals whose positions the index value ranges over ('?' = unknown)"""
    seen = seen if seen is not None else set()
    if op[0] not in ("c", "m") or depth > 16:
        return {"?"}
    local, proj = op[1][0], op[1][1]
    key = (local, str(proj))
    if key in seen:
        return set()
    seen.add(key)
    # payload of an iterator's next()
    if any(isinstance(e, list) and e[0] == "d" and e[1] == "Some" for e in proj):
        d = M.trace_back(f, local)
        if d and d[1] == "T" and (d[2][1].get("u") or "").endswith("Iterator::next"):
            it = d[2][2][0]
            narrowed = [False]
            root = root_collection(f, it[1][0], 0, narrowed) if it[0] in ("c", "m") else None
            dn = d[2][1].get("d") or ""
            tuple_fields = [e for e in proj if isinstance(e, list) and e[0] == "f" and e[3] == "tuple"]
            if "Enumerate" in dn and tuple_fields and tuple_fields[-1][1] == 0:
                # the counter of enumerate(): positions in what is being enumerated
                if narrowed[0]:
                    return {"narrowed(%s)" % (f.var_name(root) or root)}
                return {root}
            # an element of the iterated collection: if that is a vector of indices, the domain of what was pushed
            if root is not None and "usize" in fx.tys(f.locals[root]):
                out = set()
                for bi, t in f.calls():
                    if (t[1].get("d") or "").endswith(("Vec::<T, A>::push", "Vec::<T, A>::insert", "VecDeque::<T, A>::push_back")) and t[2] and \
                            t[2][0][0] in ("c", "m") and root_collection(f, t[2][0][1][0]) == root:
                        out |= index_domain(fx, f, t[2][-1], depth + 1, seen)
                return out or {"?"}
            return {"?"}
    out = set()
    for bi, si, rv in f.defs().get(local, []):
        if si == "T":
            out.add("?")
        elif rv[0] == "use":
            out |= index_domain(fx, f, rv[1], depth + 1, seen)
        elif rv[0] == "cast":
            out |= index_domain(fx, f, rv[2], depth + 1, seen)
        elif rv[0] == "ref":
            out |= index_domain(fx, f, ["c", rv[2]], depth + 1, seen)
        else:
            out.add("?")
    if not f.defs().get(local):
        out.add("?")
    return out


def length_domain(fx, f, op, depth=0):
    """root collections whose len() sized the vector behind operand `op`"""
    if op[0] not in ("c", "m") or depth > 12:
        return {"?"}
    local = op[1][0]
    out = set()
    for bi, si, rv in f.defs().get(local, []):
        if si == "T":
            d = rv[1].get("d") or ""
            if d.endswith("vec::from_elem") and len(rv[2]) > 1:
                n = rv[2][1]
                dn = M.trace_back(f, n[1][0]) if n[0] in ("c", "m") else None
                if dn and dn[1] == "T" and (dn[2][1].get("d") or "").endswith("::len") and dn[2][2] and dn[2][2][0][0] in ("c", "m"):
                    out.add(root_collection(f, dn[2][2][0][1][0]))
                else:
                    out.add("?")
            elif d.endswith(("RefCell::<T>::new", "Cell::<T>::new", "Rc::<T>::new", "Box::<T>::new", "Clone::clone")) and rv[2]:
                out |= length_domain(fx, f, rv[2][0], depth + 1)
            elif d.endswith("Iterator::collect") and rv[2] and rv[2][0][0] in ("c", "m"):
                narrowed = [False]
                r = root_collection(f, rv[2][0][1][0], 0, narrowed)
                out.add(("narrowed(%s)" % (f.var_name(r) or r)) if narrowed[0] else r)
            else:
                out.add("?")
        elif rv[0] == "use":
            out |= length_domain(fx, f, rv[1], depth + 1)
        else:
            out.add("?")
    # a vector filled by one push per iteration of a loop over C
    if out <= {"?"}:
        for bi, t in f.calls():
            if (t[1].get("d") or "").endswith("Vec::<T, A>::push") and t[2] and t[2][0][0] in ("c", "m") and root_collection(f, t[2][0][1][0]) == local:
                out.add("pushes")
    return out or {"?"}


def rule(fx, ck, name="R6.slot-index-domain", prefix=""):
    ck.rule(name, "an index stored next to a shared result vector ranges over the collection that sized the vector", floor=1)
    n = 0
    for p, f in sorted(fx.fns.items()):
        if prefix and not p.startswith(prefix):
            continue
        states = {}   # local of the shared-state aggregate -> (length domain, span)
        for bi, bl in enumerate(f.blocks):
            for s in bl["s"]:
                if s[0] == "a" and s[2][0] == "agg" and s[2][1].get("k") == "adt" and "index" not in (s[2][1].get("fields") or []):
                    # a shared state: an aggregate with a vector field (one slot per input: `results`, `input_order_ids`, ...)
                    fields = s[2][1].get("fields") or []
                    for fi, fname in enumerate(fields):
                        o = s[2][2][fi] if fi < len(s[2][2]) else None
                        if o is None or o[0] not in ("c", "m") or "Vec<" not in fx.tys(f.locals[o[1][0]]):
                            continue
                        ld = length_domain(fx, f, o)
                        if fname == "results" or not (ld <= {"?", "pushes"}):
                            states["%s.%s" % (s[2][1].get("p"), fname)] = (ld, s[3])
        if not states:
            continue
        for bi, bl in enumerate(f.blocks):
            for s in bl["s"]:
                if not (s[0] == "a" and s[2][0] == "agg" and s[2][1].get("k") == "adt"):
                    continue
                fields = s[2][1].get("fields") or []
                if "index" not in fields or "state" not in fields:
                    continue
                n += 1
                idom = index_domain(fx, f, s[2][2][fields.index("index")])
                ldom = set()
                for st, (ld, sp) in states.items():
                    ldom |= ld
                show = lambda dset: sorted(str(f.var_name(x) or x) if not isinstance(x, str) else x for x in dset)
                decided = "?" not in idom and "?" not in ldom and idom and ldom
                ok = (not decided) or idom == ldom
                ck.instance(name, "%s: %s.index over %s; results sized by %s" % (p, s[2][1].get("v") or s[2][1].get("p"), show(idom), show(ldom)),
                            F.short_span(s[3]), nontrivial=bool(decided), ok=ok)
                if not ok:
                    ck.finding(name, "%s/%s/%s" % (name, p, s[2][1].get("v") or "?"), F.short_span(s[3]),
                               "`%s` gives `%s` an index that counts positions in %s, while the result vector it indexes has one slot per element of %s: "
                               "which inputs are still pending depends on what the host settled before the call, so results land in the wrong slots "
                               "for some schedules" % (p, s[2][1].get("v") or "?", show(idom), show(ldom)))
                if not decided:
                    ck.note("%s: index domain %s / length domain %s not decided" % (p, show(idom), show(ldom)))
    return n
