"""C11 - an interpreter stays usable and clean after failed or abandoned runs.

Decided (run-state restoration on all exits):
  R1 every installation of a new current environment (`Interpreter.env = <fresh>`) reaches each
     function exit - every `?` included - only through a restoration from the saved value or a
     hand-off of the saved value (stored in a frame / `active_saved_env` / passed on / returned);
  R2 the same for the run-scoped scratch fields taken with mem::take / Option::take
     (`exports`, `current_module_path`);
  R3 the consumer of the `active_saved_env` hand-off restores on every terminal outcome: in
     step() the error arm of the VM result passes abort_active_execution / finalize_active_execution;
  R4 prepare() disposes of a still-active run before installing a new one;
  R5 (push/pop pairing of env_guards and call_stack on all exits: decided under C14 R1-R3).
Not decided: that observer programs behave identically on a reused interpreter (values); frames
of a run abandoned inside a call (call_stack entries stay: known finding).
"""
from common import Check
import facts as F
import mir as M
import exits as E
import envflow as EV
from c08 import bool_tests

INTERP = "interpreter::Interpreter"
# functions whose only job is to switch the current environment; their callers are checked instead
SWITCHERS = {
    "interpreter::Interpreter::push_scope": "opens a block scope (closed by pop_scope; pairing under C14/C01)",
    "interpreter::bytecode_vm::BytecodeVM::push_trampoline_frame_and_call_bytecode": "enters a callee: the saved env travels in the trampoline frame",
    "interpreter::bytecode_vm::BytecodeVM::push_trampoline_frame_and_call_bytecode_construct": "same (construct)",
}


def covers_all_paths(f, blocks):
    """every path from the entry of f to a return passes one of `blocks`"""
    if not blocks:
        return False
    if 0 in blocks:
        return True
    rets = {bi for bi, bl in enumerate(f.blocks) if bl["t"][0] == "ret"}
    reach = f.reachable_from(0, stop=set(blocks)) | {0}
    return not any(r in reach and r not in blocks for r in rets)


def runs_guest(fx, g, suffixes, depth, seen):
    """the function calls one of `suffixes` itself or through functions of the interpreter (bounded depth)"""
    if g.path in seen:
        return False
    seen.add(g.path)
    for _, t in g.calls():
        d = t[1].get("d") or ""
        if d.endswith(suffixes):
            return True
    if depth <= 0:
        return False
    for _, t in g.calls():
        d = t[1].get("d") or ""
        h = fx.fns.get(d)
        if h is not None and d.startswith("interpreter::") and runs_guest(fx, h, suffixes, depth - 1, seen):
            return True
    return False

def event_blocks(fx, f, direct, depth=2):
    """blocks of f at which an event surely happens: where `direct(f)` says so, or at the call of a private interpreter helper on all of whose
    paths it happens (`begin_new_run()` clears the export table on every path: calling it is clearing the table)"""
    out = set(direct(f))
    if depth > 0:
        for bi, t in f.calls():
            d = t[1].get("d") or ""
            if t[1].get("local") and d.startswith(INTERP + "::") and d in fx.fns and d != f.path and fx.fns[d].vis != "Public" and len(fx.fns[d].blocks) < 120:
                g = fx.fns[d]
                if covers_all_paths(g, event_blocks(fx, g, direct, depth - 1)):
                    out.add(bi)
    return out


def run(tier):
    ck = Check("C11", tier, "install/restore provenance classification of writes to Interpreter.env and scratch fields + exit-path graph search on the MIR CFG; dominance rules for the active-run hand-off",
               ["that observer programs behave identically on a reused interpreter (values)",
                "global-state effects a failed program made deliberately"])
    fx = F.load("A")
    ck.configs.append("A: cargo +nightly check --lib --features c-api")
    ck.anchor(INTERP in fx.adts, "struct Interpreter")
    ck.rule("R1.env-restore", "from every installation of Interpreter.env each exit passes a restore or a hand-off of the saved environment", floor=8)
    ck.rule("R2.scratch-restore", "run-scoped scratch fields taken out (exports, current_module_path) are put back on every exit", floor=1)
    n_env = 0
    for f in fx.fns.values():
        for field, rule in (("env", "R1.env-restore"), ("exports", "R2.scratch-restore"), ("current_module_path", "R2.scratch-restore")):
            ins, res, ho, saved = EV.analyse(fx, f, field)
            if field != "env":
                # for scratch fields the install is the take itself
                ins = []
                for bi, t in f.calls():
                    d = t[1].get("d", "")
                    if d in ("std::mem::take",) or d.endswith("Option::<T>::take"):
                        if t[2] and t[2][0][0] in ("c", "m"):
                            fl = E.field_of_ref(f, t[2][0][1][0])
                            if fl and fl[0] == INTERP and fl[2] == field and not t[3][1] and t[3][0] in saved:
                                # only takes whose result is kept (a saved copy), not drains
                                ins.append((bi, t[6]))
                if not ins:
                    continue
                # a take whose saved value is never written back anywhere is a drain, not a save
                if not res:
                    continue
            if not ins:
                continue
            if (f.path in SWITCHERS or (f.path in EV.scope_entering_helpers(fx, "env") and not EV.fallible(fx, f))) and field == "env":
                ck.instance(rule, f.path + " (environment switcher)", F.short_span(ins[0][1]))
                continue
            closers = {b for b, _ in res} | ho
            seen_sites = set()
            for b, sp in ins:
                site = F.short_span(sp)
                if site in seen_sites:
                    continue
                seen_sites.add(site)
                n_env += 1
                esc = E.escapes_some_sensitive(fx, f, b, closers, assume=tuple(E.some_facts_at(fx, f, b)))
                if b in closers and not any(s[0] == "a" and EV.is_env_place(s[1], field) and s[2][0] != "ref" for s in f.blocks[b]["s"]):
                    esc = None   # installed on entry to this block (the Ok edge of a fallible helper); the block itself hands the saved value on
                ck.instance(rule, "%s/%s" % (f.path, field), site, ok=esc is None)
                if esc is not None:
                    wit = E.path_witness(f, b, closers)
                    ck.finding(rule, "%s/%s/%s" % (rule, f.path, field), site,
                               "`%s` installs a new `%s` and a path reaches the return at %s without restoring it (%s): a run that fails there leaves its scope "
                               "installed for the next program" % (f.path, field, E.exit_description(f, esc), "; ".join(wit[-4:]) or "direct"),
                               {"install": site, "exit": E.exit_description(f, esc), "path": wit})

    # R1c: whoever runs a VM to an outcome inside one call puts the environment back afterwards.  A run installs scopes of its own
    # (block scopes, callee scopes); when it fails inside them nobody pops them, so the driver must have remembered the environment
    # on *every* path to the run (prepare() does, step() restores through abort/finalize - R3).
    ck.rule("R1c.run-boundary", "every function that runs a VM to an outcome restores Interpreter.env on all paths after the run (or is a helper whose "
                                "callers all do)", floor=3)
    runs = {p for p in fx.fns if p.endswith("BytecodeVM::run")}
    ck.anchor(bool(runs), "BytecodeVM::run")
    _, callers = fx.callgraph()
    drivers = set()
    for r in runs:
        drivers |= {c for c in callers.get(r, set()) if c in fx.fns and c.startswith("interpreter::Interpreter::")}
    transparent = set()
    judged = set()
    work = sorted(drivers)
    while work:
        p = work.pop()
        if p in judged:
            continue
        judged.add(p)
        f = fx.fns[p]
        ins, res, ho, saved = EV.analyse(fx, f, "env")
        if not res and not any(f.blocks[b]["t"][0] == "call" and f.blocks[b]["t"][1].get("local") for b in ho):
            # no restore of its own: a helper; its callers are the drivers
            transparent.add(p)
            cs = [c for c in callers.get(p, set()) if c in fx.fns and c != p]
            if not cs or f.vis == "Public" and not cs:
                ck.instance("R1c.run-boundary", "%s (public entry that runs a VM and never restores the environment)" % p, F.short_span(f.span), ok=False)
                ck.finding("R1c.run-boundary", "R1c.run-boundary/%s" % p, F.short_span(f.span),
                           "`%s` runs a VM and neither it nor any caller restores Interpreter.env afterwards" % p)
            work.extend(c for c in cs if c.startswith("interpreter::"))
            continue
    for p in sorted(judged - transparent):
        f = fx.fns[p]
        ins, res, ho, saved = EV.analyse(fx, f, "env")
        closers = {b for b, _ in res}
        for b in ho:
            t = f.blocks[b]["t"]
            if t[0] == "call" and t[1].get("local"):
                closers.add(b)
            for st_ in f.blocks[b]["s"]:
                if st_[0] == "a" and st_[1][1] and any(n in ("active_saved_env", "saved_interp_env", "saved_env") for _, _, n in F.place_fields(st_[1])):
                    closers.add(b)
        sites = [(bi, t) for bi, t in f.calls() if t[1].get("d") in runs or t[1].get("d") in transparent]
        for bi, t in sites:
            facts0 = E.some_facts_at(fx, f, bi)
            esc = E.escapes_some_sensitive(fx, f, bi, closers, assume=tuple(facts0))
            ck.instance("R1c.run-boundary", "%s runs %s" % (p, (t[1].get("d") or "?").split("::")[-1]), F.short_span(t[6]), ok=esc is None)
            if esc is not None:
                ck.finding("R1c.run-boundary", "R1c.run-boundary/%s" % p, F.short_span(t[6]),
                           "`%s` runs a VM and can return (%s) without writing Interpreter.env back: a run that fails inside a block or a call leaves "
                           "that scope current, and the next program sees its bindings (`{ let secret = 1; throw 0 }` then `typeof secret`)"
                           % (p, E.exit_description(f, esc)))

    # R6: disposing of a run empties the run-scoped stacks
    ck.rule("R6.abort-clears-stacks", "the function that disposes of an active run clears the call stack, the scope guards the run pushed, its export table and what of it was waiting to be resumed", floor=5)
    disposers = [f for f in fx.fns.values() if not f.closure and f.path.startswith("interpreter::Interpreter::") and
                 any(st_[0] == "a" and F.place_fields(st_[1]) and F.place_fields(st_[1])[-1][2] == "active_vm" and
                     ((st_[2][0] == "agg" and st_[2][1].get("v") == "None") or
                      (st_[2][0] == "use" and st_[2][1][0] in ("c", "m") and (M.trace_back(f, st_[2][1][1][0]) or (0, 0, ["", {}]))[2][0] == "agg"
                       and (M.trace_back(f, st_[2][1][1][0]) or (0, 0, ["", {}]))[2][1].get("v") == "None"))
                     for bl in f.blocks for st_ in bl["s"]) and
                 any((t[1].get("d") or "").endswith("Option::<T>::take") and t[2] and t[2][0][0] in ("c", "m") and
                     (E.field_of_ref(f, t[2][0][1][0]) or (None, None, None))[2] == "active_saved_env" for bi, t in f.calls())]
    ck.anchor(bool(disposers), "run disposer (sets active_vm = None and takes active_saved_env)")
    for f in disposers:
        cleared = set()
        for bi, t in f.calls():
            d = t[1].get("d") or ""
            if d.endswith(("::clear", "Vec::<T, A>::truncate", "::drain")) and t[2] and t[2][0][0] in ("c", "m"):
                fl = E.field_of_ref(f, t[2][0][1][0])
                if fl and fl[0] == INTERP:
                    cleared.add(fl[2])
        for st_ in [st_ for bl in f.blocks for st_ in bl["s"]]:
            if st_[0] == "a" and F.place_fields(st_[1]) and F.place_fields(st_[1])[-1][0] == INTERP and F.place_fields(st_[1])[-1][2] in (
                    "call_stack", "env_guards", "exports", "suspended_for_order", "wait_graph"):
                cleared.add(F.place_fields(st_[1])[-1][2])
        for fld in ("call_stack", "env_guards", "exports", "suspended_for_order", "wait_graph"):
            ok = fld in cleared
            ck.instance("R6.abort-clears-stacks", "%s clears %s" % (f.path, fld), F.short_span(f.span), ok=ok)
            if not ok:
                ck.finding("R6.abort-clears-stacks", "R6.abort-clears-stacks/%s/%s" % (f.path, fld), F.short_span(f.span),
                           "`%s` disposes of a run the host stopped stepping but leaves `%s` as the run left it: a run abandoned inside calls and blocks "
                           "keeps its %s (call_depth() stays above 0 / the objects of its scopes stay rooted: +6 live objects per abandoned run)"
                           % (f.path, fld, "call-stack entries" if fld == "call_stack" else "scope guards" if fld == "env_guards" else
                              "suspended continuation (the next program's completion is reported as Suspended because something of the dead run still waits)"
                              if fld in ("suspended_for_order", "wait_graph") else
                              "exports (the export table is drained only when a run is finalised: `export const stale = 1; throw ..` leaves `stale` for the next module's namespace)"))

    # R6b: a new main run starts with an empty export table (eval() has no disposer of its own: its failing exits just return)
    ck.rule("R6b.run-starts-clean", "every public entry that parses and starts a main program clears Interpreter.exports before anything can fail", floor=2)
    for p, f in sorted(fx.fns.items()):
        if f.derived or f.closure or not p.startswith("interpreter::Interpreter::"):
            continue
        import c19 as C19
        parses = C19.reaches_call(fx, f, ("Parser::<'a>::parse_program",))
        if not parses or not str(f.vis if hasattr(f, "vis") else "").startswith("pub") and p.split("::")[-1] not in ("eval", "prepare"):
            continue
        if p.split("::")[-1] not in ("eval", "prepare") and not any("ModulePath" in fx.tys(f.locals[i]) and fx.tys(f.locals[i]).startswith("std::option::Option<") for i in range(1, f.argc + 1)):
            continue     # parses something else than a main program (provide_module)
        def clears_exports(g):
            return any((t[1].get("d") or "").endswith(("::clear", "::drain")) and t[2] and t[2][0][0] in ("c", "m")
                       and (E.field_of_ref(g, t[2][0][1][0]) or (None, None, None))[2] == "exports" for _, t in g.calls())
        def direct_clear(g):
            return {bi for bi, t in g.calls() if ((t[1].get("d") or "").endswith(("::clear", "::drain")) and t[2] and t[2][0][0] in ("c", "m")
                                                   and (E.field_of_ref(g, t[2][0][1][0]) or (None, None, None))[2] == "exports")}
        clear_blocks = event_blocks(fx, f, direct_clear) | {bi for bi, t in f.calls() if t[1].get("local") and t[1].get("d") in fx.fns and t[1].get("d") != p
                                                             and covers_all_paths(fx.fns[t[1]["d"]], direct_clear(fx.fns[t[1]["d"]]))}
        # every path from the entry to the parse passes a point that empties the table (directly, or by disposing of the previous run)
        reach = set() if 0 in clear_blocks else (f.reachable_from(0, stop=clear_blocks) | {0})
        ok = bool(clear_blocks) and not any(pb in reach and pb not in clear_blocks for pb in parses)
        ck.instance("R6b.run-starts-clean", p, F.short_span(f.span), ok=ok)
        if not ok:
            ck.finding("R6b.run-starts-clean", "R6b.run-starts-clean/%s" % p, F.short_span(f.span),
                       "`%s` starts a main program without emptying the export table: what a failed or abandoned earlier run exported shows up in this module's namespace" % p)
    # R6c: the entries are siblings in what they do before they parse: each gives a previous run that was never finished to the disposer
    # (the function that drops the VM and the wait graph), and each drops a program of an earlier run that still waits for its imports
    ck.rule("R6c.entries-dispose-alike", "every entry that parses and starts a main program calls the run disposer and resets Interpreter.pending_program before the parse", floor=4)
    disposers = set()
    for p, f in fx.fns.items():
        if f.derived or f.closure or not p.startswith("interpreter::Interpreter::"):
            continue
        w = set()
        for bl in f.blocks:
            for s_ in bl["s"]:
                if s_[0] == "a":
                    for a_, v_, n_ in F.place_fields(s_[1]):
                        if a_ == INTERP:
                            w.add(n_)
        if {"active_vm", "wait_graph"} <= w:
            disposers.add(p)
    ck.anchor(bool(disposers), "run disposer(s): functions that reset both active_vm and wait_graph (found %s)" % sorted(d.split("::")[-1] for d in disposers))
    for p, f in sorted(fx.fns.items()):
        if f.derived or f.closure or not p.startswith("interpreter::Interpreter::") or p.split("::")[-1] not in ("eval", "prepare"):
            continue
        import c19 as C19
        parses = C19.reaches_call(fx, f, ("Parser::<'a>::parse_program",))
        if not parses:
            continue
        # the disposer is called here, or in a private helper called here (`begin_new_run()` tests for an unfinished run and disposes of it)
        dnames = tuple(sorted(disposers))
        disp = [bi for bi in (C19.reaches_call(fx, f, dnames) if dnames else []) if any(pb in f.reachable_from(bi) for pb in parses)]
        ok1 = bool(disp)
        ck.instance("R6c.entries-dispose-alike", "%s: disposer before the parse" % p, F.short_span(f.span), ok=ok1)
        if not ok1:
            ck.finding("R6c.entries-dispose-alike", "R6c.entries-dispose-alike/%s/disposer" % p, F.short_span(f.span),
                       "`%s` starts a program without giving an unfinished previous run to the disposer (%s): `eval(\"1 + 1\")` after a suspended run the host abandoned "
                       "answers Suspended, and after a run abandoned in mid-flight it executes in that run's scope with its call stack in place" % (p, ", ".join(sorted(d.split("::")[-1] for d in disposers))))
        def direct_reset(g):
            out_ = set()
            for bi, bl in enumerate(g.blocks):
                for s_ in bl["s"]:
                    if s_[0] == "a" and any(a_ == INTERP and n_ == "pending_program" for a_, v_, n_ in F.place_fields(s_[1])):
                        rv_ = s_[2]
                        if rv_[0] == "use" and rv_[1][0] in ("c", "m") and not rv_[1][1][1]:
                            d_ = M.trace_back(g, rv_[1][1][0])
                            rv_ = d_[2] if d_ and d_[1] != "T" else rv_
                        if rv_[0] == "agg" and isinstance(rv_[1], dict) and rv_[1].get("v") == "None":
                            out_.add(bi)
            for bi, t in g.calls():
                if (t[1].get("d") or "").endswith("Option::<T>::take") and t[2] and t[2][0][0] in ("c", "m") and (E.field_of_ref(g, t[2][0][1][0]) or (0, 0, 0))[2] == "pending_program":
                    out_.add(bi)
            return out_
        resets = event_blocks(fx, f, direct_reset)
        reach = set() if 0 in resets else (f.reachable_from(0, stop=resets) | {0})
        ok2 = bool(resets) and not any(pb in reach and pb not in resets for pb in parses)
        ck.instance("R6c.entries-dispose-alike", "%s: pending_program reset before the parse" % p, F.short_span(f.span), ok=ok2)
        if not ok2:
            ck.finding("R6c.entries-dispose-alike", "R6c.entries-dispose-alike/%s/pending_program" % p, F.short_span(f.span),
                       "`%s` starts a program while a program of an earlier run may still be parked in pending_program: after the new program completes, the next "
                       "step() takes the parked one up again and answers NeedImports for a run the host gave up" % p)
    # R6d: an entry that runs the program itself disposes of a run that fails.  step() does (R3 / R3b); eval() runs the VM to completion and must do the
    # same behind that call: the disposer is called on some path that leads from the run to the return
    ck.rule("R6d.failed-eval-disposes", "an entry point that runs the VM to completion calls the run disposer on a path behind that call (a run that fails leaves no orders, "
            "frames or waiting contexts behind)", floor=1)
    for p, f in sorted(fx.fns.items()):
        if f.derived or f.closure or not p.startswith("interpreter::Interpreter::") or f.vis != "Public":
            continue
        runs6 = [bi for bi, t in f.calls() if (t[1].get("d") or "").endswith("Interpreter::run_vm_to_completion")]
        if not runs6:
            continue
        import c19 as C19
        dnames6 = tuple(sorted(disposers))
        disp6 = C19.reaches_call(fx, f, dnames6) if dnames6 else []
        ok6 = any(d in f.reachable_from(rb) and d != rb for rb in runs6 for d in disp6)
        ck.instance("R6d.failed-eval-disposes", "%s: disposer behind run_vm_to_completion" % p, F.short_span(f.span), ok=ok6)
        if not ok6:
            ck.finding("R6d.failed-eval-disposes", "R6d.failed-eval-disposes/%s" % p, F.short_span(f.span),
                       "`%s` runs the program to completion and returns its error without disposing of the run: the orders it issued are handed to the host by the next "
                       "program (`[1].map(order); throw ..` then `1` answers Suspended with one pending order; prepare+step answers Complete(1))" % p)
    # R3: step() error arm
    # R3b: whoever takes the saved environment out of its slot puts it back whenever there is one
    ck.rule("R3b.slot-restore", "a function that takes Interpreter.active_saved_env restores Interpreter.env on every path on which the slot held a value", floor=1)
    for f in fx.fns.values():
        if f.derived:
            continue
        for bi, t in f.calls():
            if not t[1].get("d", "").endswith("Option::<T>::take") or not t[2] or t[2][0][0] not in ("c", "m") or not t[3] or t[3][1]:
                continue
            fl = E.field_of_ref(f, t[2][0][1][0])
            if not fl or fl[0] != INTERP or fl[2] != "active_saved_env":
                continue
            closers = set()
            for b2, bl in enumerate(f.blocks):
                for st_ in bl["s"]:
                    if st_[0] == "a" and EV.is_env_place(st_[1], "env") and st_[2][0] != "ref":
                        closers.add(b2)
            esc = E.escapes_some_sensitive(fx, f, bi, closers, assume=(t[3][0],))
            ck.instance("R3b.slot-restore", f.parent, F.short_span(t[6]), ok=esc is None)
            if esc is not None:
                ck.finding("R3b.slot-restore", "R3b.slot-restore/" + f.parent, F.short_span(t[6]),
                           "`%s` takes the saved environment out of active_saved_env and can return without writing it back to Interpreter.env although the slot "
                           "held a value: the next program starts inside the scope the failed or abandoned run left behind" % f.parent)

    ck.rule("R3.terminal-restore", "step(): the error outcome of a terminal VM result restores the run state (abort/finalize)", floor=1)
    st = fx.one("interpreter::Interpreter::step")
    pv = [(bi, t) for bi, t in st.calls() if t[1].get("d", "").endswith("Interpreter::process_vm_result")]
    ck.anchor(bool(pv), "call of process_vm_result in step()")
    closers = {bi for bi, t in st.calls() if t[1].get("d", "").endswith(("Interpreter::abort_active_execution", "Interpreter::finalize_active_execution"))}
    for bi, t in pv:
        res_local = t[3][0]
        # find the match on the Result: Err arm
        ok = None
        for sb, en, place, arms, other, rest in M.enum_switches(fx, st):
            if en.endswith("result::Result") or en.endswith("ops::ControlFlow"):
                base = place[0]
                d0 = M.trace_back(st, base)
                origin = base
                if d0 and d0[1] == "T" and "ops::Try" in d0[2][1].get("d", "") and d0[2][2] and d0[2][2][0][0] in ("c", "m"):
                    origin = d0[2][2][0][1][0]
                if origin != res_local and base != res_local:
                    continue
                err_t = arms.get("Err", arms.get("Break"))
                if err_t is None and ("Err" in rest or "Break" in rest):
                    err_t = other
                if err_t is None:
                    continue
                # every path from the Err arm to a return passes a closer
                esc = E.escapes(st, sb, closers | {x for n, x in arms.items() if x != err_t})
                ok = esc is None
        if not ok:
            # `process_vm_result(..).map_err(|e| { self.abort_active_execution(); e })?`: the Err outcome runs the closure
            for b2, t2 in st.calls():
                if (t2[1].get("d") or "").endswith("Result::<T, E>::map_err") and t2[2] and t2[2][0][0] in ("c", "m") and t2[2][0][1][0] == res_local and len(t2[2]) > 1 \
                        and t2[2][1][0] in ("c", "m"):
                    cty = fx.tys(st.locals[t2[2][1][1][0]])
                    for g in fx.fns.values():
                        if g.closure and g.parent == st.path and ("{closure@%s:" % g.span.split("-")[0]) in cty and \
                                any((t3[1].get("d") or "").endswith(("Interpreter::abort_active_execution", "Interpreter::finalize_active_execution")) for _, t3 in g.calls()):
                            ok = True
        ck.instance("R3.terminal-restore", "step/process_vm_result Err arm", F.short_span(t[6]), ok=bool(ok))
        if not ok:
            ck.finding("R3.terminal-restore", "R3.terminal-restore/step", F.short_span(t[6]),
                       "step(): when the VM result is an error the run's module scope (active_saved_env) is not restored: an uncaught error leaves the "
                       "failed program's top-level scope installed")

    # R4: prepare disposes of an active run
    ck.rule("R4.prepare-disposes", "prepare() aborts a still-active run before installing a new one", floor=1)
    pr = fx.one("interpreter::Interpreter::prepare")
    ins, res, ho, saved = EV.analyse(fx, pr, "env")
    aborts = [bi for bi, t in pr.calls() if t[1].get("d", "").endswith("Interpreter::abort_active_execution")]

    def pred(f, t):
        d = t[1].get("d", "")
        if d.endswith("::is_some") and t[2] and t[2][0][0] in ("c", "m"):
            fl = E.field_of_ref(f, t[2][0][1][0])
            if fl and fl[0] == INTERP and fl[2] in ("active_vm", "active_saved_env"):
                return fl[2]
        return None
    tests = bool_tests(pr, pred)
    # every write of the run bookkeeping (including parking the program until its imports arrive) comes after the disposal
    book = []
    for bi, bl in enumerate(pr.blocks):
        if bl["c"]:
            continue
        for s in bl["s"]:
            if s[0] == "a" and s[2][0] != "ref":
                fl = F.place_fields(s[1])
                if fl and fl[-1][0] == INTERP and fl[-1][2] in ("pending_program", "active_vm", "active_saved_env", "active_module_env", "active_module_path"):
                    book.append(bi)
    # ... or is done by a private helper called here (`install_main_program(..)`, `defer_program_until_imported(..)`)
    import c19 as C19
    BOOK = ("pending_program", "active_vm", "active_saved_env", "active_module_env", "active_module_path")
    for bi, t in pr.calls():
        d = t[1].get("d") or ""
        if t[1].get("local") and d.startswith(INTERP + "::") and d in fx.fns and d != pr.path and fx.fns[d].vis != "Public" \
                and not d.endswith("abort_active_execution") and (C19.writes_fields(fx, fx.fns[d], INTERP, depth=0) & set(BOOK)):
            # a helper that only *resets* bookkeeping on the way in (begin_new_run: pending_program = None) is part of the disposal, not an installation
            if not any((t2[1].get("d") or "").endswith("Interpreter::abort_active_execution") for _, t2 in fx.fns[d].calls()):
                book.append(bi)
    ck.anchor(bool(book), "prepare() writes run bookkeeping fields")
    must = [b for b, _ in ins] + book
    # the disposal may live in a private helper (`begin_new_run()`: test for an unfinished run, abort it): its call is the disposal point
    disposal_helpers = {q for q, g in fx.fns.items() if not g.derived and not g.closure and q.startswith(INTERP + "::") and g.vis != "Public" and q != pr.path
                        and any((t2[1].get("d") or "").endswith("Interpreter::abort_active_execution") for _, t2 in g.calls())}
    helper_calls = [bi for bi, t in pr.calls() if t[1].get("d") in disposal_helpers]
    ok = False
    for (sb, tt, ft, what) in tests:
        # the abort is on the true edge and the test dominates every install and every bookkeeping write
        if any(pr.dominates(tt, a) for a in aborts) and all(pr.dominates(sb, b) for b in must):
            ok = True
        # `if a.is_some() || b.is_some() || ..  { abort }`: from the true edge of the test every path to an install / bookkeeping write passes the abort
        # (followed path-sensitively through the boolean temporary of the `||` chain)
        elif aborts and all(pr.dominates(sb, b) for b in must):
            reach = M.reach_bool_sensitive(fx, pr, [tt], stop=set(aborts))
            if not (reach - set(aborts)) & set(must):
                ok = True
    if aborts and not tests and all(any(pr.dominates(a, b) for a in aborts) for b in must):
        ok = True
    if not aborts and helper_calls and all(any(pr.dominates(h, b) for h in helper_calls) for b in must):
        ok = True
    ck.instance("R4.prepare-disposes", "prepare", F.short_span(pr.span), ok=ok)
    if not ok:
        ck.finding("R4.prepare-disposes", "R4.prepare-disposes/prepare", F.short_span(pr.span),
                   "prepare() overwrites active_vm / active_saved_env of a run the host stopped stepping without restoring its environment: the abandoned "
                   "program's scope stays installed")
    # R4c: a run the host stopped stepping can sit in three places: an active VM, a continuation parked for an order, contexts in the wait graph
    ck.rule("R4c.disposal-test-covers-slots", "prepare() decides whether to dispose of a previous run by looking at every slot a stopped run can live in "
                                              "(active_vm, suspended_for_order, wait_graph)", floor=3)
    looked = set()
    for bi, t in pr.calls():
        if t[2] and t[2][0][0] in ("c", "m") and any(bi in pr.reachable_to(a) if hasattr(pr, "reachable_to") else a in pr.reachable_from(bi) for a in aborts):
            fl = E.field_of_ref(pr, t[2][0][1][0])
            if fl and fl[0] == INTERP and fl[2] in ("active_vm", "suspended_for_order", "wait_graph"):
                looked.add(fl[2])
    # the decision taken in a disposal helper, possibly through a predicate (`if self.has_unfinished_run() { abort }`)
    for q in sorted(disposal_helpers if helper_calls and not aborts else ()):
        group = [fx.fns[q]] + [fx.fns[t[1]["d"]] for _, t in fx.fns[q].calls() if t[1].get("local") and (t[1].get("d") or "").startswith(INTERP + "::")
                               and t[1]["d"] in fx.fns and fx.fns[t[1]["d"]].sig and fx.tys(fx.fns[t[1]["d"]].sig[-1]) == "bool"]
        for g in group:
            for bi, t in g.calls():
                if t[2] and t[2][0][0] in ("c", "m"):
                    fl = E.field_of_ref(g, t[2][0][1][0])
                    if fl and fl[0] == INTERP and fl[2] in ("active_vm", "suspended_for_order", "wait_graph"):
                        looked.add(fl[2])
    for slot in ("active_vm", "suspended_for_order", "wait_graph"):
        ck.instance("R4c.disposal-test-covers-slots", "prepare looks at %s before deciding" % slot, F.short_span(pr.span), ok=slot in looked)
        if slot not in looked:
            ck.finding("R4c.disposal-test-covers-slots", "R4c.disposal-test-covers-slots/prepare/%s" % slot, F.short_span(pr.span),
                       "prepare() does not look at `%s` when it decides whether a previous run must be disposed of: a run abandoned while it was suspended there "
                       "keeps its scope installed and its continuation waiting - `prepare('1 + 1')` after an abandoned `await new Promise(() => {})` reports Suspended" % slot)
    # R3b: once step() has rebuilt or stepped a VM, every error it returns goes through the disposal of the run
    ck.rule("R3b.step-error-exits", "step(): every Err exit that lies behind the reconstruction (from_saved_state) or the stepping of a VM passes abort/finalize", floor=1)
    closers3 = [t[4] for bi, t in st.calls() if (t[1].get("d") or "").endswith(("Interpreter::abort_active_execution", "Interpreter::finalize_active_execution"))
                and t[4] is not None and t[4] >= 0]
    live = [bi for bi, t in st.calls() if (t[1].get("d") or "").endswith(("BytecodeVM::from_saved_state", "BytecodeVM::step"))]
    ck.anchor(bool(live), "step() rebuilds / steps a VM")
    # a helper of step() that runs guest code itself (the set-up of a program runs the bodies of its dependencies) counts like the stepping of a VM
    VMRUN = ("BytecodeVM::step", "BytecodeVM::run", "Interpreter::run_vm_to_completion")
    runners = 0
    for bi, t in st.calls():
        d3 = t[1].get("d") or ""
        g3 = fx.fns.get(d3)
        if g3 is None or not d3.startswith("interpreter::Interpreter::") or d3.endswith(("::abort_active_execution", "::finalize_active_execution")):
            continue
        if bi not in live and runs_guest(fx, g3, VMRUN, 64, set()):
            live.append(bi)
            runners += 1
    ck.anchor(runners >= 1, "step() calls a helper that runs guest code (program set-up)")
    for bi, bl in enumerate(st.blocks):
        if bl["c"]:
            continue
        exits3 = [s for s in bl["s"] if s[0] == "a" and s[1][0] == 0 and not s[1][1] and s[2][0] == "agg" and isinstance(s[2][1], dict) and s[2][1].get("v") == "Err"]
        # the `?` form: the error is written to the return place by from_residual
        t3 = bl["t"]
        if t3[0] == "call" and (t3[1].get("u") or "").endswith("FromResidual::from_residual") and t3[3] and t3[3][0] == 0 and not t3[3][1]:
            exits3.append(("a", None, None, t3[6]))
        for s in exits3:
            if True:
                if not any(st.dominates(l, bi) and l != bi for l in live):
                    continue
                ok = any(st.dominates(c3, bi) for c3 in closers3)
                if not ok:
                    # the error of process_vm_result mapped through a closure that disposes of the run (`map_err(|e| { abort(); e })?`)
                    pass
                ck.instance("R3b.step-error-exits", "step: Err exit", F.short_span(s[3]), ok=ok)
                if not ok:
                    ck.finding("R3b.step-error-exits", "R3b.step-error-exits/step", F.short_span(s[3]),
                               "step() returns an error for a run it had already resumed without disposing of the run (abort_active_execution): the dead run's saved "
                               "environment, call stack and scope guards stay installed - call_depth() stays above 0 and the next program runs inside its scopes")
    ck.assume("the host does not call prepare() while another run is suspended on an order it still intends to resume")
    return ck.finish()
