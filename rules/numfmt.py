"""C15 R4-R6: number printing, the clauses that are visible in the shape of the printers.

R4 digits-from-the-number (T-ORIGIN): Rust's `{}` / `{:e}` of an f64 print the shortest digits that read back to that f64.  They do that
   for the value they are *given*: a printer that first computes `n / 10^k` (or re-parses a mantissa) and prints the quotient prints the
   digits of another double.  Every f64 handed to `Display`/`LowerExp` in the number printers is the number itself (a parameter, or what the
   receiver-unwrapping helper returned), never the result of float arithmetic, `powi`/`log10`, or `parse`.
R5 one-printer (who-may-format): the default number -> string conversion has one implementation (`value::number_to_string` and the helpers it
   calls).  A second plain `{}` of a script number elsewhere in the printers is a sibling that disagrees on the notation thresholds
   (`1e21`, `1e-7`).
R6 tie-rounding (who-may-format): Rust's `{:.N}` / `{:.Ne}` round an exact decimal tie to even, ECMAScript's toFixed / toPrecision /
   toExponential pick the larger candidate; every precision-formatting of a script number is a deviation on exact ties.
"""
import re

import facts as F
import mir as M
from c20 import leaves

DERIVING = re.compile(r"(^|::)(powi|powf|log10|log2|ln|exp|sqrt|parse|trunc|floor|ceil|round|fract|cbrt)(::<.*>)?$")


def fmt_sites(fx, scope):
    """[(fn, block, term, kind, has_precision_arg)] for f64 Display / LowerExp arguments"""
    out = []
    for p, f in sorted(fx.fns.items()):
        if not scope(f):
            continue
        prec_blocks = [bi for bi, t in f.calls() if (t[1].get("d") or "").endswith("rt::Argument::<'_>::from_usize")]
        for bi, t in f.calls():
            d = t[1].get("d") or ""
            if "fmt::rt::Argument" not in d or not d.endswith(("new_display", "new_lower_exp", "new_upper_exp")):
                continue
            if not any(fx.tys(x).lstrip("&") == "f64" for x in t[1].get("targs", [])):
                continue
            # the args array this Argument goes into: a from_usize argument built right after it (same array) is the `prec$`
            nxt = t[4]
            has_prec = False
            for _ in range(3):
                if nxt is None:
                    break
                tt = f.blocks[nxt]["t"]
                if tt[0] == "call" and (tt[1].get("d") or "").endswith("from_usize"):
                    has_prec = True
                    break
                if tt[0] == "call" and "fmt::rt::Argument" in (tt[1].get("d") or ""):
                    nxt = tt[4]
                    continue
                break
            if not has_prec:
                has_prec = bool(template_options(fx, f, bi, t))
            out.append((f, bi, t, d.split("::")[-1], has_prec))
    return out


PLAIN = [None]      # the byte `format_args!` uses for a placeholder without options, learnt from the fixture on every run


def learn_plain(ctl, plain_fn="c15::print::second_printer", fixed_fn="c15::print::fixed0"):
    """the template encoding is rustc's own: read the byte of a plain `{}` off a fixture function, and check that `{:.0}` differs"""
    def tmpl(p):
        g = ctl.fns.get(p)
        for bi, t in (g.calls() if g else []):
            if (t[1].get("d") or "").endswith("Arguments::<'a>::new"):
                return template_bytes(g, t)
        return None
    a, b = tmpl(plain_fn), tmpl(fixed_fn)
    if a and b and len(a) == 2 and a[1] == 0 and b[0] != a[0] and a[0] >= 0x80 and b[0] >= 0x80:
        PLAIN[0] = a[0]
    return PLAIN[0]


def template_bytes(f, t):
    a = t[2][0] if t[2] else None
    for _ in range(4):
        if a is None or a[0] == "k":
            break
        ds = f.defs().get(a[1][0], [])
        if len(ds) != 1 or ds[0][1] == "T":
            return None
        rv = ds[0][2]
        if rv[0] == "ref":
            a = ["c", [rv[2][0], []]]
        elif rv[0] == "use":
            a = rv[1]
        else:
            return None
    if a is not None and a[0] == "k" and isinstance(a[2], dict) and "bytes" in a[2]:
        return bytes.fromhex(a[2]["bytes"])
    return None


def placeholders(tb):
    """[True if the i-th placeholder carries formatting options] - literal runs are a length byte followed by the text"""
    out = []
    i = 0
    while i < len(tb):
        b = tb[i]
        if b == 0:
            break
        if b >= 0x80:
            if b == PLAIN[0]:
                out.append(False)
                i += 1
            else:
                out.append(True)
                # options follow in an encoding this parser does not know: everything after counts as optioned
                out += [True] * 8
                break
        else:
            i += 1 + b
    return out


def template_options(fx, f, bi, t):
    """does the placeholder this Argument is formatted through carry options (`{:.0}`, `{:>8}`, `{:+}` ...)?"""
    if PLAIN[0] is None:
        return False
    # ordinal of this Argument among the arguments of the same format_args!, and the Arguments::new that consumes them
    ordinal = 0
    b = bi
    seen = 0
    cur = t
    while seen < 12:
        nb = cur[4]
        if nb is None or nb < 0:
            return False
        tt = f.blocks[nb]["t"]
        if tt[0] != "call":
            return False
        d = tt[1].get("d") or ""
        if d.endswith("Arguments::<'a>::new"):
            tb = template_bytes(f, tt)
            if tb is None:
                return False
            ph = placeholders(tb)
            # arguments created before this one in the same array
            k = 0
            pb = None
            for b0, t0 in f.calls():
                if "fmt::rt::Argument" in (t0[1].get("d") or "") and t0[4] == (bi if pb is None else pb):
                    pass
            idx = args_before(f, bi)
            return idx < len(ph) and ph[idx]
        cur = tt
        seen += 1
    return False


def args_before(f, bi):
    """number of Argument::new_* calls chained immediately before block `bi` (same args array)"""
    n = 0
    cur = bi
    for _ in range(12):
        prev = [b0 for b0, t0 in f.calls() if t0[4] == cur and "fmt::rt::Argument" in (t0[1].get("d") or "")]
        if len(prev) != 1:
            break
        n += 1
        cur = prev[0]
    return n


def fmt_operand(f, op, depth=0):
    """the operand (place) whose value is formatted: through `&*x`, the `args` tuple of format_args! and copies of references"""
    if op[0] not in ("c", "m") or depth > 10:
        return op
    local, proj = op[1][0], op[1][1]
    tf = [e for e in proj if isinstance(e, list) and e[0] == "f" and e[3] == "tuple"]
    ds = f.defs().get(local, [])
    if len(ds) != 1 or ds[0][1] == "T":
        return op
    rv = ds[0][2]
    if tf and rv[0] == "agg" and rv[1].get("k") == "tuple" and tf[0][1] < len(rv[2]):
        return fmt_operand(f, rv[2][tf[0][1]], depth + 1)
    if rv[0] == "ref":
        pl = rv[2]
        if pl[1] == ["*"] or not pl[1] or any(isinstance(e, list) and e[0] == "f" and e[3] == "tuple" for e in pl[1]):
            nxt = fmt_operand(f, ["c", [pl[0], [e for e in pl[1] if e != "*"]]], depth + 1)
            return nxt
        return ["c", pl]
    if rv[0] == "use" and rv[1][0] in ("c", "m"):
        return fmt_operand(f, ["c", [rv[1][1][0], list(rv[1][1][1]) + [e for e in proj if e != "*"]]], depth + 1)
    return op


def operand_origin(f, t):
    """leaves of the f64 behind the `&x` handed to Argument::new_*"""
    return leaves(f, fmt_operand(f, t[2][0]))


def derived(lv):
    """description of the derivation if the value is computed rather than received, else None"""
    for x in lv:
        if x[0] == "bin" and x[1] in ("Div", "Mul", "Add", "Sub", "Rem"):
            return "the result of `%s`" % x[1]
        if x[0] == "call" and DERIVING.search(x[1] or ""):
            return "the result of `%s`" % x[1].split("::")[-1]
        if x[0] == "field" and x[1].startswith(("std::result", "std::option", "core::result", "core::option")):
            # payload of a call result (`parse().unwrap_or(..)`): look at the call
            continue
    return None


def derived_deep(f, t):
    """follow Option/Result payloads (unwrap_or, ?) one step further than leaves() does"""
    from c09 import ancestors
    a = fmt_operand(f, t[2][0])
    if a[0] not in ("c", "m"):
        return None
    for l in ancestors(f, a[1][0]):
        for bi, si, rv in f.defs().get(l, []):
            if si == "T" and DERIVING.search(rv[1].get("d") or ""):
                return "the result of `%s`" % (rv[1].get("d") or "").split("::")[-1]
            if si != "T" and rv[0] == "bin" and rv[1] in ("Div", "Mul", "Rem") and len(rv) > 4:
                return "the result of `%s`" % rv[1]
    return None


def rules(fx, ck, scope, printer_root="value::number_to_string", pre=""):
    ck.rule("R4.digits-from-the-number", "every f64 handed to Display/LowerExp in the number printers is the number itself, not a value computed from it", floor=4)
    ck.rule("R5.one-printer", "plain `{}` of a script number only inside value::number_to_string and its helpers", floor=1)
    ck.rule("R6b.finite-before-format", "a precision / exponent format of a script number is dominated by a finiteness test (Rust prints `inf` / `NaN`)", floor=2)
    ck.rule("R6.tie-rounding", "no precision formatting (`{:.N}`, `{:.Ne}`: ties to even) of a script number where ECMAScript picks the larger candidate", floor=0)
    cone = set()
    if printer_root in fx.fns:
        work = [printer_root]
        while work:
            p = work.pop()
            if p in cone:
                continue
            cone.add(p)
            for bi, t in fx.fns[p].calls():
                if t[1].get("local") and t[1].get("d") in fx.fns:
                    work.append(t[1]["d"])
    ck.anchor(bool(cone), pre + "function " + printer_root)
    sites = fmt_sites(fx, scope)
    ck.anchor(len(sites) >= 4, pre + "f64 Display/LowerExp sites in the number printers")
    for f, bi, t, kind, has_prec in sites:
        why = derived(operand_origin(f, t)) or derived_deep(f, t)
        ok = why is None
        ck.instance("R4.digits-from-the-number", "%s: %s of %s" % (f.path, kind, "the number" if ok else why), F.short_span(t[6]), ok=ok)
        if not ok:
            ck.finding("R4.digits-from-the-number", "R4.digits-from-the-number/%s/%s" % (f.path, why.split("`")[1]), F.short_span(t[6]),
                       "`%s` prints %s instead of the number: the shortest-digits guarantee of `{}`/`{:e}` then holds for another double "
                       "(`String(5e-324)` gives 'infe-324', `String(1.7976931348623157e308)` other digits)" % (f.path, why))
        if kind == "new_display" and not has_prec:
            top = f.parent if f.closure else f.path
            okp = top in cone or not ok   # a derived value is R4's business
            # not conversions of a script number to script-visible text: developer-facing Debug output, and the text of an error message
            if not okp and (" as std::fmt::Debug>::fmt" in top or flows_to_error(fx, f, t)):
                ck.instance("R5.one-printer", "%s: Display of an f64 in %s" % (f.path, "Debug output" if "Debug>" in top else "an error message"), F.short_span(t[6]), nontrivial=False)
                continue
            ck.instance("R5.one-printer", "%s: plain Display of an f64" % f.path, F.short_span(t[6]), ok=okp)
            if not okp:
                ck.finding("R5.one-printer", "R5.one-printer/%s" % top, F.short_span(t[6]),
                           "`%s` turns a number into its default string with Rust's `{}` instead of value::number_to_string: the two disagree "
                           "on the notation thresholds (`(1e21).toString()` gives '1000000000000000000000', `(1e-7).toString()` '0.0000001')" % top)
        if has_prec or kind != "new_display":
            # Rust prints non-finite doubles as `inf` / `NaN`: a precision / exponent format of a script number comes after a finiteness test
            top = f.parent if f.closure else f.path
            fin = [b2 for b2, t2 in f.calls() if (t2[1].get("d") or "").endswith(("f64>::is_finite", "f64>::is_nan", "f64>::is_infinite"))]
            okf = any(f.dominates(b2, bi) for b2 in fin) or top in cone
            ck.instance("R6b.finite-before-format", "%s: %s" % (f.path, kind), F.short_span(t[6]), ok=okf)
            if not okf:
                ck.finding("R6b.finite-before-format", "R6b.finite-before-format/%s" % top, F.short_span(t[6]),
                           "`%s` formats a number with a precision / exponent template without testing it for finiteness first: Rust spells the non-finite "
                           "doubles `inf` and `-inf` (`(Infinity).toFixed(2)` gives 'inf', the language says 'Infinity')" % top)
        if has_prec:
            top = f.parent if f.closure else f.path
            ck.instance("R6.tie-rounding", "%s: precision formatting" % f.path, F.short_span(t[6]), ok=False)
            ck.finding("R6.tie-rounding", "R6.tie-rounding/%s" % top, F.short_span(t[6]),
                       "`%s` rounds with Rust's precision formatting, which rounds an exact tie to even; ECMAScript picks the larger candidate: "
                       "`(2.5).toFixed(0)` gives '2' (spec: '3'), `(0.5).toFixed(0)` '0' (spec: '1'), `(2.5).toPrecision(1)` '2' (spec: '3')" % top)


def flows_to_error(fx, f, t):
    """the formatted text becomes the message of a JsError (the text of error messages is not specified)"""
    from c09 import ancestors
    for b2, t2 in f.calls():
        d2 = t2[1].get("d") or ""
        if "JsError::" in d2 or "error::JsError" in d2:
            for a in t2[2]:
                if a[0] in ("c", "m"):
                    for l in ancestors(f, a[1][0]):
                        for db, si, rv in f.defs().get(l, []):
                            if si == "T" and (rv[1].get("d") or "").endswith("fmt::format") and f.dominates(t[4] if t[4] is not None and t[4] >= 0 else 0, db):
                                return True
    return False


LIMITS = {"i64": 9.3e18, "u64": 1.9e19, "i32": 2.2e9, "u32": 4.3e9, "isize": 9.3e18, "usize": 1.9e19, "i128": 1.8e38, "u128": 3.5e38, "i16": 32768.0, "u16": 65536.0,
          "i8": 128.0, "u8": 256.0}


def cast_rule(fx, ck, scope, printer_root="value::number_to_string", number_sources=("get_number_value",), pre=""):
    """R4b: the printers do not squeeze the number through an integer type it may not fit.  `n as i64` saturates at 2^63: every integral
    double above that prints as i64::MAX.  A float->int cast of the number being printed needs a dominating comparison of the number with a
    constant inside the integer type's range."""
    from c09 import ancestors
    ck.rule("R4b.no-saturating-cast", "a float->int cast of the number being printed is behind a comparison with a constant inside the integer type's range",
            floor=0)
    cone = set()
    if printer_root in fx.fns:
        work = [printer_root]
        while work:
            p = work.pop()
            if p in cone:
                continue
            cone.add(p)
            for bi, t in fx.fns[p].calls():
                if t[1].get("local") and t[1].get("d") in fx.fns:
                    work.append(t[1]["d"])
    n = 0
    for p, f in sorted(fx.fns.items()):
        if not scope(f) or f.closure:
            continue
        # the printed number: an f64 parameter of a printer, or what the receiver-unwrapping helper returned
        nums = set()
        if p in cone:
            nums |= {i for i in range(1, f.argc + 1) if fx.tys(f.locals[i]) == "f64"}
        for bi, t in f.calls():
            if (t[1].get("d") or "").endswith(number_sources) and not t[3][1]:
                nums.add(t[3][0])
        if not nums:
            continue
        num_anc_cache = {}
        for bi, bl in enumerate(f.blocks):
            for s in bl["s"]:
                if not (s[0] == "a" and s[2][0] == "cast" and s[2][1] == "FloatToInt" and s[2][2][0] in ("c", "m")):
                    continue
                anc = ancestors(f, s[2][2][1][0])
                if not any(_derived_from_number(f, a, nums) for a in [s[2][2][1][0]]) and not (anc & nums):
                    continue
                if not (anc & _closure_of(f, nums)):
                    continue
                dst = fx.tys(f.locals[s[1][0]]) if not s[1][1] else "?"
                lim = LIMITS.get(dst)
                n += 1
                ok = False
                for sb, sbl in enumerate(f.blocks):
                    t = sbl["t"]
                    if t[0] != "switch" or t[1][0] not in ("c", "m") or not f.dominates(sb, bi) or sb == bi:
                        continue
                    d = M.trace_back(f, t[1][1][0])
                    if not (d and d[1] != "T" and d[2][0] == "bin" and d[2][1] in ("Lt", "Le", "Gt", "Ge")):
                        continue
                    for a, b in ((d[2][2], d[2][3]), (d[2][3], d[2][2])):
                        if b[0] == "k" and isinstance(b[2], dict) and "float" in b[2] and a[0] in ("c", "m"):
                            try:
                                c = abs(float(b[2]["float"]))
                            except ValueError:
                                continue
                            if lim is not None and c <= lim and (ancestors(f, a[1][0]) & _closure_of(f, nums)):
                                ok = True
                ck.instance("R4b.no-saturating-cast", "%s: the printed number as %s" % (p, dst), F.short_span(s[3]), ok=ok)
                if not ok:
                    ck.finding("R4b.no-saturating-cast", "R4b.no-saturating-cast/%s/%s" % (p, dst), F.short_span(s[3]),
                               "`%s` casts the number it prints to `%s` without a range test inside that type's range: the cast saturates, so every "
                               "integral double beyond it prints as the type's maximum (`String(1e19)` / `(1e20).toString(16)`)" % (p, dst))
    return n


def _closure_of(f, nums):
    """locals computed from the printed number (forward closure through statements and calls)"""
    out = set(nums)
    changed = True
    while changed:
        changed = False
        for bi, bl in enumerate(f.blocks):
            for s in bl["s"]:
                if s[0] == "a" and not s[1][1] and s[1][0] not in out and any(pl[0] in out for pl in F.rvalue_places(s[2])):
                    out.add(s[1][0])
                    changed = True
            t = bl["t"]
            if t[0] == "call" and not t[3][1] and t[3][0] not in out and any(a[0] in ("c", "m") and a[1][0] in out for a in t[2]):
                out.add(t[3][0])
                changed = True
    return out


def _derived_from_number(f, local, nums):
    return local in _closure_of(f, nums)


from c09 import ancestors as _anc


def cast_then_bitwise(fxx, scope):
    out = []
    for p, g in sorted(fxx.fns.items()):
        if g.derived or not scope(g):
            continue
        casts = {st[1][0] for bl in g.blocks for st in bl["s"] if st[0] == "a" and st[2][0] == "cast" and st[2][1] == "FloatToInt" and not st[1][1]}
        if not casts:
            continue
        for bl in g.blocks:
            for st in bl["s"]:
                if st[0] == "a" and st[2][0] == "bin" and st[2][1].replace("WithOverflow", "").replace("Unchecked", "") in ("Shl", "Shr", "BitAnd", "BitOr", "BitXor") \
                        and len(st[2]) > 4 and fxx.tys(st[2][4]) != "bool":
                    # the shifted / combined value (left operand for shifts, either for the others)
                    ops = [st[2][2]] if st[2][1].startswith("Sh") else [st[2][2], st[2][3]]
                    if any(o[0] in ("c", "m") and _anc(g, o[1][0]) & casts for o in ops):
                        out.append((g, st))
    return out


def to_string_rule(fx, ck, scope, printer_root="value::number_to_string", rule_id="R5.one-printer"):
    """R5 (second half): `n.to_string()` on an f64 is the same second printer as `format!("{}", n)`; anywhere in the compiler or the
    interpreter a script number that becomes text (a property name, a string value) goes through value::number_to_string."""
    cone = set()
    if printer_root in fx.fns:
        work = [printer_root]
        while work:
            p = work.pop()
            if p in cone:
                continue
            cone.add(p)
            for bi, t in fx.fns[p].calls():
                if t[1].get("local") and t[1].get("d") in fx.fns:
                    work.append(t[1]["d"])
    n = 0
    for p, f in sorted(fx.fns.items()):
        if f.derived or not scope(f):
            continue
        top = f.parent if f.closure else f.path
        for bi, t in f.calls():
            d = t[1].get("d") or ""
            u = t[1].get("u") or ""
            if not (u.endswith("ToString::to_string") or d.endswith("ToString>::to_string")):
                continue
            targs = [fx.tys(x) for x in t[1].get("targs", [])]
            a0 = fx.tys(f.locals[t[2][0][1][0]]) if t[2] and t[2][0][0] in ("c", "m") else "?"
            if "f64" not in targs and a0 not in ("&f64", "f64"):
                continue
            n += 1
            ok = top in cone
            ck.instance(rule_id, "%s: f64::to_string()" % f.path, F.short_span(t[6]), ok=ok)
            if not ok:
                ck.finding(rule_id, "%s/%s/to_string" % (rule_id, top), F.short_span(t[6]),
                           "`%s` turns a number into text with Rust's `to_string()` instead of value::number_to_string: from 1e21 and below 1e-6 the "
                           "two spell the number differently (`({ get 1e21() {..} })` defines a property named '1000000000000000000000')" % top)
    return n
