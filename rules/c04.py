"""C04 - TypeScript's run-time constructs behave as their JavaScript emit: structural clauses of the lowering.

Equivalence with the emit is a statement about values and is not decided.  The three lowerings (constructor
parameter properties, enums, namespaces) have parts whose correctness is visible in the shape of the compiler;
each rule is a necessary condition of the emit rules (breaking it changes behaviour for some declaration):

  PP1 modifier-set (T-SET): every place that decides "this parameter is a parameter property" uses the same
      predicate - an accessibility modifier OR `readonly` - and both pattern forms that can carry one (plain
      identifier, identifier with default) have it.
  PP2 stores-after-binding (T-DOM): `this.x = x` is emitted only after *all* parameters are bound and their
      defaults evaluated (tsc: `constructor(a, b = f()) { this.a = a; this.b = b; }`): no this-store is emitted
      inside the loop over the parameters, directly or through a helper.
  PP3 stores-before-fields: the this-stores precede the instance field initialisers.
  E1 forward mapping for every member (every cycle of the member loop emits the store).
  E2 reverse mapping is withheld only for string-valued initialisers: a syntactic "is a number literal" test
      rejects computed members (`A = 1 << 2`), which the emit maps back (`E[E.A = 1 << 2] = "A"`).
  E3 the enum binding is declared before the member initialisers are compiled (members refer to earlier ones).
  E5 repeated declarations merge: enum and namespace lowerings both look the existing binding up before
      creating the object (sibling agreement; tsc: `(function (E) {..})(E || (E = {}))`).
  E6 auto-increment agrees with the numeric belief (contradiction rule): the initialiser forms the function
      treats as numeric for the reverse mapping are the forms from which it advances the auto-increment
      counter - a form in one set and not the other (`A = -10, B`) restarts the numbering.
  N1 exportable declaration kinds: the namespace export step and the module export step handle the same
      kinds of declaration (function, class, variable, enum, namespace).

Not decided: the values themselves; live `export let` inside namespaces; const enums; abstract classes.
"""
import os

from common import Check
import facts as F
import mir as M
import loops as L
from c09 import ancestors, edge_dominates
from c20 import leaves

STRING_FORMS = {"Literal", "Template"}   # initialiser forms that can be string constants in an enum


def aggs(f, adt_suffix, variant=None):
    out = []
    for bi, bl in enumerate(f.blocks):
        for s in bl["s"]:
            if s[0] == "a" and s[2][0] == "agg" and s[2][1].get("k") == "adt" and s[2][1].get("p", "").endswith(adt_suffix) \
                    and (variant is None or s[2][1].get("v") == variant):
                out.append((bi, s))
    return out


def field_reads(f, adt_suffix, field):
    out = []
    for bi, kind, pl, sp in M.all_places(f):
        if kind in ("r", "b") and any(a.endswith(adt_suffix) and n == field for a, v, n in F.place_fields(pl)):
            out.append((bi, pl, sp))
    return out


def smallest_loop_with(f, blocks):
    best = None
    for hd, body in L.natural_loops(f):
        if set(blocks) <= body and (best is None or len(body) < len(best[1])):
            best = (hd, body)
    return best


def param_ty(fx, f, suffix):
    return any(suffix in fx.tys(f.locals[i]) for i in range(1, f.argc + 1))


def run(tier, fx=None, ck=None, control=False):
    own = ck is None
    if own:
        ck = Check("C04", tier, "dominance and loop-membership rules on the constructor compiler (parameter-property stores vs. the parameter loop "
                                "and the field initialisers), belief agreement over ast::Expression variants inside the enum lowering (reverse-mapping "
                                "gate vs. auto-increment counter), sibling agreement of the enum and namespace lowerings and of the two export steps",
                   ["that an enum / namespace / class evaluates to the same values as the tsc emit (values)",
                    "live `export let` bindings inside namespaces, const enums, abstract classes, decorators"])
        fx = F.load("A")
        ck.configs.append("A: cargo +nightly check --lib --features c-api")
    pre = "" if not control else "ctl:"
    root = "c04::" if control else "compiler::"
    comp = {p: f for p, f in fx.fns.items() if p.startswith(root) and not f.closure}

    # ------------------------------------------------------------ parameter properties
    ck.rule("PP1.modifier-set", "every parameter-property decision tests accessibility OR readonly; identifier and defaulted-identifier parameters both have it",
            floor=2)
    ck.rule("PP2.stores-after-binding", "no `this.x = x` store is emitted inside the loop that binds the parameters and evaluates their defaults", floor=1)
    ck.rule("PP3.stores-before-fields", "parameter-property stores are emitted before the instance field initialisers", floor=1)
    this_store_helpers = {p for p, f in comp.items() if aggs(f, "Op", "LoadThis") and aggs(f, "Op", "SetPropertyConst")}
    ctors = [f for p, f in sorted(comp.items()) if field_reads(f, "FunctionParam", "accessibility")]
    if ck.anchor(bool(ctors), pre + "constructor compiler (reads FunctionParam.accessibility)"):
        for f in ctors:
            acc = field_reads(f, "FunctionParam", "accessibility")
            ro = field_reads(f, "FunctionParam", "readonly")
            lp = smallest_loop_with(f, [b for b, _, _ in acc])
            if not ck.anchor(lp is not None, pre + "parameter loop in " + f.path):
                continue
            hd, body = lp
            # PP1: each accessibility test is followed (dominates) by a readonly test before the decision merges
            for b, pl, sp in acc:
                partner = [rb for rb, _, _ in ro if f.dominates(b, rb) and rb in body and
                           not any(ob != b and f.dominates(b, ob) and f.dominates(ob, rb) for ob, _, _ in acc)]
                ok = bool(partner)
                ck.instance("PP1.modifier-set", "%s: accessibility test paired with readonly" % f.path, F.short_span(sp), ok=ok)
                if not ok:
                    ck.finding("PP1.modifier-set", "PP1.modifier-set/%s/readonly-missing" % f.path, F.short_span(sp),
                               "`%s` decides that a parameter is a parameter property from its accessibility modifier alone: "
                               "`constructor(readonly x)` gets no `this.x = x`" % f.path)
            for rb, pl, sp in ro:
                if rb in body and not any(f.dominates(b, rb) for b, _, _ in acc):
                    ck.instance("PP1.modifier-set", "%s: readonly test paired with accessibility" % f.path, F.short_span(sp), ok=False)
                    ck.finding("PP1.modifier-set", "PP1.modifier-set/%s/accessibility-missing" % f.path, F.short_span(sp),
                               "`%s` tests `readonly` without the accessibility modifiers: `constructor(public x)` gets no `this.x = x`" % f.path)
            # both binding forms have the predicate
            for sw in M.enum_switches(fx, f):
                if not sw[1].endswith("Pattern") or sw[0] not in body:
                    continue
                if not ("Identifier" in sw[3] and "Assignment" in sw[3]):
                    continue
                # the predicate may be computed once per parameter before the match (`let is_param_property = ..`): an arm uses it
                # when it reads the modifier itself or branches on a value derived from that read
                from numfmt import _closure_of
                acc_seed = set()
                for b, pl, sp in acc:
                    for st in f.blocks[b]["s"]:
                        if st[0] == "a" and not st[1][1] and any(x[2] == "accessibility" for pl2 in F.rvalue_places(st[2]) for x in F.place_fields(pl2)):
                            acc_seed.add(st[1][0])
                acc_derived = _closure_of(f, acc_seed) if acc_seed else set()
                # `a.is_some() || b` assigns the result on the edges of the test: control dependence on the read counts too
                for b, pl, sp in acc:
                    for b2 in M.dominated_region(f, b):
                        for st in f.blocks[b2]["s"]:
                            if st[0] == "a" and not st[1][1] and fx.tys(f.locals[st[1][0]]) == "bool" and f.var_name(st[1][0]):
                                acc_derived.add(st[1][0])
                acc_derived = _closure_of(f, acc_derived) if acc_derived else acc_derived
                for var in ("Identifier", "Assignment"):
                    region = M.dominated_region(f, sw[3][var])
                    ok = any(b in region for b, _, _ in acc) or any(
                        f.blocks[b]["t"][0] == "switch" and f.blocks[b]["t"][1][0] in ("c", "m") and f.blocks[b]["t"][1][1][0] in acc_derived for b in region)
                    ck.instance("PP1.modifier-set", "%s / Pattern::%s parameters can be parameter properties" % (f.path, var), F.short_span(f.span), ok=ok)
                    if not ok:
                        ck.finding("PP1.modifier-set", "PP1.modifier-set/%s/%s" % (f.path, var), F.short_span(f.span),
                                   "`%s` never treats a `Pattern::%s` parameter as a parameter property (%s)" %
                                   (f.path, var, "`constructor(public x = 1)`" if var == "Assignment" else "`constructor(public x)`"))
            # PP2
            sites = [(bi, s[3], "direct") for bi, s in aggs(f, "Op", "SetPropertyConst")]
            def is_field_fn(d):
                g = fx.fns.get(d)
                return g is not None and any("ClassProperty" in fx.tys(g.locals[i]) or "ClassMethod" in fx.tys(g.locals[i]) for i in range(1, g.argc + 1))
            for bi, t in f.calls():
                d = t[1].get("d")
                if d in this_store_helpers and d != f.path and not is_field_fn(d):
                    sites.append((bi, t[6], d.split("::")[-1]))
            # the stores may sit in a closure of the constructor compiler (one block of initialisers emitted before the body or after `super(...)`)
            clos = [g for g in fx.fns.values() if g.closure and g.parent == f.path and aggs(g, "Op", "SetPropertyConst")]
            for bi, t in f.calls():
                d = t[1].get("d") or ""
                hit = d in {g.path for g in clos}
                if not hit and d.endswith(("::call", "::call_mut", "::call_once")) and t[2] and t[2][0][0] in ("c", "m"):
                    ty = fx.tys(f.locals[t[2][0][1][0]])
                    hit = any(("{closure@%s:" % g.span.split("-")[0]) in ty for g in clos)
                if hit:
                    sites.append((bi, t[6], "closure"))
            ck.anchor(bool(sites), pre + "this-store emission in " + f.path)
            for bi, sp, how in sites:
                ok = bi not in body
                ck.instance("PP2.stores-after-binding", "%s: this-store (%s)" % (f.path, how), F.short_span(sp), ok=ok)
                if not ok:
                    ck.finding("PP2.stores-after-binding", "PP2.stores-after-binding/%s/%s" % (f.path, how), F.short_span(sp),
                               "`%s` emits a parameter-property store inside the loop over the parameters: the default initialiser of a later "
                               "parameter runs after `this.x = x` of an earlier one and can observe it (`constructor(public a, b = this.a)`)" % f.path)
            # PP3
            fields = [(bi, t) for bi, t in f.calls() if t[1].get("local") and t[1].get("d") in fx.fns and
                      any("ClassProperty" in fx.tys(fx.fns[t[1]["d"]].locals[i]) for i in range(1, fx.fns[t[1]["d"]].argc + 1))]
            # inside such a closure the same order holds: the stores come before the field initialisers
            for g in clos:
                gstores = [bi for bi, s in aggs(g, "Op", "SetPropertyConst")]
                for cb, ct in [(bi, t) for bi, t in g.calls() if t[1].get("local") and t[1].get("d") in fx.fns and
                               any("ClassProperty" in fx.tys(fx.fns[t[1]["d"]].locals[i]) for i in range(1, fx.fns[t[1]["d"]].argc + 1))]:
                    late = [bi for bi in gstores if bi in g.reachable_from(cb)]
                    ck.instance("PP3.stores-before-fields", "%s: %s after the parameter-property stores" % (g.path, ct[1]["d"].split("::")[-1]), F.short_span(ct[6]), ok=not late)
                    if late:
                        ck.finding("PP3.stores-before-fields", "PP3.stores-before-fields/%s/%s" % (f.path, ct[1]["d"].split("::")[-1]), F.short_span(ct[6]),
                                   "`%s` compiles instance field initialisers before the parameter-property stores: `class C { y = this.x; "
                                   "constructor(public x) {} }` reads undefined" % f.path)
            for cb, ct in fields:
                late = [bi for bi, sp, how in sites if bi in f.reachable_from(cb)]
                ok = not late
                ck.instance("PP3.stores-before-fields", "%s: %s after the parameter-property stores" % (f.path, ct[1]["d"].split("::")[-1]),
                            F.short_span(ct[6]), ok=ok)
                if not ok:
                    ck.finding("PP3.stores-before-fields", "PP3.stores-before-fields/%s/%s" % (f.path, ct[1]["d"].split("::")[-1]), F.short_span(ct[6]),
                               "`%s` compiles instance field initialisers before the parameter-property stores: `class C { y = this.x; "
                               "constructor(public x) {} }` reads undefined" % f.path)

    # ------------------------------------------------------------ enums
    enum_rules(fx, ck, comp, pre)

    # ------------------------------------------------------------ E7 (shared with C15 R1b)
    ck.rule("E7.static-value-agrees", "what the enum lowering computes at compile time agrees with the operator it stands for: no integer shift / bitwise "
                                      "operation on a value cast from f64 in the lowering or its helpers", floor=1)
    from numfmt import cast_then_bitwise
    enum_cone = set()
    for p, f in comp.items():
        if param_ty(fx, f, "EnumDeclaration") and aggs(f, "Op", "CreateObject"):
            enum_cone.add(p)
            enum_cone |= {t[1]["d"] for bi, t in f.calls() if t[1].get("local") and t[1].get("d") in comp and "Expression" in
                          " ".join(fx.tys(comp[t[1]["d"]].locals[i]) for i in range(1, comp[t[1]["d"]].argc + 1))}
    hits = cast_then_bitwise(fx, lambda g: (g.parent if g.closure else g.path) in enum_cone)
    for p in sorted(enum_cone):
        bad = [st for g, st in hits if (g.parent if g.closure else g.path) == p]
        ck.instance("E7.static-value-agrees", p, F.short_span(comp[p].span), ok=not bad)
        for st in bad[:1]:
            ck.finding("E7.static-value-agrees", "E7.static-value-agrees/%s/%s" % (p, st[2][1].replace("WithOverflow", "")), F.short_span(st[3]),
                       "`%s` folds `%s` on an integer cast from the f64 literal: JavaScript shifts in 32 bits, so after `High = 1 << 31` (-2147483648 at run "
                       "time) the next member is numbered from 2147483649" % (p, st[2][1]))

    # ------------------------------------------------------------ N1
    ck.rule("N1.exportable-kinds", "the namespace export step and the module export step handle the same kinds of declaration", floor=1)
    ns_sets = {}
    mod_sets = {}
    for p, f in sorted(comp.items()):
        for sw in M.enum_switches(fx, f):
            if not sw[1].endswith("ast::Statement") and not sw[1].endswith("c04::Statement"):
                continue
            ns_arms, mod_arms = set(), set()
            for var, tgt in sw[3].items():
                region = M.dominated_region(f, tgt)
                helpers = [fx.fns[t[1]["d"]] for bi, t in f.calls() if bi in region and t[1].get("local") and t[1].get("d") in comp and t[1]["d"] != p]
                # an arm handles the kind when it emits the op itself or through a small emitter helper (not a general compile_* function)
                small = [h for h in helpers if not any(param_ty(fx, h, ty_) for ty_ in ("Statement", "Expression", "Declaration"))
                         or "export" in h.path.split("::")[-1]]
                if any(bi in region for bi, s in aggs(f, "Op", "SetPropertyConst")) or any(aggs(h, "Op", "SetPropertyConst") and not aggs(h, "Op", "ExportBinding")
                                                                                          for h in small):
                    ns_arms.add(var)
                if any(bi in region for bi, s in aggs(f, "Op", "ExportBinding")) or any(aggs(h, "Op", "ExportBinding") for h in small):
                    mod_arms.add(var)
            if len(ns_arms) >= 2 and not mod_arms:
                ns_sets[p] = ns_sets.get(p, set()) | ns_arms
            if len(mod_arms) >= 2:
                mod_sets[p] = mod_sets.get(p, set()) | mod_arms
    if ck.anchor(bool(ns_sets) and bool(mod_sets), pre + "namespace export step and module export step (matches on Statement)"):
        ref = set().union(*mod_sets.values())
        for p, a in sorted(ns_sets.items()):
            ok = a == ref
            ck.instance("N1.exportable-kinds", "%s handles %s" % (p, sorted(a)), F.short_span(fx.fns[p].span), ok=ok)
            if not ok:
                ck.finding("N1.exportable-kinds", "N1.exportable-kinds/%s/%s" % (p, "+".join(sorted(a ^ ref))), F.short_span(fx.fns[p].span),
                           "`%s` publishes exported %s on the namespace object but the module export step handles %s: `export %s` inside a "
                           "namespace is not visible as a member" % (p, sorted(a), sorted(ref), "/".join(sorted(ref - a)) or "?"))
    # ------------------------------------------------------------ N2
    # TypeScript's emit assigns each exported member right after its declaration (`N.a = 1; N.b = N.a + 1;`): an initialiser (or a function it
    # calls) may read the namespace object while the body is still running.  The publication step therefore sits in the loop that compiles the
    # body statements, not in a second pass after it.
    ck.rule("N2.publish-in-source-order", "a namespace member is published in the same turn of the body loop that compiles its declaration", floor=1)
    import loops as L

    def stmt_compile_blocks(g):
        return {bi for bi, t in g.calls() if t[1].get("local") and (t[1].get("d") or "").split("::")[-1] in ("compile_statement_impl", "compile_statement")}

    def innermost_loop(g, b):
        ls = [(h, body) for h, body in L.natural_loops(g) if b in body]
        return min(ls, key=lambda x: len(x[1])) if ls else None
    for p in sorted(ns_sets):
        f = fx.fns[p]
        sbs = [sw[0] for sw in M.enum_switches(fx, f) if (sw[1].endswith("ast::Statement") or sw[1].endswith("c04::Statement"))
               and any(v in ns_sets[p] for v in sw[3])]
        sites = []   # (function, block that publishes)
        for sb in sbs:
            if innermost_loop(f, sb):
                sites.append((f, sb))
            else:
                for q, g in comp.items():
                    for bi, t in g.calls():
                        if t[1].get("d") == p:
                            sites.append((g, bi))
        for g, b in sites:
            lp = innermost_loop(g, b)
            if lp is None:
                ck.note("N2: publication in %s is not inside a loop (not decided)" % g.path)
                continue
            ok = bool(stmt_compile_blocks(g) & lp[1])
            ck.instance("N2.publish-in-source-order", "%s publishes inside the body loop" % g.path, F.short_span(g.blocks[b]["t"][-1]) if isinstance(g.blocks[b]["t"][-1], str) else F.short_span(g.span), ok=ok)
            if not ok:
                ck.finding("N2.publish-in-source-order", "N2.publish-in-source-order/%s" % g.path, F.short_span(g.span),
                           "`%s` publishes the exported members in a loop that does not compile the statements: the namespace object stays empty while the body "
                           "runs, so `namespace C { export const a = 10; export const b = C.a * 2 }` gives NaN (TypeScript assigns `C.a` before `b` is initialised)" % g.path)
    # ------------------------------------------------------------ E8
    import ctororder
    ck.rule("E8.initialisers-follow-super", "a constructor compiler that compiles user statements emits the field / parameter-property initialisers inside the statement loop "
                                            "(after `super(...)`); one that emits the super call itself emits them only past it", floor=2 if own else 0)
    for f8, kind8, ok8, sp8, why8 in ctororder.rule(fx, (lambda g: g.file.startswith("src/compiler")) if own else (lambda g: g.path.startswith("c04::"))):
        ck.instance("E8.initialisers-follow-super", "%s (%s constructor)" % (f8.path, kind8), F.short_span(sp8), ok=ok8)
        if not ok8:
            ck.finding("E8.initialisers-follow-super", "E8.initialisers-follow-super/%s" % f8.path, F.short_span(sp8),
                       "`%s`: %s - in a derived class `y = this.x + 1` reads an uninitialised `this` (NaN) and `constructor(public x) { super() }` is overwritten by the base class" % (f8.path, why8))
    # ------------------------------------------------------------ E9
    import selfcmp
    ck.rule("E9.number-test-by-type", "no equality opcode emitted by the compiler compares a register with itself or with a unary opcode of itself "
                                      "(`+v === v` is false for NaN: a NaN-valued computed enum member would lose its reverse entry)", floor=5 if own else 0)
    for f9, sp9, v9, ok9, why9 in selfcmp.rule(fx, (lambda g: g.file.startswith("src/compiler")) if own else (lambda g: g.path.startswith("c04e9::"))):
        ck.instance("E9.number-test-by-type", "%s emits Op::%s" % (f9.path, v9), F.short_span(sp9), ok=ok9)
        if not ok9:
            ck.finding("E9.number-test-by-type", "E9.number-test-by-type/%s/%s" % (f9.path, v9), F.short_span(sp9),
                       "`%s` emits Op::%s that %s: such a test separates NaN from the other numbers, it is not a test for `number` "
                       "(`enum E { A = NaN }`: tsc emits `E[E[\"A\"] = NaN] = \"A\"`, so `E[NaN]` is \"A\")" % (f9.path, v9, why9))
    # ------------------------------------------------------------ PP4 the registers of deferred parameter-property stores stay reserved until the stores are emitted
    if own:
        ck.rule("PP4.deferred-store-registers-live", "a register recorded in a list that a deferred emitter (a closure called later) reads is not handed back to the "
                "allocator at a point from which that emitter can still run", floor=1)
        n4 = 0
        for p4, f4 in sorted(fx.fns.items()):
            if f4.derived or f4.closure or not f4.file.startswith("src/compiler"):
                continue
            vecs = [l for l in range(len(f4.locals)) if fx.tys(f4.locals[l]).startswith("std::vec::Vec<(") and "u8" in fx.tys(f4.locals[l])]
            if not vecs:
                continue
            # closures of this function that capture (a reference to) such a list
            emitters = {}
            for bl in f4.blocks:
                for s_ in bl["s"]:
                    if s_[0] == "a" and s_[2][0] == "agg" and isinstance(s_[2][1], dict) and s_[2][1].get("k") == "closure":
                        caps = set()
                        for cap in s_[2][2]:
                            if cap[0] in ("c", "m"):
                                caps |= ancestors(f4, cap[1][0]) & set(vecs)
                        if caps:
                            emitters[s_[2][1].get("p")] = caps
            if not emitters:
                continue
            runs = [(bi, t[1].get("d")) for bi, t in f4.calls() if t[1].get("d") in emitters]
            for bi, t in f4.calls():
                if not (t[1].get("d") or "").endswith("::free_register") or len(t[2]) < 2 or t[2][1][0] not in ("c", "m"):
                    continue
                src = ancestors(f4, t[2][1][1][0]) & set(vecs)
                if not src:
                    continue
                n4 += 1
                after = f4.reachable_from(bi)
                bad = [rb for rb, q in runs if rb in after and (emitters[q] & src)]
                ck.instance("PP4.deferred-store-registers-live", "%s: free_register of a register recorded in `%s`" % (p4, f4.var_name(sorted(src)[0]) or "list"),
                            F.short_span(t[6]), ok=not bad)
                if bad:
                    ck.finding("PP4.deferred-store-registers-live", "PP4.deferred-store-registers-live/%s" % p4, F.short_span(t[6]),
                               "`%s` frees a register that is recorded in `%s` while the closure that emits the recorded stores can still run: the allocator hands the "
                               "register to the `super(...)` call compiled in between, and `constructor(public x = 5) { super() }` stores the wrong value in `this.x`"
                               % (p4, f4.var_name(sorted(src)[0]) or "a list"))
        for p4, f4 in fx.fns.items():
            if not f4.derived and not f4.closure and p4.endswith("compile_constructor_body"):
                ck.instance("PP4.deferred-store-registers-live", "%s examined (%d frees of recorded registers outside the emitter)" % (p4, n4), F.short_span(f4.span), nontrivial=False)
    if not own:
        return None
    ctl = F.load_fixture()
    ck2 = Check("C04", tier, "", [])
    run(tier, ctl, ck2, control=True)
    got = {f[0] for f in ck2.findings}
    need = {"PP1.modifier-set", "PP2.stores-after-binding", "PP3.stores-before-fields", "E1.forward-every-member", "E2.reverse-gate",
            "E3.binding-first", "E5.merge", "E6.auto-increment", "E7.static-value-agrees", "N1.exportable-kinds", "E9.number-test-by-type"}
    if not need <= got:
        ck.closed_fail.append("control failed: the fixture lowering must be reported by %s, got %s" % (sorted(need), sorted(got)))
    ck.note("positive control (fixture c04) reported by: %s" % sorted(got))
    return ck.finish()


def enum_rules(fx, ck, comp, pre):
    ck.rule("E1.forward-every-member", "every cycle of the member loop emits the forward mapping", floor=1)
    ck.rule("E2.reverse-gate", "the reverse mapping is withheld only for string-valued initialiser forms", floor=1)
    ck.rule("E3.binding-first", "the enum binding is declared before member initialisers are compiled", floor=1)
    ck.rule("E5.merge", "enum and namespace lowerings look the existing binding up before creating the object", floor=2)
    ck.rule("E6.auto-increment", "the initialiser forms treated as numeric are the forms that advance the auto-increment counter", floor=1)
    def creators(decl_ty):
        """functions that emit the CreateObject of a declaration kind: the lowering itself, or a helper it calls for that"""
        out = []
        for p, f in sorted(comp.items()):
            if not param_ty(fx, f, decl_ty):
                continue
            if aggs(f, "Op", "CreateObject"):
                out.append(f)
                continue
            for bi, t in f.calls():
                g = comp.get(t[1].get("d")) if t[1].get("local") else None
                if g is not None and aggs(g, "Op", "CreateObject") and not param_ty(fx, g, "Expression") and g not in out:
                    out.append(g)
        return out
    enum_fns = [f for f in creators("EnumDeclaration") if param_ty(fx, f, "EnumDeclaration")]
    enum_creators = creators("EnumDeclaration")
    ns_fns = creators("NamespaceDeclaration")
    ck.anchor(bool(enum_fns), pre + "enum lowering (takes &EnumDeclaration, emits CreateObject)")
    ck.anchor(bool(ns_fns), pre + "namespace lowering (takes &NamespaceDeclaration, emits CreateObject)")
    # E5
    for f in enum_creators + ns_fns:
        creates = aggs(f, "Op", "CreateObject")
        looks = aggs(f, "Op", "TryGetVar") + aggs(f, "Op", "GetVar")
        ok = all(any(f.dominates(lb, cb) for lb, _ in looks) for cb, _ in creates)
        kind = "enum" if f in enum_creators else "namespace"
        ck.instance("E5.merge", "%s (%s) looks up the existing binding first" % (f.path, kind), F.short_span(f.span), ok=ok)
        if not ok:
            ck.finding("E5.merge", "E5.merge/%s" % f.path, F.short_span(f.span),
                       "`%s` always creates a fresh object for a%s `%s` declaration: a repeated declaration replaces the earlier members "
                       "instead of adding to them (`%s`)" % (f.path, "n" if kind == "enum" else "", kind,
                                                             "enum E { A } enum E { B = 5 }; E.A" if kind == "enum" else "namespace N { export const a = 1 } namespace N { export const b = 2 }; N.a"))
    for f in enum_fns:
        fwd = aggs(f, "Op", "SetPropertyConst")
        rev = aggs(f, "Op", "SetProperty")
        if not ck.anchor(bool(fwd), pre + "forward mapping store in " + f.path):
            continue
        lp = smallest_loop_with(f, [fwd[0][0]])
        if not ck.anchor(lp is not None, pre + "member loop in " + f.path):
            continue
        hd, body = lp
        # E1
        reach = f.reachable_from(hd, stop={b for b, _ in fwd})
        ok = hd not in reach
        ck.instance("E1.forward-every-member", "%s: forward mapping on every iteration" % f.path, F.short_span(fwd[0][1][3]), ok=ok)
        if not ok:
            ck.finding("E1.forward-every-member", "E1.forward-every-member/%s" % f.path, F.short_span(fwd[0][1][3]),
                       "`%s` has a path through the member loop that emits no `E.Name = value` store" % f.path)
        # E3
        decl = aggs(f, "Op", "DeclareVar")
        ok = any(f.dominates(db, hd) for db, _ in decl)
        ck.instance("E3.binding-first", "%s declares the enum binding before the member loop" % f.path, F.short_span(f.span), ok=ok)
        if not ok:
            ck.finding("E3.binding-first", "E3.binding-first/%s" % f.path, F.short_span(f.span),
                       "`%s` declares the enum's binding after compiling the members: `enum E { A = 1, B = E.A + 1 }` cannot see E" % f.path)
        # switches on the member's initialiser inside the loop: the Option test and the matches on its Expression
        variants = None
        for ap, adt in fx.adts.items():
            if ap.endswith("ast::Expression") or ap == "c04::Expression":
                variants = [v["name"] for v in adt["variants"]]
        if not variants:
            ck.anchor(False, pre + "ADT ast::Expression")
            continue

        def top_level(local, depth=0):
            """the local refers to the member's initialiser itself (not to a sub-expression of it)"""
            if depth > 12:
                return False
            for bi, si, rv in f.defs().get(local, []):
                if si == "T":
                    if (rv[1].get("u") or "").endswith(("Deref::deref", "AsRef::as_ref", "Option::<T>::as_ref", "Clone::clone")) and rv[2] and rv[2][0][0] in ("c", "m"):
                        if top_level(rv[2][0][1][0], depth + 1):
                            return True
                    continue
                pls = F.rvalue_places(rv)
                for pl in pls:
                    fl = F.place_fields(pl)
                    if any(a.endswith("EnumMember") and n == "initializer" for a, v, n in fl):
                        return not any(a.endswith("Expression") and not a.endswith("ast::Expression") for a, v, n in fl)
                    if any((a.endswith("Expression") and not a.endswith("::Expression")) or a.endswith("Literal") for a, v, n in fl):
                        continue
                    if top_level(pl[0], depth + 1):
                        return True
            return False

        sws = []
        for sw in M.enum_switches(fx, f):
            if sw[0] not in body:
                continue
            is_expr = sw[1].endswith("ast::Expression") or sw[1].endswith("c04::Expression")
            is_opt = sw[1].endswith("option::Option")
            if not (is_expr or is_opt):
                continue
            pl = sw[2]
            fl = F.place_fields(pl)
            direct = any(a.endswith("EnumMember") and n == "initializer" for a, v, n in fl)
            if direct or top_level(pl[0]):
                sws.append(sw + (is_opt,))
        sw_blocks = {sw[0] for sw in sws}
        if os.environ.get("C04_DEBUG"): print("SWS", [(sw[0], sw[1], sw[-1]) for sw in sws])
        domain = ["None"] + variants

        def arm_reach(sw, v):
            if sw[-1]:      # Option switch
                tgt = sw[3].get("None", sw[4]) if v == "None" else sw[3].get("Some", sw[4])
            else:
                if v == "None":
                    return set()
                tgt = sw[3].get(v, sw[4])
            if tgt is None:
                return set()
            # path-sensitive in the boolean temporaries of `matches!` / `&&` / `||`: a block that sets `_t = false` and then
            # switches on `_t` continues on the false edge only
            seen = set()
            out = set()
            work = [(tgt, ())]
            while work:
                b, env = work.pop()
                if (b, env) in seen or b == hd or b not in body or len(seen) > 4000:
                    continue
                seen.add((b, env))
                out.add(b)
                if b in sw_blocks and b != sw[0]:
                    continue
                e = dict(env)
                for st in f.blocks[b]["s"]:
                    if st[0] == "a" and not st[1][1]:
                        l = st[1][0]
                        if st[2][0] == "use" and st[2][1][0] == "k" and fx.tys(f.locals[l]) == "bool":
                            e[l] = M.const_int(st[2][1])
                        elif st[2][0] == "use" and st[2][1][0] in ("c", "m") and not st[2][1][1][1] and st[2][1][1][0] in e:
                            e[l] = e[st[2][1][1][0]]
                        else:
                            e.pop(l, None)
                t = f.blocks[b]["t"]
                if t[0] == "call" and not t[3][1]:
                    e.pop(t[3][0], None)
                env2 = tuple(sorted(e.items()))
                if t[0] == "switch" and t[1][0] in ("c", "m") and not t[1][1][1] and t[1][1][0] in e:
                    val = str(e[t[1][1][0]])
                    tg = [tb for v_, tb in t[2] if v_ == val]
                    work.append(((tg[0] if tg else t[3]), env2))
                else:
                    for nb in f.succ(b):
                        work.append((nb, env2))
            return out

        # E2: the gate of the reverse mapping
        if rev:
            rb = rev[0][0]
            gate = None   # bool switch whose true edge dominates the reverse store
            for bi in body:
                t = f.blocks[bi]["t"]
                if t[0] == "switch" and t[1][0] in ("c", "m") and fx.tys(f.locals[t[1][1][0]]) == "bool":
                    zero = [tb for v_, tb in t[2] if v_ == "0"]
                    pol = 1 if edge_dominates(f, t[3], rb) else (0 if zero and edge_dominates(f, zero[0], rb) else None)
                    if pol is None:
                        continue
                    # drop flags (bools initialised at function entry by drop elaboration) are not decisions of the source
                    if any(db == 0 for db, si, rv in f.defs().get(t[1][1][0], [])):
                        continue
                    if gate is None or f.dominates(bi, gate[0]):
                        gate = (bi, t[1][1][0], pol)
            numeric = set()
            if gate is not None:
                gl = gate[1]
                ganc = ancestors(f, gl)

                def true_assigned(blocks):
                    for b in blocks:
                        for s in f.blocks[b]["s"]:
                            if s[0] == "a" and not s[1][1] and s[1][0] in ganc and s[2][0] == "use" and s[2][1][0] == "k" and M.const_int(s[2][1]) == gate[2]:
                                return True
                    return False
                for v in domain:
                    if any(true_assigned(arm_reach(sw, v)) for sw in sws):
                        numeric.add(v)
                if os.environ.get("C04_DEBUG"):
                    print("GATE", gate, sorted(ganc))
                    for sw in sws:
                        print("  sw", sw[0], sorted(arm_reach(sw, "Binary")))
                rejected = [v for v in variants if v not in numeric and v not in STRING_FORMS]
                # no syntactic gate at all (a run-time test): nothing is rejected by form
                if not sws:
                    rejected = []
                # the form test may live in a predicate helper handed to an Option adapter: `!init.is_some_and(Self::enum_string_initializer)`.
                # A predicate that is true for string forms only withholds the reverse mapping from string members only.
                preds = []
                for bi in body:
                    t = f.blocks[bi]["t"]
                    if t[0] != "call" or t[3][1] or t[3][0] not in ganc:
                        continue
                    d = t[1].get("d") or ""
                    cands = []
                    if d.endswith(("Option::<T>::is_some_and", "Option::<T>::is_none_or", "Option::<T>::map_or")):
                        for a in t[2][1:]:
                            fn = M.const_fn(a)
                            if fn and fn in fx.fns:
                                cands.append(fx.fns[fn])
                            elif a[0] in ("c", "m"):
                                ty = fx.tys(f.locals[a[1][0]])
                                cands += [g for g in fx.fns.values() if g.closure and g.parent == f.path and ("{closure@%s:" % g.span.split("-")[0]) in ty]
                    elif t[1].get("local") and d in fx.fns and fx.tys(fx.fns[d].sig[-1]) == "bool" and any("Expression" in fx.tys(x) for x in fx.fns[d].sig[:-1]):
                        cands.append(fx.fns[d])
                    preds += cands
                if rejected and preds:
                    true_forms = set()
                    for g in preds:
                        for sw in M.enum_switches(fx, g):
                            if not (sw[1].endswith("ast::Expression") or sw[1].endswith("c04::Expression")):
                                continue
                            for v, tgt in list(sw[3].items()) + ([("*", sw[4])] if sw[4] is not None else []):
                                reach = M.reach_bool_sensitive(fx, g, [tgt])
                                if any(st[0] == "a" and st[1][0] == 0 and not st[1][1] and st[2][0] == "use" and st[2][1][0] == "k" and M.const_int(st[2][1]) == 1
                                       for b in reach for st in g.blocks[b]["s"]):
                                    true_forms.add(v)
                    if true_forms and true_forms <= set(STRING_FORMS):
                        rejected = []
                        numeric = set(variants) - set(STRING_FORMS)
                ok = not rejected
                ck.instance("E2.reverse-gate", "%s: reverse mapping for forms %s" % (f.path, sorted(numeric) or "decided at run time"),
                            F.short_span(rev[0][1][3]), ok=ok)
                if not ok:
                    ck.finding("E2.reverse-gate", "E2.reverse-gate/%s" % f.path, F.short_span(rev[0][1][3]),
                               "`%s` emits the reverse mapping only for initialisers of the forms %s; a computed member (forms %s ...) gets none: "
                               "`enum F { A = 1 << 2 }; F[4]` is undefined, the emit gives \"A\"" % (f.path, sorted(numeric), sorted(rejected)[:4]))
            else:
                ck.instance("E2.reverse-gate", "%s: reverse mapping emitted unconditionally or behind a run-time test" % f.path, F.short_span(rev[0][1][3]))
        else:
            ck.instance("E2.reverse-gate", "%s: reverse mapping" % f.path, F.short_span(f.span), ok=False)
            ck.finding("E2.reverse-gate", "E2.reverse-gate/%s/none" % f.path, F.short_span(f.span), "`%s` emits no reverse mapping at all" % f.path)
            numeric = set()
        # E6: the counter and every write of it
        add_locals = {s_[1][0] for bl in f.blocks for s_ in bl["s"] if s_[0] == "a" and not s_[1][1] and s_[2][0] == "bin" and
                      s_[2][1].startswith("Add") and (M.const_int(s_[2][3]) == 1 if s_[2][3][0] == "k" else False)}
        fadd = {s_[1][0] for bl in f.blocks for s_ in bl["s"] if s_[0] == "a" and not s_[1][1] and s_[2][0] == "bin" and s_[2][1].startswith("Add")
                and s_[2][3][0] == "k" and isinstance(s_[2][3][2], dict) and s_[2][3][2].get("float") in ("1", "1.0", 1.0)}
        counters = set()
        wb2 = set()
        for bi in body:
            for s_ in f.blocks[bi]["s"]:
                if s_[0] == "a" and not s_[1][1] and f.var_name(s_[1][0]) and s_[2][0] in ("use", "agg"):
                    srcs = set()
                    for pl in F.rvalue_places(s_[2]):
                        srcs |= ancestors(f, pl[0])
                    if srcs & (add_locals | fadd):
                        counters.add(s_[1][0])
            t_ = f.blocks[bi]["t"]
            if t_[0] == "call" and not t_[3][1] and f.var_name(t_[3][0]) and (t_[1].get("d") or "").endswith(("::map", "::and_then")):
                # `counter = literal(init).map(|n| n + 1.0)`: the closure adds one
                for a in t_[2]:
                    if a[0] in ("c", "m") and "closure" in fx.tys(f.locals[a[1][0]]):
                        counters.add(t_[3][0])
        for bi in body:
            for s_ in f.blocks[bi]["s"]:
                if s_[0] == "a" and not s_[1][1] and s_[1][0] in counters:
                    wb2.add(bi)
            t_ = f.blocks[bi]["t"]
            if t_[0] == "call" and not t_[3][1] and t_[3][0] in counters:
                wb2.add(bi)
        counted = set()
        if ck.anchor(bool(counters), pre + "auto-increment counter in " + f.path):
            forms = sorted(numeric) if numeric else domain
            for v in forms:
                if any(arm_reach(sw, v) & wb2 for sw in sws):
                    counted.add(v)
            stale = [v for v in forms if v not in counted]
            ok = not stale
            ck.instance("E6.auto-increment", "%s: forms treated as numeric %s; counter written for %s" % (f.path, forms[:6], sorted(counted)[:6]),
                        F.short_span(f.span), ok=ok)
            if not ok:
                ck.finding("E6.auto-increment", "E6.auto-increment/%s/%s" % (f.path, "+".join(stale[:4])), F.short_span(f.span),
                           "`%s` treats initialisers of the forms %s as numeric (they get a reverse mapping) but leaves the auto-increment counter "
                           "untouched after a member of form %s: the next member is numbered from the stale counter (`enum G { A = -10, B }` gives "
                           "B = 0, the emit gives -9)" % (f.path, forms[:8], stale[:4]))
