"""C08 R9: a countdown shared by the handlers of a combinator starts at the number of handlers that will count it down.

`Promise.all` builds one shared state with a `Cell<usize>` and attaches a fulfil handler - holding a clone of the `Rc` - to each input
that is still pending; each handler decrements the cell and the one that reaches zero settles the result.  The initial value must be
the number of handlers attached: the `len()` of the very collection the attach loop iterates, or a counter that is incremented exactly
where that collection is pushed to.  Sized by anything else (all inputs, the result slots), the countdown never reaches zero when some
inputs were settled already, and the combined promise never settles.
"""
import facts as F
import mir as M
import loops as L
from c09 import ancestors
from slotindex import root_collection


def straight(f, a, b, limit=12):
    """block b is reached from block a through blocks with one (non-unwind) successor"""
    x = a
    for _ in range(limit):
        if x == b:
            return True
        sc = f.succ(x)
        if len(sc) != 1:
            return False
        x = sc[0]
    return x == b


def sites(fx, scope):
    """[(fn, span, ok, why)] one per countdown"""
    out = []
    for p, f in sorted(fx.fns.items()):
        if f.derived or f.closure or not scope(f):
            continue
        cells = {}
        for bi, t in f.calls():
            d = t[1].get("d") or ""
            targs = [fx.tys(x) for x in t[1].get("targs", [])]
            if d.endswith("Cell::<T>::new") and targs and targs[0] in ("usize", "u32", "u64") and not t[3][1] and t[2] and t[2][0][0] in ("c", "m"):
                cells[t[3][0]] = (bi, t)
        if not cells:
            continue
        loops = L.natural_loops(f)
        for bi, bl in enumerate(f.blocks):
            for s in bl["s"]:
                if not (s[0] == "a" and s[2][0] == "agg" and isinstance(s[2][1], dict) and s[2][1].get("k") == "adt" and not s[1][1]):
                    continue
                cd = [(o, cells[o[1][0]]) for o in s[2][2] if o[0] in ("c", "m") and not o[1][1] and o[1][0] in cells]
                if not cd:
                    continue
                state = s[1][0]
                # Rc::new(state) -> rc ; loops cloning the rc
                rcs = {t[3][0] for b2, t in f.calls() if (t[1].get("d") or "").endswith("Rc::<T>::new") and t[2] and t[2][0][0] in ("c", "m") and t[2][0][1][0] == state}
                if not rcs:
                    continue
                attach = []
                for hd, body in loops:
                    for b2, t in f.calls():
                        if b2 in body and (t[1].get("d") or "").endswith("Rc<T, A> as std::clone::Clone>::clone") and t[2] and t[2][0][0] in ("c", "m") \
                                and ancestors(f, t[2][0][1][0]) & rcs:
                            attach.append((hd, body))
                            break
                if not attach:
                    continue
                hd, body = min(attach, key=lambda x: len(x[1]))
                # the collection the loop ranges over
                colls = set()
                for b2, t in f.calls():
                    if b2 in body and (t[1].get("u") or "").endswith("Iterator::next") and t[2] and t[2][0][0] in ("c", "m"):
                        r = root_collection(f, t[2][0][1][0])
                        if r is not None:
                            colls.add(r)
                for o, (cb, ct) in cd:
                    x = ct[2][0][1][0]
                    anc = ancestors(f, x)
                    ok, why = False, "its initial value is not derived from the collection the attach loop iterates"
                    # (A) len() of the iterated collection
                    for b2, t in f.calls():
                        if (t[1].get("d") or "").endswith("::len") and not t[3][1] and t[3][0] in anc and t[2] and t[2][0][0] in ("c", "m"):
                            r = root_collection(f, t[2][0][1][0])
                            if r in colls:
                                ok, why = True, "len() of the iterated collection"
                            else:
                                why = "its initial value is the len() of another collection (%s) than the one the attach loop iterates (%s)" % (
                                    f.var_name(r) or "_%s" % r, ", ".join(sorted(f.var_name(c) or "_%s" % c for c in colls)))
                    # (B) a counter incremented where the collection is pushed to
                    if not ok:
                        incs = []
                        for b2, bl2 in enumerate(f.blocks):
                            t2 = bl2["t"]
                            if t2[0] == "assert" and str(t2[1]).startswith("Overflow:Add"):
                                for s2 in bl2["s"]:
                                    if s2[0] == "a" and s2[2][0] == "bin" and s2[2][1].startswith("Add") and s2[2][2][0] in ("c", "m") and s2[2][2][1][0] in anc \
                                            and M.const_int(s2[2][3]) == 1:
                                        incs.append(b2)
                        pushes = [b2 for b2, t in f.calls() if (t[1].get("d") or "").endswith("Vec::<T, A>::push") and t[2] and t[2][0][0] in ("c", "m")
                                  and root_collection(f, t[2][0][1][0]) in colls]
                        if incs and pushes and all(any(straight(f, i, q) or straight(f, q, i) for q in pushes) for i in incs) \
                                and all(any(straight(f, i, q) or straight(f, q, i) for i in incs) for q in pushes):
                            ok, why = True, "counter incremented with every push onto the iterated collection"
                        elif incs:
                            why = "its counter is not incremented exactly where the iterated collection is pushed to"
                    out.append((f, ct[6], ok, why))
    return out
