"""C07 - suspending and resuming is transparent: the state-capture clause.

Decided (field-level taint through BytecodeVM::save_state / from_saved_state and their closures):
  R1 capture: every field of the running VM (BytecodeVM) and of every trampoline frame flows into
     a field of the saved state, unless it is a cache or is re-derived (reasoned table);
  R2 restore: every field of the rebuilt VM / frames is data dependent on the saved state, unless
     exempt for the same reason;
  R3 re-derived guards: since `register_guard` is rebuilt rather than captured, the restore
     function re-guards what it puts back (calls Guard::guard).
Not decided: host schedules, settlement order, Promise.race/any semantics, and whether the
interpreter-side current environment matches the resumed context (Interpreter.env is owned by the
interpreter, not the VM).
"""
from common import Check
import facts as F
import mir as M
import capture as C

VM = "interpreter::bytecode_vm::BytecodeVM"
TF = "interpreter::bytecode_vm::TrampolineFrame"
SV = "interpreter::bytecode_vm::SavedVmState"
STF = "interpreter::bytecode_vm::SavedTrampolineFrame"

EXEMPT = {
    (VM, "register_pool"): "cache of spare register vectors",
    (VM, "arguments_pool"): "cache of spare argument vectors",
    (VM, "register_guard"): "re-derived on restore (R3 checks the re-guarding)",
    (TF, "register_guard"): "re-derived on restore",
    (VM, "exception_value"): "None at every suspension point: GetException is the first op of a catch block, no await can precede it",
    (TF, "exception_value"): "same",
    (VM, "current_constructor"): "await cannot occur in the frame of a constructor body (constructors are not async); frames capture theirs",
    (VM, "trampoline_stack"): "captured as SavedVmState.trampoline_stack",
}


# declared types of the exempt fields: a private field that was merely renamed keeps its exemption (the
# old name is gone from the struct and exactly one field of that type has no entry of its own)
EXEMPT_TYPES = {
    (VM, "register_pool"): "std::vec::Vec<std::vec::Vec<value::JsValue>>",
    (VM, "arguments_pool"): "std::vec::Vec<std::vec::Vec<value::JsValue>>",
    (VM, "register_guard"): "gc::Guard<value::JsObject>",
    (TF, "register_guard"): "gc::Guard<value::JsObject>",
    (VM, "exception_value"): "std::option::Option<value::Guarded>",
    (TF, "exception_value"): "std::option::Option<value::Guarded>",
    (VM, "current_constructor"): "std::option::Option<gc::Gc<value::JsObject>>",
    (VM, "trampoline_stack"): "std::vec::Vec<interpreter::bytecode_vm::TrampolineFrame>",
}


def rename_tolerant(fx, ck):
    """extend EXEMPT for renamed fields; returns the table to use"""
    table = dict(EXEMPT)
    for adt in (VM, TF):
        a = fx.adts.get(adt)
        if a is None:
            continue
        flds = {fd["name"]: fx.tys(fd["ty"]) for fd in a["variants"][0]["fields"]}
        gone = [(k, why) for k, why in EXEMPT.items() if k[0] == adt and k[1] not in flds]
        for (k, why) in gone:
            want = EXEMPT_TYPES.get(k)
            cands = [n for n, ty in flds.items() if ty == want and (adt, n) not in EXEMPT and (adt, n) not in table]
            same_gone = [g for g, _ in gone if EXEMPT_TYPES.get(g) == want]
            if want and len(cands) == len(same_gone) and cands:
                for n in cands:
                    table[(adt, n)] = why + " (field renamed: an entry `%s` of the same type left the struct)" % k[1]
                    ck.note("exemption of %s.%s carried over to the renamed field %s" % (adt.split("::")[-1], k[1], n))
    return table


def builders_of(fx, root, adts, depth=2):
    """the function, its closures, and local helpers (to `depth` call levels) that construct one of `adts`:
    extracting the frame conversion into a named function must not hide it from the analysis"""
    out = list(fx.body_group(root))
    seen = {g.path for g in out}
    frontier = list(out)
    for _ in range(depth):
        nxt = []
        for g in frontier:
            for bi, t in g.calls():
                d = t[1].get("d")
                h = fx.fns.get(d) if d else None
                if h is None or h.path in seen or not t[1].get("local"):
                    continue
                grp = fx.body_group(h)
                if any(True for x in grp for _ in C.aggregates(fx, x, adts[0])) or any(True for x in grp for _ in C.aggregates(fx, x, adts[1])):
                    for x in grp:
                        if x.path not in seen:
                            seen.add(x.path)
                            out.append(x)
                            nxt.append(x)
        frontier = nxt
    return out


def rerooting_rule(fx, ck, name):
    """capture and restore apply the same re-rooting transformations (shared by C07 and C02)"""
    ss = fx.one("BytecodeVM::save_state")
    fs = fx.one("BytecodeVM::from_saved_state")
    # A value that save_state passes through a function taking a `&Guard` (PendingCompletion::duplicate: the copy
    # carries no guard of its own, the guard of the saved state roots it) loses its root when the saved state is
    # consumed; from_saved_state must pass it through the same function again, with the new VM's guard.
    ck.rule(name, "every re-rooting function (takes a &Guard, other than Guard's own methods) that save_state applies is applied by from_saved_state at least as often", floor=1)

    def rerooting_calls(root, adts):
        out = {}
        for g in builders_of(fx, root, adts):
            for bi, t in g.calls():
                d = t[1].get("d", "")
                h = fx.fns.get(d)
                if h is None or d.startswith("gc::"):
                    continue
                if any("gc::Guard<" in fx.tys(h.locals[k]) for k in range(1, h.argc + 1)):
                    out[d] = out.get(d, 0) + 1
        return out
    cap_calls = rerooting_calls(ss, (SV, STF))
    res_calls = rerooting_calls(fs, (VM, TF))
    for d, n in sorted(cap_calls.items()):
        ok = res_calls.get(d, 0) >= n
        ck.instance(name, "%s: %d on capture, %d on restore" % (d.split("::")[-2] + "::" + d.split("::")[-1], n, res_calls.get(d, 0)), F.short_span(fs.span), ok=ok)
        if not ok:
            ck.finding(name, name + "/" + d, F.short_span(fs.span),
                       "save_state copies values through `%s` (%d sites: the copy is rooted only by the saved state's guard) but from_saved_state applies it %d times: "
                       "a value moved out of the consumed state as it is has no root in the rebuilt VM and is reclaimed at the next collection" % (d, n, res_calls.get(d, 0)))


def run(tier):
    ck = Check("C07", tier, "field-level taint from the running VM's fields into the aggregates built by save_state, and from the saved state into the aggregates built by from_saved_state (closures included)",
               ["host schedules, batching and settlement order", "Promise.race/any/allSettled semantics",
                "that Interpreter.env matches the resumed context when something else ran in between"])
    fx = F.load("A")
    exempt = rename_tolerant(fx, ck)
    ck.configs.append("A: cargo +nightly check --lib --features c-api")
    for a in (VM, TF, SV, STF):
        ck.anchor(a in fx.adts, "struct " + a)
    ss = fx.one("BytecodeVM::save_state")
    fs = fx.one("BytecodeVM::from_saved_state")
    vmf = [x["name"] for x in fx.adts[VM]["variants"][0]["fields"]]
    tff = [x["name"] for x in fx.adts[TF]["variants"][0]["fields"]]

    # ---- R1 capture
    ck.rule("R1.capture", "every field of BytecodeVM / TrampolineFrame flows into the saved state (or is exempt with a reason)", floor=30)
    cap = {VM: set(), TF: set()}
    nagg = 0
    for g in builders_of(fx, ss, (SV, STF)):
        taint = C.field_taint(fx, g, {VM, TF})
        for adt in (SV, STF):
            for bi, s in C.aggregates(fx, g, adt):
                nagg += 1
                for name, op in zip(s[2][1]["fields"], s[2][2]):
                    if op[0] in ("c", "m"):
                        t = set(taint.get(op[1][0], set()))
                        for (a, v, n) in F.place_fields(op[1]):
                            if a in (VM, TF):
                                t.add((a, n))
                        for a, n in t:
                            cap[a].add(n)
    ck.anchor(nagg >= 2, "save_state constructs SavedVmState and SavedTrampolineFrame")
    for adt, fields in ((VM, vmf), (TF, tff)):
        for n in fields:
            short = "%s.%s" % (adt.split("::")[-1], n)
            if n in cap[adt]:
                ck.instance("R1.capture", short, F.short_span(ss.span))
            elif (adt, n) in exempt:
                ck.instance("R1.capture", short + " (exempt: %s)" % exempt[(adt, n)], F.short_span(ss.span))
            else:
                ck.instance("R1.capture", short, F.short_span(ss.span), ok=False)
                ck.finding("R1.capture", "R1.capture/%s" % short, F.short_span(ss.span),
                           "save_state does not capture %s: after a suspension the resumed code runs with a different value" % short)

    # ---- R2 restore
    ck.rule("R2.restore", "every field of the rebuilt BytecodeVM / TrampolineFrame depends on the saved state (or is exempt)", floor=30)
    built = {VM: {}, TF: {}}
    state_param = None
    for i in range(1, fs.argc + 1):
        if fx.tys(fs.locals[i]).endswith("SavedVmState"):
            state_param = i
    ck.anchor(state_param is not None, "from_saved_state takes a SavedVmState")
    for g in builders_of(fx, fs, (VM, TF)):
        taint = C.field_taint(fx, g, {SV, STF}, param_local=state_param if g is fs else None)
        for adt in (VM, TF):
            for bi, s in C.aggregates(fx, g, adt):
                for name, op in zip(s[2][1]["fields"], s[2][2]):
                    dep = False
                    if op[0] in ("c", "m"):
                        t = set(taint.get(op[1][0], set()))
                        for (a, v, n) in F.place_fields(op[1]):
                            if a in (SV, STF):
                                t.add((a, n))
                        if g is fs and op[1][0] == state_param:
                            t.add(("<param>", ""))
                        dep = bool(t)
                    built[adt][name] = built[adt].get(name, False) or dep
    ck.anchor(bool(built[VM]), "from_saved_state constructs a BytecodeVM")
    for adt in (VM, TF):
        for n, dep in sorted(built[adt].items()):
            short = "%s.%s" % (adt.split("::")[-1], n)
            if dep:
                ck.instance("R2.restore", short, F.short_span(fs.span))
            elif (adt, n) in exempt:
                ck.instance("R2.restore", short + " (exempt)", F.short_span(fs.span))
            else:
                ck.instance("R2.restore", short, F.short_span(fs.span), ok=False)
                ck.finding("R2.restore", "R2.restore/%s" % short, F.short_span(fs.span),
                           "from_saved_state initialises %s from something other than the saved state: the value the suspended code had is lost" % short)

    # ---- R3 re-guarding
    ck.rule("R3.reguard", "from_saved_state re-guards what it restores (register_guard is rebuilt, not captured)", floor=1)
    regs = any(t[1].get("d") == "gc::Guard::<T>::guard" for g in fx.body_group(fs) for bi, t in g.calls())
    ck.instance("R3.reguard", "from_saved_state calls Guard::guard", F.short_span(fs.span), ok=regs)
    if not regs:
        ck.finding("R3.reguard", "R3.reguard/from_saved_state", F.short_span(fs.span), "from_saved_state no longer guards the restored registers: they are unrooted after a resume")
    rerooting_rule(fx, ck, "R3b.rerooting-symmetric")
    # ---- R5 whoever looks at a promise's status subscribes to the pending case
    # A function that branches on PromiseStatus and answers from what it sees must, for Pending, register a
    # handler on the promise (mutable access to PromiseState.handlers, directly or through promise_then):
    # otherwise its answer depends on whether the promise happened to be settled when it was called, i.e. on
    # the host's schedule.
    ck.rule("R5.status-observers-subscribe", "every function that branches on PromiseStatus registers a handler for the pending case (or is a scheduler function of the reasoned table)", floor=8)
    OBSERVER_OK = {
        "interpreter::bytecode_vm::BytecodeVM::execute_op": "Op::Await on a pending promise suspends and registers the waiter in the wait graph",
        "interpreter::Interpreter::step": "resumes a context from the status of the promise it waited for",
        "interpreter::Interpreter::check_resolved_promises": "the wake-up scan itself",
        "interpreter::builtins::promise::resolve_promise_sync": "Pending is answered with an internal error, not with a value (async generator delegation settles first)",
    }
    PS = "value::PromiseStatus"
    for f in fx.fns.values():
        if f.closure or f.derived or (f.impl_trait or "").endswith("Debug"):
            continue
        grp = fx.body_group(f)
        if not any(x[1] == PS and "Pending" in x[3] and len(x[3]) + (1 if x[4] is not None else 0) >= 2 for g in grp for x in M.enum_switches(fx, g)):
            continue
        subscribes = False
        for g in grp:
            for bi, kind, place, sp in M.all_places(g):
                for (adt, v, name) in F.place_fields(place):
                    if adt == "value::PromiseState" and name == "handlers" and kind in ("w", "b"):
                        subscribes = True
            for bi, t in g.calls():
                if t[1].get("d", "").endswith(("promise::promise_then", "WaitGraph::add_waiter", "WaitGraph::wait_for")):
                    subscribes = True
        ok = subscribes or f.parent in OBSERVER_OK or M.only_called_from(fx, f.parent, set(OBSERVER_OK))
        ck.instance("R5.status-observers-subscribe", f.parent + (" (%s)" % OBSERVER_OK[f.parent] if f.parent in OBSERVER_OK and not subscribes else ""), F.short_span(f.span), ok=ok)
        if not ok:
            ck.finding("R5.status-observers-subscribe", "R5.status-observers-subscribe/" + f.parent, F.short_span(f.span),
                       "`%s` branches on a promise's status and answers without registering a handler for the pending case: what it returns depends on "
                       "whether the promise was already settled when it was called" % f.parent)
    # ---- R4 wake-up: a suspended context whose awaited promise settled must become ready whatever route settled it
    import c08
    c08.wake_up_rule(fx, ck, "R4.wake-up")
    # R2b: a generator that yields is a suspended VM too.  Its state goes through `SavedVmState` (decided by R1/R2 for await) and is
    # then copied field by field into the generator object; whatever is not copied is lost at every `yield`.
    ck.rule("R2b.generator-capture", "every field of SavedVmState that a run can make non-trivial is moved into the generator state at a yield and comes back "
                                     "from it at the resume (or is exempt with a reason)", floor=6)
    GEN_EXEMPT = {
        "guard": "re-created for the rebuilt VM (the generator object keeps the values alive through its tracer)",
        "chunk": "constant per generator; kept in the generator state since creation",
        "arguments": "constant per generator; kept in the generator state since creation",
        "this_value": "constant per generator; kept in the generator state since creation",
        "new_target": "generators are not constructors",
        "trampoline_stack": "`yield` is only allowed in the generator's own frame: no trampoline frames are active at a yield",
    }
    svs = [a for a in fx.adts if a.endswith("SavedVmState")]
    gens = [f for f in fx.fns.values() if not f.closure and f.path.startswith("interpreter::") and
            any(s_[0] == "a" and s_[2][0] == "agg" and s_[2][1].get("p", "").endswith("SavedVmState") for bl in f.blocks for s_ in bl["s"]) and
            not f.path.endswith(("save_state", "from_saved_state"))]
    if ck.anchor(bool(svs) and bool(gens), "SavedVmState and the function that rebuilds one from a generator's state"):
        fields = [fl["name"] for fl in fx.adts[svs[0]]["variants"][0]["fields"]]
        for g in gens:
            reads = set()
            # the function itself, its closures, and helpers it hands the yielded state to (`park_generator(&gen_state, &mut vm_state, ..)`)
            bodies = list(fx.body_group(g))
            for g0 in list(bodies):
                for _, t0 in g0.calls():
                    h = fx.fns.get(t0[1].get("d") or "")
                    if h is not None and t0[1].get("local") and any("SavedVmState" in fx.tys(x) for x in h.sig[:-1]) and h not in bodies \
                            and not h.path.endswith(("save_state", "from_saved_state")):
                        bodies.append(h)
            for g0 in bodies:
                for bi, kind, pl, sp in M.all_places(g0):
                    if kind in ("r", "b"):
                        for a, v, n in F.place_fields(pl):
                            if a.endswith("SavedVmState"):
                                reads.add(n)
            aggs_ = [(bi, s_) for bi, bl in enumerate(g.blocks) for s_ in bl["s"]
                     if s_[0] == "a" and s_[2][0] == "agg" and s_[2][1].get("p", "").endswith("SavedVmState")]
            for fld in fields:
                if fld in GEN_EXEMPT:
                    ck.instance("R2b.generator-capture", "%s.%s (exempt: %s)" % (g.path.split("::")[-1], fld, GEN_EXEMPT[fld]), F.short_span(g.span), nontrivial=False)
                    continue
                captured = fld in reads
                restored = True
                for bi, s_ in aggs_:
                    fs = s_[2][1].get("fields") or []
                    if fld in fs:
                        op = s_[2][2][fs.index(fld)]
                        if op[0] == "k":
                            restored = False
                        else:
                            d = M.trace_back(g, op[1][0])
                            if d and d[1] == "T" and (d[2][1].get("d") or "").endswith(("Vec::<T>::new", "Default>::default", "Vec::<T, A>::new")):
                                restored = False
                            if d and d[1] != "T" and d[2][0] == "agg" and d[2][1].get("v") == "None":
                                restored = False
                ok = captured and restored
                ck.instance("R2b.generator-capture", "%s: SavedVmState.%s %s / %s" % (g.path.split("::")[-1], fld, "captured at yield" if captured else "NOT captured",
                                                                                       "restored at resume" if restored else "reset at resume"), F.short_span(g.span), ok=ok)
                if not ok:
                    ck.finding("R2b.generator-capture", "R2b.generator-capture/%s/%s" % (g.path, fld), F.short_span(g.span),
                               "`%s` %s `SavedVmState.%s`: a generator loses it at every yield (saved_env_stack: the block scopes open at the yield are "
                               "never left - `{ let x = 'inner'; yield } ... x` reads 'inner'; pending_completion: `try { return 1 } finally { yield }` "
                               "completes with undefined)" % (g.path, "does not move the yielded state's" if not captured else "rebuilds the VM with an empty", fld))

    # R7 an exception injected on resume is a throw at the suspension point: whoever searches a frame for a handler also walks the callers
    ck.rule("R7.injected-throw-parity", "every function that searches the current frame for an exception handler (find_exception_handler) also unwinds the trampoline "
            "stack, or is only the first step of one that does", floor=1)
    fh = [p for p in fx.fns if p.endswith("BytecodeVM::find_exception_handler")]
    if ck.anchor(len(fh) == 1, "BytecodeVM::find_exception_handler"):
        for p, g in sorted(fx.fns.items()):
            if g.derived or g.closure or p == fh[0]:
                continue
            if not any(t[1].get("d") == fh[0] for _, t in g.calls()):
                continue
            walks = any(any(x[2] == "trampoline_stack" for x in F.place_fields(pl)) for _, kind, pl, _sp in M.all_places(g))
            if not walks:
                # a helper that is only the first step (this frame) of a function that goes on to the callers' frames
                walkers = {q for q, h in fx.fns.items() if not h.derived and any(any(x[2] == "trampoline_stack" for x in F.place_fields(pl))
                                                                             for _, kind, pl, _sp in M.all_places(h))}
                walks = M.only_called_from(fx, p, walkers)
            ck.instance("R7.injected-throw-parity", p, F.short_span(g.span), ok=walks)
            if not walks:
                ck.finding("R7.injected-throw-parity", "R7.injected-throw-parity/%s" % p, F.short_span(g.span),
                           "`%s` looks for an exception handler in the current frame only: an exception that arrives on resume (a rejected awaited promise, an order "
                           "answered with an error) is not caught by a try block of the *caller* of the function that was waiting - "
                           "`async function f() { return await order(..) }  try { await f() } catch (e) {}` never runs the catch" % p)
    # R6 slot index domain (zero-expected, fixture controls)
    import slotindex
    nsl = slotindex.rule(fx, ck)
    ck.anchor(nsl >= 1, "an aggregate pairing `index` with a shared state that holds `results` (Promise.all)")
    ck3 = Check("C07", tier, "", [])
    slotindex.rule(F.load_fixture(), ck3, prefix="c07::")
    bad = {fd[1] for fd in ck3.findings}
    if not any("all_bad" in k for k in bad) or any("all_good" in k for k in bad):
        ck.closed_fail.append("R6 control failed: fixture reports %s" % sorted(bad))
    # R9 a finally handler registered on a pending promise passes the settlement through
    import livebind
    ck.rule("R9.finally-passes-settlement-through", "the function that registers one callback as both on_fulfilled and on_rejected of a PromiseHandler marks the handler "
            "(a boolean field set to true), and the dispatcher switches on that field and calls the callback without arguments there", floor=2)
    regs9, disp9 = livebind.finally_sites(fx, lambda g: g.file.endswith("builtins/promise.rs"))
    ck.anchor(bool(regs9) and bool(disp9), "finally registration and handler dispatcher in promise.rs (found %d / %d)" % (len(regs9), len(disp9)))
    for f9, sp9, ok9 in regs9:
        ck.instance("R9.finally-passes-settlement-through", "%s registers one callback in both slots" % f9.path, F.short_span(sp9), ok=ok9)
        if not ok9:
            ck.finding("R9.finally-passes-settlement-through", "R9.finally-passes-settlement-through/%s" % f9.path, F.short_span(sp9),
                       "`%s` registers the finally callback as a plain then-handler on a pending promise: the dispatcher calls it with the settled value and resolves the "
                       "result with what it returns - `await pending.finally(() => 99)` gives 99 and a rejection is swallowed, while a settled promise is handled correctly" % f9.path)
    for f9, sp9, ok9 in disp9:
        ck.instance("R9.finally-passes-settlement-through", "%s dispatches marked handlers without arguments" % f9.path, F.short_span(sp9), ok=ok9)
        if not ok9:
            ck.finding("R9.finally-passes-settlement-through", "R9.finally-passes-settlement-through/%s/dispatch" % f9.path, F.short_span(sp9),
                       "`%s` calls every handler callback with the settled value: a handler registered by finally() cannot be told apart" % f9.path)
    # R8 (shared with C02 G5b; control there): the frames rebuilt from a saved state own their roots.  A caller frame whose registers are rooted in the
    # VM's guard only loses them when the resumed callee returns into it - the uninterrupted run keeps them in the frame's own guard.
    import c02
    c02.guard_coherence(fx, ck, name="R8.rebuilt-frames-own-their-roots", prefix="interpreter::bytecode_vm::BytecodeVM::from_saved_state")
    return ck.finish()
