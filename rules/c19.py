"""C19 - all ways of running a program agree: sibling agreement on corresponding fragments.

Effect signature of a fragment (a match arm, or a dominating region) = field writes to
Interpreter / BytecodeVM, ledger `mem::take`s and ADT variants constructed, taken transitively
through local callees (so extracting a helper in one sibling does not change its signature).
Decided:
  S1 the two VmResult -> StepResult mappers agree per VmResult variant;
  S2 every consumer of VmResult assigns each variant an outcome class (value / propagate suspension
     / error); consumers with the same role agree;
  S3 the functions that finalise module exports treat every ModuleExport variant alike;
  S5 the frame pop sites (normal return / error unwind) restore the same frame fields;
  S7 tsrun_step and tsrun_run wrap Interpreter::step with the same anchors.
A difference is accepted only through a reasoned table entry.
Not decided: equality of results (values).
"""
from common import Check
import facts as F
import mir as M

VMRESULT = "interpreter::bytecode_vm::VmResult"


def arm_signatures(fx, f, enum):
    """variant -> (effects, callees) for the first match on `enum` in f that has >= 3 arms"""
    best = None
    for bi, en, place, arms, other, rest in M.enum_switches(fx, f):
        if en == enum and (best is None or len(arms) > len(best[3])):
            best = (bi, en, place, arms, other, rest)
    if best is None:
        return None
    bi, en, place, arms, other, rest = best
    out = {}
    for var, tgt in arms.items():
        preds = f.preds()[tgt]
        region = M.dominated_region(f, tgt) if all(p == bi for p in preds) else {tgt}
        out[var] = M.region_effects(fx, f, region)
    for var in rest:
        preds = f.preds()[other]
        region = M.dominated_region(f, other) if all(p == bi for p in preds) else {other}
        out[var] = M.region_effects(fx, f, region)
    return out


# reasoned differences between siblings: (sibling set, variant, effect) -> reason
ACCEPTED = {}


def compare_arms(ck, rule, name_a, sig_a, name_b, sig_b, ignore=()):
    for var in sorted(set(sig_a) | set(sig_b)):
        ea = sig_a.get(var, (set(), set()))[0]
        eb = sig_b.get(var, (set(), set()))[0]
        only_a = {e for e in ea - eb if not e.startswith(ignore)}
        only_b = {e for e in eb - ea if not e.startswith(ignore)}
        only_a = {e for e in only_a if (rule, var, e) not in ACCEPTED}
        only_b = {e for e in only_b if (rule, var, e) not in ACCEPTED}
        ok = not only_a and not only_b
        ck.instance(rule, "%s <-> %s / %s" % (name_a.split("::")[-1], name_b.split("::")[-1], var), None, ok=ok)
        if not ok:
            ck.finding(rule, "%s/%s/%s" % (rule, var, "+".join(sorted(only_a | only_b))[:80]), None,
                       "siblings disagree on `%s`: only `%s` does {%s}; only `%s` does {%s}"
                       % (var, name_a, ", ".join(sorted(only_a)), name_b, ", ".join(sorted(only_b))))


def reaches_call(fx, f, suffixes, scope_prefix="interpreter::Interpreter::", depth=2, _seen=None):
    """blocks of `f` whose call is one of `suffixes`, or a call of a private helper of the interpreter from which such a call is reached
    (a helper extracted from an entry point: `parse_source`, `begin_new_run`, `enter_main_module_scope`)"""
    _seen = _seen if _seen is not None else set()
    out = []
    for bi, t in f.calls():
        d = t[1].get("d") or ""
        if d.endswith(suffixes):
            out.append(bi)
        elif depth > 0 and t[1].get("local") and d.startswith(scope_prefix) and d in fx.fns and d not in _seen and d != f.path:
            g = fx.fns[d]
            if g.vis != "Public" and len(g.blocks) < 80 and reaches_call(fx, g, suffixes, scope_prefix, depth - 1, _seen | {f.path}):
                out.append(bi)
    return out


def writes_fields(fx, f, owner, scope_prefix="interpreter::Interpreter::", depth=1):
    """Interpreter fields the function assigns, itself or in the private helpers it calls (one level)"""
    w = set()
    for bl in f.blocks:
        if bl["c"]:
            continue
        for s_ in bl["s"]:
            if s_[0] == "a":
                for a, v, n in F.place_fields(s_[1]):
                    if a == owner:
                        w.add(n)
    if depth > 0:
        for bi, t in f.calls():
            d = t[1].get("d") or ""
            if t[1].get("local") and d.startswith(scope_prefix) and d in fx.fns and d != f.path and fx.fns[d].vis != "Public" and len(fx.fns[d].blocks) < 80:
                w |= writes_fields(fx, fx.fns[d], owner, scope_prefix, depth - 1)
    return w


def entry_path_rule(fx, ck, name="S10.entry-installs-path", scope=lambda g: g.path.startswith("interpreter::Interpreter::"), owner="interpreter::Interpreter",
                    path_ty="ModulePath", parser=("::Parser::<'a>::new", "Parser::new")):
    """The entry points that take the source and its module path (`eval`, `prepare`) are siblings: a field of the interpreter that one of
    them sets from that parameter on every path to a successful return must be set on every such path by the others too.  `eval` installs
    `current_module_path` unconditionally; a `prepare` that does so only for the first run of an interpreter resolves the imports of the
    second program against the directory of the first one."""
    from c09 import ancestors
    ck.rule(name, "a path field that one entry point (source + module path) installs from its parameter on every successful path is installed so by every entry point", floor=2)
    entries = []
    for p, f in sorted(fx.fns.items()):
        if f.closure or f.derived or not scope(f):
            continue
        params = [i for i in range(1, f.argc + 1) if path_ty in fx.tys(f.locals[i]) and fx.tys(f.locals[i]).startswith("std::option::Option<")]
        if not params or not reaches_call(fx, f, parser) or f.vis != "Public":
            continue
        entries.append((f, params))
    table = {}
    path_fields = {fld["name"] for fld in fx.adts[owner]["variants"][0]["fields"] if path_ty in fx.tys(fld["ty"])} if owner in fx.adts else set()
    for f, params in entries:
        derived = set()
        # locals computed from the parameter (clones, as_ref, Some(..))
        for l in range(len(f.locals)):
            if any(q in ancestors(f, l) for q in params):
                derived.add(l)
        stores = {}
        for bi, bl in enumerate(f.blocks):
            if bl["c"]:
                continue
            for s_ in bl["s"]:
                if s_[0] != "a":
                    continue
                fl = [x for x in F.place_fields(s_[1]) if x[0] == owner and x[2] in path_fields]
                if not fl:
                    continue
                srcs = [pl[0] for pl in F.rvalue_places(s_[2])]
                if any(x in derived for x in srcs):
                    stores.setdefault(fl[-1][2], set()).add(bi)
        # a private helper that is handed the parameter (`begin_new_run(&module_path)`) and stores it on every path: the call is the store
        for bi, t in f.calls():
            d = t[1].get("d") or ""
            if not (t[1].get("local") and d.startswith(owner + "::") and d in fx.fns and fx.fns[d].vis != "Public"):
                continue
            g = fx.fns[d]
            for k, a in enumerate(t[2]):
                if a[0] in ("c", "m") and a[1][0] in derived and k + 1 <= g.argc and path_ty in fx.tys(g.locals[k + 1]):
                    gder = {l for l in range(len(g.locals)) if (k + 1) in ancestors(g, l)}
                    grets = {b for b, bl in enumerate(g.blocks) if bl["t"][0] == "ret"}
                    gst = {}
                    for b, bl in enumerate(g.blocks):
                        if bl["c"]:
                            continue
                        for s_ in bl["s"]:
                            if s_[0] == "a":
                                fl = [x for x in F.place_fields(s_[1]) if x[0] == owner and x[2] in path_fields]
                                if fl and any(pl[0] in gder for pl in F.rvalue_places(s_[2])):
                                    gst.setdefault(fl[-1][2], set()).add(b)
                    for field, blocks in gst.items():
                        seen, work, leak = set(), [0], False
                        while work:
                            x = work.pop()
                            if x in seen or x in blocks:
                                continue
                            seen.add(x)
                            if x in grets:
                                leak = True
                                break
                            work.extend(g.succ(x))
                        if not leak:
                            stores.setdefault(field, set()).add(bi)
        rets = {bi for bi, bl in enumerate(f.blocks) if bl["t"][0] == "ret"}
        errs = {bi for bi, t in f.calls() if (t[1].get("d") or "").endswith("::from_residual")}
        for bi, bl in enumerate(f.blocks):
            for s_ in bl["s"]:
                if s_[0] == "a" and s_[1][0] == 0 and s_[2][0] == "agg" and isinstance(s_[2][1], dict) and s_[2][1].get("v") == "Err":
                    errs.add(bi)
        for field, blocks in stores.items():
            seen, work, leak = set(), [0], False
            while work:
                x = work.pop()
                if x in seen or x in blocks or x in errs:
                    continue
                seen.add(x)
                if x in rets:
                    leak = True
                    break
                work.extend(f.succ(x))
            table.setdefault(field, {})[f.path] = (not leak, min(blocks))
    for field, per in sorted(table.items()):
        always = [p for p, (a, _) in per.items() if a]
        for f, params in entries:
            if not always:
                ck.instance(name, "%s.%s: set conditionally by every entry point that sets it" % (owner.split("::")[-1], field), None, nontrivial=False)
                break
            got = per.get(f.path)
            ok = got is not None and got[0]
            ck.instance(name, "%s installs %s.%s" % (f.path, owner.split("::")[-1], field), F.short_span(f.span), ok=ok)
            if not ok:
                ck.finding(name, "%s/%s/%s" % (name, f.path, field), F.short_span(f.span),
                           "`%s` reaches a successful return without setting `%s` from its module-path parameter, `%s` always sets it: the second program run through "
                           "`%s` on one interpreter resolves its imports against (and files its exports under) the path of an earlier run"
                           % (f.path, field, always[0], f.path.split("::")[-1]))
    return entries, table


def handover_rule(fx, ck, name="S11.scope-installers-hand-over", owner="interpreter::Interpreter"):
    """A run that suspends is finished by step(): the finaliser takes the record of the run (saved environment, module scope, module path)
    out of the interpreter, restores the environment and files the exports.  Every function that installs a module scope for a program
    (`create_module_environment` + `self.env = ..`) can end in a suspension, so each must write every field of that record on some path;
    one that never does (eval before the repair) continues without its import bindings and loses its exports."""
    import exits as E
    ck.rule(name, "every function that installs the module scope of a program writes all the fields the step() finaliser takes", floor=2)
    installers = []
    for p, f in sorted(fx.fns.items()):
        if f.closure or f.derived or not p.startswith(owner + "::"):
            continue
        if not reaches_call(fx, f, ("::create_module_environment",), depth=1):
            continue
        writes = writes_fields(fx, f, owner)
        # ... of a program: the function answers with a StepResult (dependency modules run to completion and restore the scope themselves)
        if "env" in writes and f.sig and "StepResult" in fx.tys(f.sig[-1]):
            installers.append((f, writes))
    inst = {f.path for f, _ in installers}
    record = set()
    fin = []
    for p, f in sorted(fx.fns.items()):
        if f.closure or f.derived or not p.startswith(owner + "::") or p in inst:
            continue
        if not any((t[1].get("d") or "").endswith("::finalize_module_exports") for _, t in f.calls()):
            continue
        took = set()
        for bi, t in f.calls():
            if (t[1].get("d") or "").endswith(("Option::<T>::take", "mem::take")) and t[2] and t[2][0][0] in ("c", "m"):
                fl = E.field_of_ref(f, t[2][0][1][0])
                if fl and fl[0] == owner:
                    took.add(fl[2])
        if took:
            fin.append(f.path)
            record |= took
    ck.anchor(bool(fin) and len(record) >= 2, "step() finaliser(s) %s take the run record %s" % ([x.split("::")[-1] for x in fin], sorted(record)))
    for f, writes in installers:
        missing = sorted(record - writes)
        ck.instance(name, "%s installs a module scope and writes %s" % (f.path, sorted(record & writes)), F.short_span(f.span), ok=not missing)
        if missing:
            ck.finding(name, "%s/%s" % (name, f.path), F.short_span(f.span),
                       "`%s` installs the module scope of a program and never writes %s, which `%s` takes to finish a run that suspended: after "
                       "`export const a = await order(..)` the continuation runs without the module's import bindings and the exports are never filed"
                       % (f.path, ", ".join(missing), fin[0] if fin else "?"))
    return installers


def delegates_to(fx, a, b):
    """a has no VmResult match of its own and hands the result to b (one implementation left after a merge)"""
    return any(t[1].get("d") == b.path for g in fx.body_group(a) for _, t in g.calls())


def sibling_vmresult_mappers(fx, ck, rule="S1.vmresult-mappers"):
    ck.rule(rule, "run_vm_to_completion and process_vm_result perform the same effects for every VmResult variant")
    a = fx.one("Interpreter::run_vm_to_completion")
    b = fx.one("Interpreter::process_vm_result")
    sa = arm_signatures(fx, a, VMRESULT)
    sb = arm_signatures(fx, b, VMRESULT)
    for x, sx, y, sy in ((a, sa, b, sb), (b, sb, a, sa)):
        if sx is None and sy is not None and delegates_to(fx, x, y):
            ck.anchor(True, "match on VmResult in the result mapper %s (the other one delegates to it)" % y.path)
            ck.instance(rule, "%s delegates to %s: one implementation, nothing to disagree" % (x.path.split("::")[-1], y.path.split("::")[-1]), F.short_span(x.span))
            return
    if not ck.anchor(sa is not None and sb is not None, "match on VmResult in both result mappers"):
        return
    n0 = ck.rules[rule]["instances"]
    compare_arms(ck, rule, a.path, sa, b.path, sb)
    if ck.rules[rule]["instances"] - n0 < 6:
        ck.closed_fail.append("rule %s compared only %d VmResult variants (hand count: 6+)" % (rule, ck.rules[rule]["instances"] - n0))


def outcome_class(effects, f, region_calls):
    """classify what an arm does with a VmResult variant"""
    mk = {e for e in effects if e.startswith("mk ")}
    if any(e.startswith("mk StepResult::Suspended") for e in mk) or "W Interpreter.suspended_for_order" in effects or any("add_context" in c for c in region_calls):
        return "propagate-suspension"
    if any(e.startswith("mk JsError") for e in mk) or any("JsError::" in c or "internal_error" in c for c in region_calls):
        return "error"
    return "value"


def need_imports_only_outcome(fx, ck, name="S8.need-imports"):
    """Every entry point that answers NeedImports does so under `if !missing.is_empty()`.  From the non-empty
    edge of that test every path to a return must build a NeedImports answer: a path that starts the run
    anyway (or answers anything else) makes this way of running the program differ from its siblings in
    what the host is asked for and in when dependency modules execute."""
    ck.rule(name, "from the non-empty edge of the emptiness test that guards a NeedImports answer, every return builds NeedImports", floor=3)

    def builds(f, b):
        return any(s[0] == "a" and s[2][0] == "agg" and isinstance(s[2][1], dict) and s[2][1].get("p", "").endswith("StepResult")
                   and s[2][1].get("v") == "NeedImports" for s in f.blocks[b]["s"])
    import c10 as c10_
    # helpers that wrap their parameter in the answer (`defer_program_until_imported(program, requests) -> StepResult`)
    wrappers = {}
    for g in fx.fns.values():
        if g.derived or g.closure:
            continue
        for b in range(len(g.blocks)):
            if builds(g, b):
                o = next((s_[2][2][0] for s_ in g.blocks[b]["s"] if s_[0] == "a" and s_[2][0] == "agg" and isinstance(s_[2][1], dict)
                          and s_[2][1].get("v") == "NeedImports" and s_[2][2]), None)
                if o is not None and o[0] in ("c", "m"):
                    r_ = c10_.copy_root_local(g, o[1][0])
                    if 1 <= r_ <= g.argc:
                        wrappers[g.path] = r_
    for f in fx.fns.values():
        if f.derived:
            continue
        sites = [b for b in range(len(f.blocks)) if builds(f, b)]
        wsites = {bi: t[2][wrappers[t[1]["d"]] - 1] for bi, t in f.calls() if t[1].get("d") in wrappers and wrappers[t[1]["d"]] - 1 < len(t[2])}
        if f.path in wrappers:
            continue     # judged at its call sites
        sites = sites + sorted(wsites)
        if not sites:
            continue
        done = set()
        for B in sites:
            import c10
            import inplace
            # the collection handed to the host is the one whose emptiness was tested
            opnd = wsites[B] if B in wsites else next((s[2][2][0] for s in f.blocks[B]["s"] if s[0] == "a" and s[2][0] == "agg" and isinstance(s[2][1], dict)
                         and s[2][1].get("v") == "NeedImports" and s[2][2]), None)
            if opnd is None or opnd[0] not in ("c", "m"):
                continue
            root = c10.copy_root_local(f, opnd[1][0])
            tests = []
            for bi, t in f.calls():
                if t[1].get("d", "").endswith("::is_empty") and t[4] is not None and t[2] and f.dominates(bi, B):
                    cr = inplace.container_root(f, t[2][0])
                    if cr and cr[0] == "local" and c10.copy_root_local(f, cr[1]) == root:
                        tests.append((bi, t))
            if not tests:
                continue
            bi, t = tests[0]
            if bi in done:
                continue
            done.add(bi)
            sw = t[4]
            while f.blocks[sw]["t"][0] == "goto":
                sw = f.blocks[sw]["t"][1]
            edges = [e for e in f.succ(sw) if f.dominates(e, B) or e == B]
            if f.blocks[sw]["t"][0] != "switch" or len(edges) != 1:
                continue
            E = edges[0]
            # search for a return that avoids every NeedImports construction
            seen = set()
            work = [E]
            escape = None
            while work:
                x = work.pop()
                if x in seen or builds(f, x) or x in wsites:
                    continue
                seen.add(x)
                tt = f.blocks[x]["t"]
                if tt[0] == "ret":
                    escape = x
                    break
                work.extend(f.succ(x))
            ok = escape is None
            ck.instance(name, "%s: test at %s" % (f.parent, "is_empty"), F.short_span(t[6]), ok=ok)
            if not ok:
                ck.finding(name, "%s/%s" % (name, f.parent), F.short_span(t[6]),
                           "`%s` can return without a NeedImports answer although the set of imports it just found missing is not empty: the host is not "
                           "asked for modules that a sibling entry point does ask for, and dependency modules run at a different point of the protocol" % f.parent)


def run(tier):
    ck = Check("C19", tier, "sibling comparison of transitive effect signatures on corresponding CFG fragments (match arms of shared enums, dominating regions)",
               ["equality of results, output and exports between entry points (values)"])
    fx = F.load("A")
    ck.configs.append("A: cargo +nightly check --lib --features c-api")
    sibling_vmresult_mappers(fx, ck)

    # S2 consumers of VmResult: outcome classes per role
    ck.rule("S2.vmresult-consumers", "every consumer of VmResult gives each variant an outcome class; consumers of one role agree", floor=5)
    consumers = {}
    for f in fx.fns.values():
        sig = arm_signatures(fx, f, VMRESULT)
        if sig and len(sig) >= 4:
            consumers[f.path] = {v: outcome_class(e, f, c) for v, (e, c) in sig.items()}
    ROLES = {
        "top-level": ["interpreter::Interpreter::run_vm_to_completion", "interpreter::Interpreter::process_vm_result"],
        "nested-run": ["interpreter::Interpreter::run_bytecode_with_this", "interpreter::Interpreter::call_bytecode_function_with_new_target"],
    }
    # a role member whose match on VmResult was extracted into a helper of its own plays the role through that helper
    members = {p for fns in ROLES.values() for p in fns}
    for p in sorted(members):
        if p not in consumers and p in fx.fns:
            hs = sorted({t[1].get("d") for g in fx.body_group(fx.fns[p]) for _, t in g.calls() if t[1].get("d") in consumers and t[1].get("d") not in members})
            if len(hs) == 1:
                consumers[p] = consumers[hs[0]]
                ck.note("%s consumes VmResult through its helper %s" % (p.split("::")[-1], hs[0].split("::")[-1]))
    for role, fns in ROLES.items():
        present = [p for p in fns if p in consumers]
        # a member that lost its own match because it now hands the result to another member still plays the role
        deleg = [p for p in fns if p not in consumers and p in fx.fns and any(delegates_to(fx, fx.fns[p], fx.fns[q]) for q in present)]
        ck.anchor(len(present) + len(deleg) == len(fns), "VmResult consumers of role %s: %s" % (role, fns))
        for p in present[1:]:
            a, b = consumers[present[0]], consumers[p]
            for var in sorted(set(a) | set(b)):
                ok = a.get(var) == b.get(var)
                ck.instance("S2.vmresult-consumers", "%s: %s vs %s / %s" % (role, present[0].split("::")[-1], p.split("::")[-1], var), None, ok=ok)
                if not ok:
                    ck.finding("S2.vmresult-consumers", "S2/%s/%s/%s" % (role, p.split("::")[-1], var), None,
                               "role %s: `%s` treats VmResult::%s as %s but `%s` as %s" % (role, present[0], var, a.get(var), p, b.get(var)))
    # module role: the entry module is driven by step()/process_vm_result (suspension propagates to the host);
    # dependency / internal source modules are run through a nested-run consumer
    top = consumers.get("interpreter::Interpreter::process_vm_result", {})
    nested = consumers.get("interpreter::Interpreter::run_bytecode_with_this", {})
    callees, callers = fx.callgraph()
    for p in ("interpreter::Interpreter::execute_pending_module", "interpreter::Interpreter::create_source_module_object"):
        if not ck.anchor(p in fx.fns, "module body runner " + p):
            continue
        uses_nested = "interpreter::Interpreter::run_bytecode_with_this" in M.reachable_fns(fx, [p], stop=("interpreter::Interpreter::step", "interpreter::bytecode_vm::BytecodeVM::run"))
        for var in ("Suspend", "SuspendForOrder"):
            if uses_nested and top.get(var) and nested.get(var) and top[var] != nested[var]:
                ck.instance("S2.vmresult-consumers", "entry vs %s / %s" % (p.split("::")[-1], var), F.short_span(fx.fns[p].span), ok=False)
                ck.finding("S2.vmresult-consumers", "S2/module-role/%s/%s" % (p.split("::")[-1], var), F.short_span(fx.fns[p].span),
                           "a module body that reaches VmResult::%s is `%s` when it is the entry program but `%s` when run by `%s` (through run_bytecode_with_this): "
                           "the module's role changes its behaviour" % (var, top[var], nested[var], p))
            else:
                ck.instance("S2.vmresult-consumers", "entry vs %s / %s" % (p.split("::")[-1], var), F.short_span(fx.fns[p].span), ok=True)
    ck.note("VmResult consumers found: %s" % sorted(consumers))

    # S3 ModuleExport finalisers
    ck.rule("S3.export-finalisers", "functions wiring namespace objects treat every ModuleExport variant alike", floor=1)
    fin = {}
    for f in fx.fns.values():
        sig = arm_signatures(fx, f, "value::ModuleExport")
        if sig:
            fin[f.path] = sig
    ck.note("ModuleExport consumers: %s" % sorted(fin))
    # every function that matches on ModuleExport to wire a namespace object is a finaliser (three copies on the pinned tree: entry
    # module, provided dependency, internal source module); once they share one helper there is nothing left to disagree
    builders = sorted(p for p in fin if p.startswith("interpreter::Interpreter::"))
    ck.anchor(len(builders) >= 1, "export finalisers (found %s)" % sorted(builders))
    if len(builders) == 1:
        ck.instance("S3.export-finalisers", "%s (single implementation shared by all module roles)" % builders[0], F.short_span(fx.fns[builders[0]].span))
    for p in builders[1:]:
        compare_arms(ck, "S3.export-finalisers", builders[0], fin[builders[0]], p, fin[p], ignore=("W Interpreter.env", "M Interpreter."))

    # S3b operand roles: the finalisers key their lookups / definitions by the same parts of the export record
    import roles as R
    ck.rule("S3b.export-roles", "the export finalisers use the same component of each ModuleExport (binding name vs export name) for every table access", floor=1)
    if len(builders) == 1:
        ck.instance("S3b.export-roles", "%s (single implementation)" % builders[0], F.short_span(fx.fns[builders[0]].span))
    role_sigs = {}
    for p in builders:
        f = fx.fns[p]
        best = None
        for sb, en, place, arms, other, rest in M.enum_switches(fx, f):
            if en == "value::ModuleExport" and (best is None or len(arms) > len(best[3])):
                best = (sb, en, place, arms, other, rest)
        if best is None:
            continue
        sb, en, place, arms, other, rest = best
        for var, tgt in arms.items():
            region = M.dominated_region(f, tgt) if all(q == sb for q in f.preds()[tgt]) else {tgt}
            sig = R.access_signature(fx, f, region)
            role_sigs.setdefault(var, {})[p] = {(c, k) for (c, r, k) in sig}
    for var, per in sorted(role_sigs.items()):
        ps = sorted(per)
        for p in ps[1:]:
            a, b = per[ps[0]], per[p]
            ok = a == b
            ck.instance("S3b.export-roles", "%s <-> %s / ModuleExport::%s" % (ps[0].split("::")[-1], p.split("::")[-1], var), F.short_span(fx.fns[p].span), ok=ok)
            if not ok:
                ck.finding("S3b.export-roles", "S3b.export-roles/%s/%s" % (p.split("::")[-1], var), F.short_span(fx.fns[p].span),
                           "`%s` and `%s` treat ModuleExport::%s differently: (access, key operand) only in the first %s, only in the second %s - a module behaves "
                           "differently depending on its role" % (ps[0], p, var, sorted(a - b), sorted(b - a)))

    # S5 frame pop sites
    import c01
    c01.frame_restore_agreement(fx, ck, "S5.frame-pops")

    # S7 C API step/run
    ck.rule("S7.capi-step-run", "tsrun_step and tsrun_run wrap Interpreter::step with the same anchors", floor=1)
    a = fx.fn_by_suffix("ffi::context::tsrun_step")
    b = fx.fn_by_suffix("ffi::context::tsrun_run")
    if ck.anchor(len(a) == 1 and len(b) == 1, "ffi::context::tsrun_step / tsrun_run"):
        ea, ca = M.region_effects(fx, a[0], None)
        eb, cb = M.region_effects(fx, b[0], None)
        da = {c for c in ca if c.startswith(("ffi::", "interpreter::Interpreter::"))}
        db = {c for c in cb if c.startswith(("ffi::", "interpreter::Interpreter::"))}
        only_a, only_b = da - db, db - da
        we = {e for e in (ea ^ eb) if e.startswith(("W Interpreter.ffi", "W TsRunContext", "mk TsRunStepResult"))}
        ok = not only_a and not only_b and not we
        ck.instance("S7.capi-step-run", "tsrun_step <-> tsrun_run", F.short_span(a[0].span), ok=ok)
        if not ok:
            ck.finding("S7.capi-step-run", "S7/%s" % "+".join(sorted(only_a | only_b | we))[:80], F.short_span(b[0].span),
                       "tsrun_step and tsrun_run differ: only step calls {%s}; only run calls {%s}; effect diff {%s}"
                       % (", ".join(sorted(only_a)), ", ".join(sorted(only_b)), ", ".join(sorted(we))))
    # ---- S8: a non-empty set of imports the host still has to supply has exactly one outcome
    need_imports_only_outcome(fx, ck)
    # S9 nested-module isolation: a module that can be instantiated in the middle of another module's body keeps that module's exports
    ck.rule("S9.nested-module-isolation", "a function that runs a module body and drains Interpreter.exports, and is reachable from the opcode interpreter, "
                                          "sets the importer's export table aside before the run", floor=1)
    import exits as E
    drains = []
    for p, f in sorted(fx.fns.items()):
        if f.closure or not p.startswith("interpreter::Interpreter::"):
            continue
        dr = [bi for bi, t in f.calls() if (t[1].get("d") or "").endswith(("HashMap::<K, V, S, A>::drain", "mem::take")) and t[2] and t[2][0][0] in ("c", "m")
              and (E.field_of_ref(f, t[2][0][1][0]) or (0, 0, 0))[2] == "exports" and (t[1].get("d") or "").endswith("drain")]
        if dr:
            drains.append((f, dr))
    ck.anchor(bool(drains), "functions that drain Interpreter.exports into a namespace object")
    # a finaliser may drain through a shared helper (`populate_module_namespace`): its callers are the ones that run the body
    direct = {f.path for f, dr in drains}
    for _ in range(2):
        have = {g.path for g, _ in drains}
        for p, f in sorted(fx.fns.items()):
            if f.closure or not p.startswith("interpreter::Interpreter::") or p in have:
                continue
            via = [bi for bi, t in f.calls() if t[1].get("d") in have]
            if via:
                drains.append((f, via))
    exec_op = [p for p in fx.fns if p.endswith("BytecodeVM::execute_op")]
    reach = M.reachable_fns(fx, exec_op) if exec_op else set()
    runs_body = {p for p in fx.fns if p.endswith(("Interpreter::execute_program_bytecode", "Interpreter::run_bytecode", "BytecodeVM::run"))}
    for f, dr in drains:
        lazily = f.path in reach
        run_sites = [bi for bi, t in f.calls() if t[1].get("d") in runs_body]
        if not run_sites:
            ck.instance("S9.nested-module-isolation", "%s (drains exports of a body run elsewhere)" % f.path, F.short_span(f.span), nontrivial=False)
            continue
        takes = [bi for bi, t in f.calls() if (t[1].get("d") or "").endswith("mem::take") and t[2] and t[2][0][0] in ("c", "m")
                 and (E.field_of_ref(f, t[2][0][1][0]) or (0, 0, 0))[2] == "exports"]
        ok = (not lazily) or any(all(f.dominates(tb, rb) for rb in run_sites) for tb in takes)
        ck.instance("S9.nested-module-isolation", "%s: %s" % (f.path, "reachable from execute_op; exports set aside before the body runs" if lazily
                                                              else "runs before any module body (not reachable from execute_op)"), F.short_span(f.span), ok=ok)
        if not ok:
            ck.finding("S9.nested-module-isolation", "S9.nested-module-isolation/%s" % f.path, F.short_span(f.span),
                       "`%s` can run in the middle of another module's body (it is reachable from the opcode interpreter through resolve_module) and "
                       "drains `Interpreter.exports` afterwards without having set the importer's table aside first: the exports the importer recorded "
                       "before `export { x } from \"lib\"` end up on the library's namespace object" % f.path)
    entries10, table10 = entry_path_rule(fx, ck)
    ck.anchor(len(entries10) >= 2, "entry points taking source + module path (found %s)" % [f.path.split("::")[-1] for f, _ in entries10])
    ck.anchor("current_module_path" in table10, "Interpreter.current_module_path is set from the module-path parameter by an entry point")
    # S12: an uncaught script error leaves the interpreter in one shape.  The run loop materialises a thrown value (name, message, class) before it
    # returns it; the resume paths of step() - an awaited promise that was rejected while the run was suspended, an order answered with an error -
    # must do the same with the `JsError::thrown(..)` they build, or the same failure is reported differently depending on whether the run suspended.
    ck.rule("S12.thrown-errors-materialised", "in the functions of Interpreter that answer with a StepResult, every JsError::thrown(..) is handed to materialize_thrown_error "
            "before it is returned", floor=1)
    from c09 import ancestors as anc12
    n12 = 0
    steppers12 = {p_ for p_, g_ in fx.fns.items() if not g_.derived and not g_.closure and p_.startswith("interpreter::Interpreter::") and g_.sig
                  and "StepResult" in fx.tys(g_.sig[-1])}
    for p12, f12 in sorted(fx.fns.items()):
        top12 = f12.parent if f12.closure else p12
        if f12.derived or not top12.startswith("interpreter::Interpreter::") or not f12.sig:
            continue
        # ... or a helper of one of them (`resume_vm_with_exception(..) -> Result<(), JsError>`, called only from step())
        if top12 not in steppers12 and not ("JsError" in fx.tys(f12.sig[-1]) and M.only_called_from(fx, top12, steppers12)):
            continue
        mats = [t for bi, t in f12.calls() if (t[1].get("d") or "").endswith("::materialize_thrown_error")]
        for bi, t in f12.calls():
            if not (t[1].get("d") or "").endswith("JsError::thrown") or t[3][1]:
                continue
            n12 += 1
            ok12 = any(a[0] in ("c", "m") and t[3][0] in anc12(f12, a[1][0]) for m in mats for a in m[2])
            ck.instance("S12.thrown-errors-materialised", "%s: JsError::thrown" % p12, F.short_span(t[6]), ok=ok12)
            if not ok12:
                ck.finding("S12.thrown-errors-materialised", "S12.thrown-errors-materialised/%s" % p12, F.short_span(t[6]),
                           "`%s` returns a bare `JsError::thrown(..)`: the host sees `ThrownValue` where the same uncaught error of a run that did not suspend is reported "
                           "with its name and message (`await order(..)` answered with a promise that is rejected later)" % p12)
    ck.anchor(n12 >= 1, "JsError::thrown constructions in StepResult-returning functions of Interpreter (found %d)" % n12)
    # S13: import bindings are defined in the module's own scope.  `setup_import_bindings` defines them in whatever environment is current, so in every
    # function that both installs a module scope and sets the bindings up, the installation (directly or in a private helper) dominates the set-up: done
    # the other way round the imported names land in the enclosing environment, outlive the module, and an `export { imported }` is a snapshot.
    ck.rule("S13.bindings-in-module-scope", "in every function that installs a module scope and sets up import bindings, no path leads from the set-up to the installation", floor=3)
    n13 = 0
    for p13, f13 in sorted(fx.fns.items()):
        if f13.derived or f13.closure or not p13.startswith("interpreter::Interpreter::"):
            continue
        scope_b = reaches_call(fx, f13, ("::create_module_environment",), depth=1)
        bind_b = reaches_call(fx, f13, ("::setup_import_bindings",), depth=1)
        # closures of this function (`setup(..).and_then(|()| compile)`) do not matter: the set-up call itself is in the function
        if not scope_b or not bind_b or p13.endswith(("::setup_import_bindings", "::create_module_environment")):
            continue
        for bb in bind_b:
            n13 += 1
            # (the scope is installed on one branch only - a program without a path has none - so the installation need not dominate; it must not come later)
            later = f13.reachable_from(bb) - {bb}
            ok13 = not any(sb in later for sb in scope_b)
            ck.instance("S13.bindings-in-module-scope", "%s: import bindings after the module scope" % p13, F.short_span(f13.blocks[bb]["t"][6]), ok=ok13)
            if not ok13:
                ck.finding("S13.bindings-in-module-scope", "S13.bindings-in-module-scope/%s" % p13, F.short_span(f13.blocks[bb]["t"][6]),
                           "`%s` sets the import bindings up before the module scope is installed: the imported names are defined in the enclosing environment "
                           "(a later program on the interpreter sees `typeof order === \"function\"`), and `import { count } from ..; export { count }` exports a snapshot" % p13)
    ck.anchor(n13 >= 3, "functions that install a module scope and set up import bindings (found %d sites)" % n13)
    inst11 = handover_rule(fx, ck)
    ck.anchor(len(inst11) >= 2, "functions installing a module scope (found %s)" % [f.path.split("::")[-1] for f, _ in inst11])
    return ck.finish()
