#!/usr/bin/env python3
"""Entry point: run.py <Cxx> [quick|thorough]"""
import importlib
import os
import sys

sys.path.insert(0, os.path.dirname(os.path.abspath(__file__)))
import facts as F  # noqa: E402


def main():
    if len(sys.argv) < 2:
        print("usage: check <Cxx> [quick|thorough]")
        return 2
    pid = sys.argv[1].upper()
    tier = sys.argv[2] if len(sys.argv) > 2 else os.environ.get("VERIF_TIER", "quick")
    if tier not in ("quick", "thorough"):
        tier = "quick"
    try:
        mod = importlib.import_module(pid.lower())
    except ModuleNotFoundError:
        print("no check for", pid)
        return 2
    try:
        extra_rc = 0
        if tier == "thorough" and pid not in ("C17",):
            # second pass over configuration B (default features, no c-api): cfg-dependent code paths
            import common
            common.DRY[0] = True
            F.CFG_OVERRIDE["A"] = "B"
            F._loaded.clear()
            for m in list(sys.modules):
                if m in ("hazards", "mir"):
                    getattr(sys.modules[m], "_cache", {}).clear() if hasattr(sys.modules[m], "_cache") else None
                    getattr(sys.modules[m], "_eff_cache", {}).clear() if hasattr(sys.modules[m], "_eff_cache") else None
            try:
                extra_rc = mod.run(tier)
                if common.EXTRA:
                    common.EXTRA[-1]["configuration"] = ["B: cargo +nightly check --lib (default features)"]
            finally:
                common.DRY[0] = False
                F.CFG_OVERRIDE.clear()
                F._loaded.clear()
                for m in ("hazards", "mir"):
                    if m in sys.modules:
                        getattr(sys.modules[m], "_cache", {}).clear() if hasattr(sys.modules[m], "_cache") else None
                        getattr(sys.modules[m], "_eff_cache", {}).clear() if hasattr(sys.modules[m], "_eff_cache") else None
        rc = mod.run(tier)
        if extra_rc and not rc:
            # a violation that only exists in configuration B
            p = os.path.join(F.VERIF, "evidence", "violations", pid + "-cfgB.json")
            import json
            import common
            with open(p, "w") as fh:
                json.dump(common.EXTRA, fh, indent=1)
            print("VIOLATION property=%s replay=%s" % (pid, p))
            return 1
        return rc
    except F.BuildFailed as e:
        print("BUILD-FAILED: %s (neither verdict)" % e)
        return 2
    except F.AnchorMissing as e:
        # fail closed: a checker that cannot find its subject must not report "held"
        os.makedirs(os.path.join(F.VERIF, "evidence", "violations"), exist_ok=True)
        p = os.path.join(F.VERIF, "evidence", "violations", pid + "-anchor.json")
        with open(p, "w") as fh:
            fh.write('{"property": "%s", "rule": "fail-closed", "message": %r}\n' % (pid, str(e)))
        print("VIOLATION property=%s replay=%s" % (pid, p))
        print("  anchor missing: %s" % e)
        return 1


if __name__ == "__main__":
    sys.exit(main())
