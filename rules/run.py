#!/usr/bin/env python3
"""Entry point: run.py <Cxx> [quick|thorough]"""
import importlib
import os
import sys

sys.path.insert(0, os.path.dirname(os.path.abspath(__file__)))
import facts as F  # noqa: E402


def main():
    if len(sys.argv) < 2:
        print("usage: check <Cxx> [quick|thorough]")
        return 2
    pid = sys.argv[1].upper()
    tier = sys.argv[2] if len(sys.argv) > 2 else os.environ.get("VERIF_TIER", "quick")
    if tier not in ("quick", "thorough"):
        tier = "quick"
    try:
        mod = importlib.import_module(pid.lower())
    except ModuleNotFoundError:
        print("no check for", pid)
        return 2
    try:
        return mod.run(tier)
    except F.BuildFailed as e:
        print("BUILD-FAILED: %s (neither verdict)" % e)
        return 2
    except F.AnchorMissing as e:
        # fail closed: a checker that cannot find its subject must not report "held"
        os.makedirs(os.path.join(F.VERIF, "evidence", "violations"), exist_ok=True)
        p = os.path.join(F.VERIF, "evidence", "violations", pid + "-anchor.json")
        with open(p, "w") as fh:
            fh.write('{"property": "%s", "rule": "fail-closed", "message": %r}\n' % (pid, str(e)))
        print("VIOLATION property=%s replay=%s" % (pid, p))
        print("  anchor missing: %s" % e)
        return 1


if __name__ == "__main__":
    sys.exit(main())
