"""C03 R5 - a modifier word is consumed only behind a look-ahead.

`static`, `abstract`, `public`, `private`, `protected`, `readonly`, `accessor`, `async`, `declare`, `get` and `set` are not reserved: each is a
legal name of a class member, a type member or a parameter.  In front of a name they are modifiers; followed by `(`, `=`, `;`, `:` ... they are
the name itself (`class Cache { get(k) {} set(k, v) {} static() {} readonly = 1 }`, `interface I { readonly: boolean }`).  One token of
look-ahead decides, and the object-literal parser always had it (`check(..) && peek_is_property_name()`); the class-member, parameter-property,
type-member and ambient-class parsers consumed the word whenever it was the current token.

Rule: a *consumption* of a modifier word that can be followed by a name parser (`parse_class_element_name`, `parse_property_name`,
`parse_binding_pattern`) before any other token is required is dominated by a call of a *peeker* - a function that takes a lexer checkpoint,
reads the next token and restores, without advancing.  Consumptions:
  F1  `match_token(&TokenKind::M)`            (check-and-advance in one call: no room for a look-ahead)
  F2  `advance()` dominated by the true edge of `check(&TokenKind::M)` / `check_keyword("get"|"set")`, or by a `match self.current.kind` arm
      that only modifier kinds reach.
A wrapper whose own `advance()` is dominated by a peeker call (`match_modifier`) is not a consumption site: it is the accepted idiom.
"""
import facts as F
import mir as M
from identkinds import place_key

TK = "lexer::TokenKind"
MODS = {"Static", "Abstract", "Public", "Private", "Protected", "Readonly", "Accessor", "Async", "Declare", "Override"}
MODWORDS = {"get", "set"}
NAME_PARSERS = ("::parse_class_element_name", "::parse_property_name", "::parse_binding_pattern", "::check_ambient_member_name")
NEUTRAL = ("::check", "::check_keyword", "::is_at_end", "::span_from", "::check_identifier", "::parse_decorators", "::match_token", "::parse_accessibility",
           "::match_modifier", "::advance", "::peek_is", "::clone", "::cheap_clone", "::is_keyword", "::deref", "::branch", "::from_residual", "::into", "::from")


def kind_of(f, op, depth=0):
    """variant name of a `&TokenKind::X` operand (a promoted constant behind reborrows)"""
    if op[0] == "k":
        v = op[2].get("variant") if isinstance(op[2], dict) else None
        return v.split("::")[-1] if v else None
    if op[0] not in ("c", "m") or depth > 6:
        return None
    d = f.defs().get(op[1][0], [])
    if len(d) != 1 or d[0][1] == "T":
        return None
    rv = d[0][2]
    if rv[0] == "ref":
        return kind_of(f, ["c", [rv[2][0], []]], depth + 1)
    if rv[0] == "use":
        return kind_of(f, rv[1], depth + 1)
    return None


def word_of(f, op, depth=0):
    s = M.const_str(op)
    if s is not None:
        return s
    if op[0] in ("c", "m") and depth < 6:
        d = f.defs().get(op[1][0], [])
        if len(d) == 1 and d[0][1] != "T" and d[0][2][0] == "use":
            return word_of(f, d[0][2][1], depth + 1)
        if len(d) == 1 and d[0][1] != "T" and d[0][2][0] == "ref":
            return word_of(f, ["c", [d[0][2][2][0], []]], depth + 1)
    return None


def fn_item_of(f, op, depth=0):
    """the function item behind a fn-pointer operand (`Self::peek_is_modified_name` reified into a pointer)"""
    fn = M.const_fn(op)
    if fn or op[0] not in ("c", "m") or depth > 4:
        return fn
    d = f.defs().get(op[1][0], [])
    if len(d) == 1 and d[0][1] != "T":
        rv = d[0][2]
        if rv[0] == "cast":
            return fn_item_of(f, rv[2], depth + 1)
        if rv[0] == "use":
            return fn_item_of(f, rv[1], depth + 1)
    return None


def true_target(f, call_block):
    """block entered when the bool returned by the call in `call_block` is true (through `!` and copies)"""
    t = f.blocks[call_block]["t"]
    if t[0] != "call" or t[4] is None or t[4] < 0:
        return None
    cur = t[3][0]
    b = t[4]
    neg = False
    for _ in range(4):
        bl = f.blocks[b]
        for s in bl["s"]:
            if s[0] == "a" and s[2][0] == "un" and s[2][1] == "Not" and s[2][2][0] in ("c", "m") and s[2][2][1][0] == cur:
                cur = s[1][0]
                neg = not neg
            elif s[0] == "a" and s[2][0] == "use" and s[2][1][0] in ("c", "m") and s[2][1][1][0] == cur and not s[2][1][1][1]:
                cur = s[1][0]
        sw = bl["t"]
        if sw[0] == "switch" and sw[1][0] in ("c", "m") and sw[1][1][0] == cur:
            false_t = next((x for v, x in sw[2] if v == "0"), None)
            return sw[3] if not neg else false_t
        if sw[0] == "goto":
            b = sw[1]
            continue
        return None
    return None


def peekers(fx, scope):
    """boolean look-ahead functions: they take a lexer checkpoint, read the next token and restore, without advancing - themselves, or through a
    shared core (`peek_next_kind() -> TokenKind`) that does"""
    cores = set()
    for p, g in fx.fns.items():
        if g.derived or g.closure or not scope(g):
            continue
        names = [(t[1].get("d") or "") for _, t in g.calls()]
        if any(n.endswith("::checkpoint") for n in names) and any(n.endswith("::restore") for n in names) and not any(n.endswith("::advance") for n in names):
            cores.add(p)
    out = {p for p in cores if fx.tys(fx.fns[p].sig[-1]) == "bool"}
    for p, g in fx.fns.items():
        if g.derived or g.closure or not scope(g) or p in cores or fx.tys(g.sig[-1]) != "bool":
            continue
        names = [(t[1].get("d") or "") for _, t in g.calls()]
        if any(n in cores for n in names) and not any(n.endswith("::advance") for n in names):
            out.add(p)
    return out


def name_follows(fx, f, start, wrappers):
    """from block `start`, is a name parser the next thing that needs a token (modifier / optional-token consumptions may come first)?"""
    seen = set()
    work = [start]
    helper_like = all(not ("Parser" in (t[1].get("d") or "") and t[1].get("local")) or (t[1].get("d") or "").endswith(NEUTRAL) or (t[1].get("d") or "") in wrappers
                      or "::peek" in (t[1].get("d") or "") for _, t in f.calls())
    while work:
        b = work.pop()
        if b in seen or b is None or b < 0:
            continue
        seen.add(b)
        t = f.blocks[b]["t"]
        if t[0] in ("ret", "return"):
            if helper_like:
                return True         # a modifier-consuming helper (only tests / advances / look-aheads): the name is parsed by the caller
            continue
        if t[0] == "call":
            d = t[1].get("d") or ""
            if d.endswith(NAME_PARSERS):
                return True
            local = t[1].get("local")
            if local and not d.endswith(NEUTRAL) and d not in wrappers and "Parser" in d:
                continue            # some other parser function wants its own token first
        for s in f.succ(b):
            work.append(s)
    return False


def sites(fx, scope, tk=TK):
    """(fn, form, word, span, ok)"""
    pk = peekers(fx, scope)
    out = []
    # wrappers: functions taking a &TokenKind (or the word) whose own advance() cannot be reached without a look-ahead call - a peeker, or a
    # look-ahead handed in as a function pointer (`match_accessor_word(word, names_follow: fn(&mut Self) -> bool)`), checked at the call sites.
    # Reachability is path sensitive in boolean temporaries: `let m = self.check(k) && self.peek(); if m { self.advance() }`
    wrappers = set()
    fnptr_wrappers = {}     # path -> index (0-based, among call arguments) of the look-ahead parameter
    for p, g in fx.fns.items():
        if g.derived or g.closure or not scope(g) or p in pk:
            continue
        adv = [bi for bi, t in g.calls() if (t[1].get("d") or "").endswith("::advance")]
        if not adv or not any("TokenKind" in fx.tys(t) or fx.tys(t) == "&str" for t in g.sig[:-1]):
            continue
        peek_blocks = {bi for bi, t in g.calls() if (t[1].get("d") or "") in pk}
        ind = {}
        for bi, bl in enumerate(g.blocks):
            t = bl["t"]
            if t[0] == "call" and not t[1].get("d") and isinstance(t[1].get("op"), list) and t[1]["op"][0] in ("c", "m"):
                import c10
                root = c10.copy_root_local(g, t[1]["op"][1][0])
                if 1 <= root <= g.argc:
                    ind[bi] = root - 1
        if peek_blocks:
            free = M.reach_bool_sensitive(fx, g, [0], stop=peek_blocks)
            if not any(a in free and a not in peek_blocks for a in adv):
                wrappers.add(p)
                continue
        if ind:
            free = M.reach_bool_sensitive(fx, g, [0], stop=set(ind))
            if not any(a in free and a not in ind for a in adv) and len(set(ind.values())) == 1:
                fnptr_wrappers[p] = next(iter(ind.values()))
    for p, f in sorted(fx.fns.items()):
        if f.derived or f.closure or not scope(f) or p in pk or p in wrappers or p in fnptr_wrappers:
            continue
        calls = list(f.calls())
        pcs = [t[4] for bi, t in calls if (t[1].get("d") or "") in pk and t[4] is not None and t[4] >= 0]
        # F1
        for bi, t in calls:
            d = t[1].get("d") or ""
            if d.endswith("::match_token") and len(t[2]) >= 2:
                k = kind_of(f, t[2][1])
                if k in MODS and t[4] is not None and t[4] >= 0 and name_follows(fx, f, t[4], wrappers):
                    out.append((f, "match_token", k.lower(), t[6], False))
            if d in wrappers and len(t[2]) >= 2:
                k = kind_of(f, t[2][1])
                w = k.lower() if k in MODS else (word_of(f, t[2][1]) if word_of(f, t[2][1]) in MODWORDS else None)
                if w:
                    out.append((f, d.split("::")[-1], w, t[6], True))
            if d in fnptr_wrappers and len(t[2]) > fnptr_wrappers[d]:
                k = kind_of(f, t[2][1]) if len(t[2]) > 1 else None
                w = k.lower() if k in MODS else (word_of(f, t[2][1]) if len(t[2]) > 1 and word_of(f, t[2][1]) in MODWORDS else None)
                if w:
                    fn = fn_item_of(f, t[2][fnptr_wrappers[d]])
                    out.append((f, d.split("::")[-1], w, t[6], fn in pk))
        # F2
        gates = []          # (word, block from which the word is known to be the current token)
        switch_gates = []   # (words, switch block, blocks also reachable when the current token is something else)
        for bi, t in calls:
            d = t[1].get("d") or ""
            if d.endswith("Parser::<'a>::check") and len(t[2]) >= 2:
                k = kind_of(f, t[2][1])
                if k in MODS:
                    tt = true_target(f, bi)
                    if tt is not None:
                        gates.append((k.lower(), tt))
            elif d.endswith("::check_keyword") and len(t[2]) >= 2:
                w = word_of(f, t[2][1])
                if w in MODWORDS:
                    tt = true_target(f, bi)
                    if tt is not None:
                        gates.append((w, tt))
        for sb, en, place, arms, other, rest in M.enum_switches(fx, f):
            if en != tk:
                continue
            mods = {v for v in arms if v in MODS}
            if not mods or not place or "current" not in place_key(f, place)[1]:
                continue
            # blocks reachable from the switch through a non-modifier arm (or the fall-through): there the word is not known
            loose = set()
            work = [tgt for v, tgt in arms.items() if v not in MODS] + ([other] if other is not None else [])
            while work:
                b = work.pop()
                if b in loose or b == sb:
                    continue
                loose.add(b)
                work.extend(f.succ(b))
            switch_gates.append(("/".join(sorted(v.lower() for v in mods)), sb, loose))
            # `matches!(kind, A | B)`: the arms only set a bool that a later block tests - the gate is that test's true edge
            for tgt in {arms[v] for v in mods}:
                if {v for v, t2 in arms.items() if t2 == tgt} - MODS:
                    continue
                bl = f.blocks[tgt]
                sets = [st for st in bl["s"] if st[0] == "a" and not st[1][1] and st[2][0] == "use" and M.const_int(st[2][1]) == 1]
                if len(sets) == 1 and bl["t"][0] == "goto":
                    j = f.blocks[bl["t"][1]]["t"]
                    if j[0] == "switch" and j[1][0] in ("c", "m") and j[1][1][0] == sets[0][1][0]:
                        tt = j[3] if not any(v == "1" for v, _ in j[2]) else next(x for v, x in j[2] if v == "1")
                        gates.append(("/".join(sorted(v.lower() for v in mods)), tt))
        for bi, t in calls:
            d = t[1].get("d") or ""
            if not d.endswith("::advance"):
                continue
            hit = next((w for w, g in gates if f.dominates(g, bi)), None)
            if hit is None:
                hit = next((w for w, sb, loose in switch_gates if f.dominates(sb, bi) and bi not in loose), None)
            if hit is not None and t[4] is not None and t[4] >= 0 and name_follows(fx, f, t[4], wrappers):
                ok = any(f.dominates(pb, bi) for pb in pcs)
                out.append((f, "advance", hit, t[6], ok))
    return out, pk, wrappers | set(fnptr_wrappers)
