"""C05 - every source text is accepted or rejected cleanly, in bounded time.

Decided, for the functions reachable from Interpreter::prepare / Parser::parse_program /
Compiler::compile_program (lexer, parser, compiler):
  R1 panic sources: explicit panic entry points (none allowed) and checked narrow arithmetic
     (u8/u16) that is not range-safe (shared machinery with C10);
  R2 unbounded native recursion: every recursive cycle of the parser has a depth guard; cycles of
     the compiler / hoister recurse over the AST and are bounded once the parser is;
  R3 exponential speculation: no function takes a lexer checkpoint, runs a sub-parser P1 that can
     reach the function itself, restores, and then runs a P2 that can reach it too (T(n) >= 2T(n-1));
  R4 loop progress: every natural loop of the lexer and parser has, on every cycle, an exit test that
     queries the input state or a progress edge (token present / not at end) - a cycle that can only
     be left through local flags spins at end of input.
Not decided: the polynomial degree of accepted speculation; allocation size of the AST; inputs
above 2^32 bytes.
"""
import re

from common import Check
import facts as F
import mir as M
import loops as L
import c10
import c06

FRONT = ("src/lexer.rs", "src/parser.rs")
COMPILER = ("src/compiler/",)
ROOTS = ["interpreter::Interpreter::prepare", "parser::Parser::<'a>::parse_program", "compiler::Compiler::compile_program",
         "compiler::Compiler::compile_program_with_source"]
PANIC = re.compile(r"^(core::panicking::panic|std::rt::begin_panic|core::option::unwrap_failed|core::result::unwrap_failed|core::option::expect_failed|core::slice::index::slice_|core::str::slice_error)|::(unwrap|expect)$")


def run(tier):
    ck = Check("C05", tier, "panic-site and narrow-arithmetic inventory over the front end, recursive SCCs with depth-guard recognition, checkpoint/restore self-reachability, natural-loop gate/progress-edge analysis",
               ["the polynomial degree of the speculation that is accepted", "memory used by the AST / bytecode", "inputs larger than 2^32 bytes"])
    fx = F.load("A")
    ck.configs.append("A: cargo +nightly check --lib --features c-api")
    for r in ROOTS:
        ck.anchor(r in fx.fns, "entry point " + r)
    closure = M.reachable_fns(fx, [r for r in ROOTS if r in fx.fns])
    front = [f for f in fx.fns.values() if f.file.endswith(FRONT) or f.file.startswith(COMPILER)]
    ck.anchor(len(front) > 400, "front-end functions (%d)" % len(front))

    # ---------------- R1b index expressions (zero-expected; shared with C06 R5c; fixture controls)
    import indexpanic
    front_files = {g.file for g in front}
    indexpanic.rule(fx, ck, "R1b.index-panics", lambda g: g.file in front_files, "a source text must not abort the host")
    cf = indexpanic.control(F.load_fixture())
    if cf:
        ck.closed_fail.append(cf)
    # ---------------- R1
    ck.rule("R1.panic-sources", "no explicit panic entry point and no unsafe narrow arithmetic in lexer / parser / compiler", floor=300)
    for f in front:
        bad = []
        for bi, t in f.calls():
            d = t[1].get("d", "")
            if PANIC.search(d):
                bad.append((d, t[6]))
        ck.instance("R1.panic-sources", f.path, None, ok=not bad)
        for d, sp in bad:
            ck.finding("R1.panic-sources", "R1.panic-sources/%s/%s" % (f.parent, d.split("::")[-1]), F.short_span(sp),
                       "`%s` can reach `%s` while preparing a source text: a panic aborts the embedding process" % (f.parent, d))
    per = {}
    for f, kind, a, b, root, ok, sp, _stmt in c10.sites(fx, scope=("src/compiler/", "src/parser.rs", "src/lexer.rs")):
        if kind != "arith":
            continue
        ident = "%s/%s %s" % (f.parent, a, b)
        k = per[ident] = per.get(ident, 0) + 1
        safe = ok or ((f.parent, b) in c10.ARITH_SAFE and c10.arith_side_condition(fx, f, b)) or precedence_arith_safe(fx, f)
        ck.instance("R1.panic-sources", "%s#%d" % (ident, k), F.short_span(sp), ok=safe)
        if not safe:
            ck.finding("R1.panic-sources", "R1.narrow-arith/%s#%d" % (ident, k), F.short_span(sp),
                       "`%s`: checked %s on %s values overflows for a construct with more than 255 parts: prepare() panics (debug builds) instead of returning an error" % (f.parent, b, a))

    # ---------------- R1c multiplicative accumulators.  A counter that grows by one per input character needs 2^32 characters to overflow (not
    # decided, see above); a value that is *multiplied* in a loop overflows after a few dozen iterations whatever its width (`code = code * 16 +
    # digit` over the digits of `\u{...}`: nine hex digits).  The front end reads numbers through parsers that report failure; it has no
    # overflow-checked multiplication inside a loop.
    import loops as L5
    ck.rule("R1c.no-multiplicative-accumulator", "no overflow-checked multiplication inside a loop of the lexer / parser / compiler (a digit accumulator panics on a long digit run)", floor=10)
    for f in front:
        if f.derived:
            continue
        lb = set()
        for hd, body in L5.natural_loops(f):
            lb |= body
        for bi, bl in enumerate(f.blocks):
            t = bl["t"]
            if t[0] == "assert" and str(t[1]).startswith("Overflow") and bi in lb and not bl["c"]:
                mul = str(t[1]).split(":")[1] in ("Mul", "Shl")
                ck.instance("R1c.no-multiplicative-accumulator", "%s: checked %s in a loop" % (f.path, str(t[1]).split(":")[1]), F.short_span(t[8]), ok=not mul, nontrivial=mul)
                if mul:
                    ck.finding("R1c.no-multiplicative-accumulator", "R1c.no-multiplicative-accumulator/%s" % (f.parent if f.closure else f.path), F.short_span(t[8]),
                               "`%s` multiplies a %s inside a loop with overflow checking: a run of digits long enough (nine hex digits for a u32) makes prepare() panic in "
                               "debug builds and wrap to a wrong value in release builds (`\"\\u{100000041}\"` reads as \"A\")" % (f.path, fx.tys(t[7]) if t[7] is not None else "integer"))

    # ---------------- R2
    ck.rule("R2.recursion", "recursive cycles of the parser are depth guarded (cycles of the compiler recurse over the AST, which the parser bounds)", floor=8)
    parser_guarded = True
    comps = [c for c in c06.sccs(fx) if c[0].startswith(("parser::", "lexer::", "compiler::"))]
    from common import load_known
    known_r2 = {k[1].split("/", 1)[1] for k in load_known() if k[0] == "C05" and k[1].startswith("R2.recursion/")}
    for comp in comps:
        # a cycle keeps the name under which it is already listed, whatever helper is extracted from it later
        key = next((p for p in comp if p in known_r2), None) or comp[0]
        if key.startswith(("parser::", "lexer::")):
            g = c06.depth_guarded(fx, comp) or counter_guarded(fx, comp)
            if not g and not consumes_tokens(fx, comp):
                ck.instance("R2.recursion", "%s (+%d): recursion over the AST (no token consumed in the cycle), bounded by the parser's nesting depth" % (key, len(comp) - 1), F.short_span(fx.fns[key].span))
                continue
            ck.instance("R2.recursion", "%s (+%d)" % (key, len(comp) - 1), F.short_span(fx.fns[key].span), ok=g)
            if not g:
                parser_guarded = False
                ck.finding("R2.recursion", "R2.recursion/" + key, F.short_span(fx.fns[key].span),
                           "the parser cycle starting at `%s` (%d functions) recurses once per nesting level with no depth limit: deeply nested input overflows the native stack and aborts the process" % (key, len(comp)))
    for comp in comps:
        key = comp[0]
        if key.startswith("compiler::"):
            g = c06.depth_guarded(fx, comp) or counter_guarded(fx, comp)
            ck.instance("R2.recursion", "%s (+%d): recursion over the AST%s" % (key, len(comp) - 1, "" if g or parser_guarded else "; unbounded only because the parser is (reported there)"), F.short_span(fx.fns[key].span))

    # ---------------- R3
    ck.rule("R3.speculation", "no function re-parses with a self-reaching sub-parser after restoring a checkpoint taken around another self-reaching sub-parser", floor=6)
    reach_cache = {}

    def reaches(p, target):
        if p not in reach_cache:
            reach_cache[p] = M.reachable_fns(fx, [p])
        return target in reach_cache[p]
    import c03
    _, er, _, _ = c03.erasable(fx)
    EXPR = "parser::Parser::<'a>::parse_assignment_expression"
    ck.anchor(EXPR in fx.fns, "Parser::parse_assignment_expression (the general value-expression parser)")
    WRAP = ("std::", "core::", "alloc::", "error::JsError")

    def type_side(p):
        g = fx.fns.get(p)
        if g is None:
            return False
        adts = {a for a in M.adts_in_type(fx, g.locals[0]) if not a.startswith(WRAP)}
        return bool(adts) and adts <= er
    callees, _ = fx.callgraph()
    vr_cache = {}

    def value_reach(p):
        """functions reachable from p without entering a function that returns type syntax"""
        if p not in vr_cache:
            seen = set()
            work = [p]
            while work:
                x = work.pop()
                if x in seen:
                    continue
                seen.add(x)
                if type_side(x) and x != p:
                    continue
                work.extend(callees.get(x, ()))
            vr_cache[p] = seen
        return vr_cache[p]

    def value_reaches_expression(p):
        return not type_side(p) and EXPR in value_reach(p)
    nrest = 0
    for f in fx.fns.values():
        rs = [bi for bi, t in f.calls() if re.search(r"Lexer::<'a>::restore$", t[1].get("d", ""))]
        cs = [bi for bi, t in f.calls() if re.search(r"Lexer::<'a>::checkpoint$", t[1].get("d", ""))]
        if not rs:
            continue
        nrest += 1
        P1, P2 = set(), set()
        preds = f.preds()
        for r in rs:
            can = set()
            work = [r]
            while work:
                x = work.pop()
                if x in can:
                    continue
                can.add(x)
                work.extend(preds[x])
            for c in cs:
                for b in (({c} | f.reachable_from(c)) & can):
                    t = f.blocks[b]["t"]
                    if t[0] == "call" and t[1].get("local") and b not in (c, r):
                        P1.add(t[1]["d"])
            for b in f.reachable_from(r):
                t = f.blocks[b]["t"]
                if t[0] == "call" and t[1].get("local"):
                    P2.add(t[1]["d"])
        p1 = sorted(p for p in P1 if reaches(p, f.parent))
        p2 = sorted(p for p in P2 if reaches(p, f.parent))
        bad = bool(p1) and bool(p2)
        # the rolled-back region must not contain a whole value expression: whoever parses the text again after
        # the restore (this function or a caller further up) descends into the same nested expressions, so a
        # speculation that itself nests through the expression grammar doubles the work per level.  Type syntax
        # is the intended subject of these speculations: paths through a function that returns type AST stop.
        vp1 = sorted(p for p in P1 if value_reaches_expression(p))
        bad2 = bool(vp1) and f.parent in value_reach(vp1[0])
        ck.instance("R3.speculation", f.path, F.short_span(f.span), ok=not (bad or bad2))
        if bad:
            ck.finding("R3.speculation", "R3.speculation/" + f.parent, F.short_span(f.span),
                       "`%s` speculatively runs %s, restores the lexer, then runs %s; both can re-enter `%s`, so each nesting level doubles the work (2^n)"
                       % (f.parent, ", ".join(p.split("::")[-1] for p in p1[:3]), ", ".join(p.split("::")[-1] for p in p2[:3]), f.parent.split("::")[-1]))
        elif bad2:
            ck.finding("R3.speculation", "R3.speculation/" + f.parent, F.short_span(f.span),
                       "`%s` rolls the lexer back over %s, which parses whole value expressions (it reaches %s and, through it, `%s` again without passing a type parser): "
                       "an error deep inside nested occurrences makes every level parse its contents twice (2^n)"
                       % (f.parent, ", ".join(p.split("::")[-1] for p in vp1[:3]), EXPR.split("::")[-1], f.parent.split("::")[-1]))
    ck.anchor(nrest >= 6, "functions restoring a lexer checkpoint (%d)" % nrest)

    # ---------------- R4
    ck.rule("R4.loop-progress", "every natural loop of the lexer / parser has an input-state gate or a progress edge on every cycle", floor=50)
    for f in fx.fns.values():
        if not f.file.endswith(FRONT):
            continue
        for h, body in L.natural_loops(f):
            bad = L.unguarded_cycle(fx, f, h, body)
            where = c06.loop_span(f, h, body)
            ck.instance("R4.loop-progress", "%s loop (%d blocks)" % (f.path, len(body)), where, ok=not bad)
            if bad:
                ck.finding("R4.loop-progress", "R4.loop-progress/%s/%s" % (f.parent, c06.loop_key(f, h, body)), where,
                           "a loop in `%s` has a cycle whose only exits test local flags / counters, never the input state: at end of input (where advance() "
                           "no longer consumes) it never terminates" % f.parent)
    ck.assume("token-present tests (check / match_token / char classes) are false at end of input, and loop bodies entered through them consume a token")
    return ck.finish()


def precedence_arith_safe(fx, f):
    """`prec + 1` in parse_binary_expression: prec comes from current_binary_op(), every result tuple of
    which carries a literal precedence (checked: all tuple aggregates there have a constant u8 < 255)"""
    if not f.path.endswith("parse_binary_expression"):
        return False
    g = [x for x in fx.fns.values() if x.path.endswith("Parser::<'a>::current_binary_op")]
    if len(g) != 1:
        return False
    n = 0
    for bl in g[0].blocks:
        for s in bl["s"]:
            if s[0] == "a" and s[2][0] == "agg" and s[2][1].get("k") == "tuple" and len(s[2][2]) == 3:
                v = M.const_int(s[2][2][1])
                if v is None or v >= 255:
                    return False
                n += 1
    return n >= 10


def consumes_tokens(fx, comp):
    """does the cycle consume input (some member calls the parser's advance / the lexer)?"""
    for p in comp:
        for f in fx.body_group(fx.fns[p]) if p in fx.fns else []:
            for bi, t in f.calls():
                d = t[1].get("d", "")
                if d.endswith(("Parser::<'a>::advance", "Lexer::<'a>::next_token", "Lexer::<'a>::advance")):
                    return True
    return False


def counter_guarded(fx, comp):
    """a depth counter kept in a field: some function of the cycle increments a `*depth*` field of self and
    compares it against a constant"""
    for p in comp:
        for f in fx.body_group(fx.fns[p]) if p in fx.fns else []:
            inc = cmpc = False
            for bl in f.blocks:
                for s in bl["s"]:
                    if s[0] == "a":
                        for pl in F.rvalue_places(s[2]):
                            if any("depth" in x[2] for x in F.place_fields(pl)):
                                if s[2][0] == "bin" and s[2][1].startswith("Add"):
                                    inc = True
                                if s[2][0] == "bin" and s[2][1] in ("Gt", "Ge", "Lt", "Le"):
                                    cmpc = True
            if inc and cmpc:
                return True
    return False
