"""Reporting, known-findings and evidence for the tsrun static checks."""
import json
import os
import re
import sys
import time

VERIF = os.path.dirname(os.path.dirname(os.path.abspath(__file__)))
KNOWN = os.path.join(VERIF, "known_findings.json")
EVID = os.path.join(VERIF, "evidence")
if os.environ.get("TSRUN_REPO", "/repo").rstrip("/") != "/repo":
    # a run against a scratch copy (seed evaluation) must not overwrite the evidence of /repo
    EVID = os.path.join(os.environ.get("TMPDIR", "/tmp"), "verif-evidence-scratch")


def load_known():
    try:
        with open(KNOWN) as fh:
            d = json.load(fh)
    except FileNotFoundError:
        return {}
    out = {}
    for e in d.get("findings", []):
        out[(e["property"], e["key"])] = e
    return out


EXTRA = []     # summaries of additional configuration passes (thorough tier), merged into the evidence
DRY = [False]  # a dry pass computes its verdict but leaves evidence and violation files alone


class Check:
    """Collects rule instances, findings and obligations for one property run."""

    def __init__(self, pid, tier, technique, not_decided):
        self.pid = pid
        self.tier = tier
        self.technique = technique
        self.not_decided = not_decided
        self.t0 = time.time()
        self.rules = {}          # rule -> dict(desc, instances, nontrivial(set), samples, floor)
        self.findings = []       # (rule, key, where, msg, detail)
        self.assumptions = []
        self.anchors = []
        self.configs = []
        self.notes = []
        self.obligations = 0
        self.discharged = 0
        self.closed_fail = []

    # ---- bookkeeping
    def rule(self, name, desc, floor=0):
        r = self.rules.setdefault(name, {"desc": desc, "instances": 0, "nontrivial": set(), "samples": [], "floor": floor})
        r["desc"] = desc
        r["floor"] = max(r["floor"], floor)
        return r

    def instance(self, rule, ident, where=None, nontrivial=True, ok=True):
        """One examined instance of `rule` (ident must be line-number free)."""
        r = self.rules[rule]
        r["instances"] += 1
        if nontrivial:
            r["nontrivial"].add(ident)
        if len(r["samples"]) < 6:
            r["samples"].append({"instance": ident, "where": where, "verdict": "ok" if ok else "finding"})
        self.obligations += 1
        if ok:
            self.discharged += 1

    def anchor(self, ok, what):
        self.anchors.append(what)
        if not ok:
            self.closed_fail.append("anchor missing: " + what)
        return ok

    def finding(self, rule, key, where, msg, detail=None):
        self.findings.append((rule, key, where, msg, detail))

    def assume(self, s):
        if s not in self.assumptions:
            self.assumptions.append(s)

    def note(self, s):
        self.notes.append(s)

    # ---- verdict
    def finish(self):
        known = load_known()
        viol = []
        knownhits = []
        # floors: a rule that saw fewer instances than were confirmed by hand fails closed
        for name, r in self.rules.items():
            if r["instances"] < r["floor"]:
                self.closed_fail.append("rule %s examined %d instances, fewer than the %d confirmed by hand (rule lost its subject)"
                                        % (name, r["instances"], r["floor"]))
        seen_keys = set()
        for (rule, key, where, msg, detail) in self.findings:
            if key in seen_keys:
                continue
            seen_keys.add(key)
            k = known.get((self.pid, key))
            if k is not None:
                knownhits.append((key, where, k.get("what_fails", msg)))
            else:
                viol.append((rule, key, where, msg, detail))
        if DRY[0]:
            # floors and anchors are calibrated on configuration A (which contains src/ffi); the extra
            # pass only looks for rule findings that exist in the other configuration alone
            self.closed_fail = []
        for cf in self.closed_fail:
            viol.append(("fail-closed", "fail-closed/" + re.sub(r"[^A-Za-z0-9_.:<>-]+", "_", cf)[:80], None, cf, None))
        if DRY[0]:
            n = sum(r["instances"] for r in self.rules.values())
            EXTRA.append({"configuration": list(self.configs), "rule_instances": n, "known_findings": len(knownhits),
                          "violations": [{"rule": v[0], "key": v[1], "where": v[2], "message": v[3]} for v in viol]})
            for (rule, key, where, msg, detail) in viol:
                print("  [extra configuration] rule=%s key=%s at %s: %s" % (rule, key, where, msg))
            return 1 if viol else 0
        os.makedirs(os.path.join(EVID, "violations"), exist_ok=True)
        # clean old violation files of this property
        vdir = os.path.join(EVID, "violations")
        for f in os.listdir(vdir):
            if f.startswith(self.pid + "-"):
                os.unlink(os.path.join(vdir, f))
        for key, where, what in knownhits:
            print("KNOWN-FINDING: property=%s %s %s%s" % (self.pid, key, what, (" [" + where + "]") if where else ""))
        for i, (rule, key, where, msg, detail) in enumerate(viol):
            p = os.path.join(vdir, "%s-%03d.json" % (self.pid, i))
            with open(p, "w") as fh:
                json.dump({"property": self.pid, "rule": rule, "key": key, "where": where, "message": msg, "detail": detail,
                           "rule_description": self.rules.get(rule, {}).get("desc")}, fh, indent=1)
            print("VIOLATION property=%s replay=%s" % (self.pid, p))
            print("  rule=%s key=%s at %s: %s" % (rule, key, where, msg))
        stale = [k for (p, k) in known if p == self.pid and k not in seen_keys]
        for k in stale:
            print("NOTE: listed known finding not observed on this tree: %s" % k)
        ev = self.evidence(len(viol), knownhits, stale)
        os.makedirs(EVID, exist_ok=True)
        with open(os.path.join(EVID, self.pid + ".json"), "w") as fh:
            json.dump(ev, fh, indent=1)
        n = sum(r["instances"] for r in self.rules.values())
        print("%s %s: %d rule instances over %d rules, %d known findings, %d violations, %.1fs"
              % (self.pid, self.tier, n, len(self.rules), len(knownhits), len(viol), time.time() - self.t0))
        return 1 if viol else 0

    def evidence(self, nviol, knownhits, stale):
        rules = {}
        samples = []
        total = 0
        nontriv = 0
        for name, r in self.rules.items():
            rules[name] = {"description": r["desc"], "instances": r["instances"], "distinct": len(r["nontrivial"]),
                           "floor": r["floor"]}
            total += r["instances"]
            nontriv += len(r["nontrivial"])
            for s in r["samples"][:3]:
                samples.append(dict(s, rule=name))
        cov = {
            "explanation": ("static analysis of the type-checked program (MIR + ADT facts from a rustc_private driver run over "
                            "/repo's working tree with the real cargo flags); deciding method: %s. Decides structural clauses "
                            "only; see clauses_not_decided." % self.technique),
            "evaluations": max(total, 1),
            "distinct_nontrivial": nontriv,
            "rule": "one evaluation = one rule instance (a site/field/function/path on which a rule's antecedent holds); "
                    "distinct = distinct line-number-free instance keys",
            "samples": samples[:24] or [{"note": "no instances"}],
            "obligations": self.obligations,
            "discharged": self.discharged,
            "rules": rules,
            "known_findings_observed": [{"key": k, "where": w} for k, w, _ in knownhits],
            "known_findings_not_observed": stale,
            "anchors": self.anchors,
            "configurations": self.configs,
            "clauses_not_decided": self.not_decided,
            "notes": self.notes,
            "fail_closed": self.closed_fail,
            "additional_configurations": list(EXTRA),
            "exhaustive": True,
        }
        return {
            "property_id": self.pid,
            "tier": self.tier,
            "seed": int(os.environ.get("VERIF_SEED", "0") or 0),
            "level": "other",
            "coverage": cov,
            "assumptions": self.assumptions,
            "wall_s": round(time.time() - self.t0, 2),
            "violations": nviol,
        }
