"""C16 R5: a double becomes an integer of the document only inside that integer type's range.

`x as i64` saturates: every double at or above 2^63 becomes i64::MAX, every double above 2^64 becomes u64::MAX as u64.  Where the
result of such a cast is the number written to a JSON document (`serde_json::Number::from(n as i64)`), the cast must be dominated by
comparisons of the same value with constants that keep it inside the type: `x >= -2^(N-1)` and `x < 2^(N-1)` (signed), `x >= 0` and
`x < 2^N` (unsigned).  Constants are evaluated as doubles (`i64::MAX as f64` is 2^63, so `x <= i64::MAX as f64` is not a bound).
"""
import facts as F
from c09 import edge_dominates, ancestors
import c10

BITS = {"i8": (8, True), "i16": (16, True), "i32": (32, True), "i64": (64, True), "isize": (64, True),
        "u8": (8, False), "u16": (16, False), "u32": (32, False), "u64": (64, False), "usize": (64, False)}


def const_float(fx, f, op, depth=0):
    """the double an operand always is: a float literal, an integer constant cast to float, or a copy of one"""
    if op[0] == "k":
        v = op[2] if isinstance(op[2], dict) else {}
        if "float" in v:
            try:
                return float(v["float"])
            except ValueError:
                return None
        if "int" in v:
            return float(int(v["int"]))
        return None
    if op[0] in ("c", "m") and not op[1][1] and depth < 6:
        d = f.defs().get(op[1][0], [])
        if len(d) == 1 and d[0][1] != "T":
            rv = d[0][2]
            if rv[0] == "use":
                return const_float(fx, f, rv[1], depth + 1)
            if rv[0] == "cast" and rv[1] in ("IntToFloat", "FloatToFloat", "IntToInt"):
                return const_float(fx, f, rv[2], depth + 1)
            if rv[0] == "un" and rv[1] == "Neg":
                x = const_float(fx, f, rv[2], depth + 1)
                return -x if x is not None else None
    return None


def value_sig(f, op):
    """a name for the value an operand reads that is stable across the temporaries of repeated reads (`*n`, `*n`)"""
    if op[0] not in ("c", "m"):
        return None
    pl = op[1]
    if not pl[1]:
        d = f.defs().get(pl[0], [])
        if len(d) == 1 and d[0][1] != "T" and d[0][2][0] == "use" and d[0][2][1][0] in ("c", "m"):
            return value_sig(f, d[0][2][1])
        if len(d) == 1 and d[0][1] == "T" and (d[0][2][1].get("d") or "").endswith(("f64::<impl f64>::abs", "::abs")):
            return None  # |x| is another value: its bounds are handled by the caller
    return c10.place_sig(f, pl)


def guards(fx, f):
    """[(block, sig, op, constant, true_target, false_target)] comparisons of a value with a constant double that steer a switch"""
    out = []
    for bi, bl in enumerate(f.blocks):
        t = bl["t"]
        if t[0] != "switch" or t[1][0] not in ("c", "m") or t[1][1][1]:
            continue
        for s in bl["s"]:
            if s[0] == "a" and not s[1][1] and s[1][0] == t[1][1][0] and s[2][0] == "bin" and s[2][1] in ("Lt", "Le", "Gt", "Ge"):
                a, b = s[2][2], s[2][3]
                ca, cb = const_float(fx, f, a), const_float(fx, f, b)
                zero = [tb for v, tb in t[2] if v == "0"]
                if not zero:
                    continue
                tt, ft = t[3], zero[0]
                op = s[2][1]
                if cb is not None and ca is None:
                    out.append((bi, value_sig(f, a), op, cb, tt, ft))
                elif ca is not None and cb is None:
                    flip = {"Lt": "Gt", "Le": "Ge", "Gt": "Lt", "Ge": "Le"}[op]
                    out.append((bi, value_sig(f, b), flip, ca, tt, ft))
    return out


NEG = {"Lt": "Ge", "Le": "Gt", "Gt": "Le", "Ge": "Lt"}


def sites(fx, scope, sink=("<serde_json::Number as std::convert::From<",)):
    """(f, span, type, ok, why) for every float->int cast whose result is written to a document as a number"""
    for p, f in sorted(fx.fns.items()):
        if f.derived or not scope(f):
            continue
        sinks = [(bi, t) for bi, t in f.calls() if (t[1].get("d") or "").startswith(sink) and t[2] and t[2][0][0] in ("c", "m")]
        if not sinks:
            continue
        gs = None
        for bi, bl in enumerate(f.blocks):
            for s in bl["s"]:
                if not (s[0] == "a" and s[2][0] == "cast" and s[2][1] == "FloatToInt" and not s[1][1]):
                    continue
                if not any(s[1][0] in ancestors(f, t[2][0][1][0]) for _, t in sinks):
                    continue
                ty = fx.tys(s[2][4]) if len(s[2]) > 4 else None
                if ty not in BITS:
                    continue
                n, signed = BITS[ty]
                hi = 2.0 ** (n - 1) if signed else 2.0 ** n       # x < hi
                lo = -(2.0 ** (n - 1)) if signed else 0.0          # x >= lo   (x > lo - 1 for whole numbers)
                sig = value_sig(f, s[2][2])
                if gs is None:
                    gs = guards(fx, f)
                upper = lower = False
                for gb, gsig, op, c, tt, ft in gs:
                    if gsig is None or gsig != sig:
                        continue
                    for edge, rel in ((tt, op), (ft, NEG[op])):
                        if not edge_dominates(f, edge, bi):
                            continue
                        if (rel == "Lt" and c <= hi) or (rel == "Le" and c < hi):
                            upper = True
                        if (rel == "Ge" and c >= lo) or (rel == "Gt" and c >= lo - 1):
                            lower = True
                why = None
                if not upper:
                    why = "no dominating comparison keeps the value below 2^%d" % (n - 1 if signed else n)
                elif not lower:
                    why = "no dominating comparison keeps the value at or above %s" % ("-2^%d" % (n - 1) if signed else "0")
                yield f, s[3], ty, why is None, why
