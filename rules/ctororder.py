"""C04 E8 - a derived class constructor initialises `this` after super().

TypeScript (and ES class fields) run parameter-property assignments and instance field initialisers right after the `super(...)` call of a derived
class constructor: they may read what the base constructor set up (`y = this.x + 1`) and must not be overwritten by it
(`constructor(public x) { super() }` with a base class that also has `x`).  tsrun compiles constructors in two places: the default constructor
emits `SuperCallSpread` and then the initialisers; the explicit one compiles the user's statements in a loop.  Rule (T-SIB between the two):
in a constructor compiler that compiles user statements, some emission of the field initialisers sits inside that statement loop (so it can follow the
`super(...)` statement); in one that emits the super call itself, every initialiser emission is reachable only through that emission."""
import facts as F
import mir as M
import loops as L

INIT = "::compile_instance_field_initializer"


def emitters(fx, scope, init_suffix=INIT):
    """the initialiser emitter and the helpers that call it for a list of fields (`emit_instance_member_initializers(fc, fields, ..)`): functions that
    call it but compile no statements and emit no super call themselves"""
    out = set()
    for p, f in fx.fns.items():
        if f.derived or f.closure or not scope(f):
            continue
        if p.endswith(init_suffix):
            out.add(p)
        elif any((t[1].get("d") or "").endswith(init_suffix) for _, t in f.calls()) and not any((t[1].get("d") or "").endswith("::compile_statement_impl") for g in fx.body_group(f) for _, t in g.calls()) \
                and not any(s[0] == "a" and s[2][0] == "agg" and isinstance(s[2][1], dict) and str(s[2][1].get("v", "")).startswith("SuperCall") for bl in f.blocks for s in bl["s"]):
            out.add(p)
    return out


def is_emit(d, em, init_suffix):
    return bool(d) and (d.endswith(init_suffix) or d in em)


def subjects(fx, scope, init_suffix=INIT):
    out = []
    em = emitters(fx, scope, init_suffix)
    for p, f in sorted(fx.fns.items()):
        if f.derived or f.closure or not scope(f) or p in em:
            continue
        group = fx.body_group(f)
        if any(is_emit(t[1].get("d"), em, init_suffix) for g in group for _, t in g.calls()):
            out.append(f)
    return out


def init_sites(fx, f, init_suffix=INIT):
    """blocks of f that emit the field initialisers: direct calls (of the emitter or of a helper around it), or calls of a closure of f that does"""
    em = emitters(fx, lambda g: True, init_suffix)
    sites = [bi for bi, t in f.calls() if is_emit(t[1].get("d"), em, init_suffix)]
    clos = {g.path: g for g in fx.fns.values() if g.closure and g.parent == f.path and any(is_emit(t[1].get("d"), em, init_suffix) for _, t in g.calls())}
    for bi, t in f.calls():
        d = t[1].get("d") or ""
        if d in clos:
            sites.append(bi)
            continue
        # Fn::call / FnMut::call_mut on a local of the closure's type
        if d.endswith(("::call", "::call_mut", "::call_once")) and t[2] and t[2][0][0] in ("c", "m"):
            ty = fx.tys(f.locals[t[2][0][1][0]])
            if any(("{closure@%s:" % g.span.split("-")[0]) in ty for g in clos.values()):
                sites.append(bi)
    return sites


def rule(fx, scope, op_path="compiler::bytecode::Op", stmt_suffix="::compile_statement_impl", init_suffix=INIT):
    """[(fn, kind, ok, span, why)]"""
    out = []
    for f in subjects(fx, scope, init_suffix):
        sites = init_sites(fx, f, init_suffix)
        stmt_calls = [bi for bi, t in f.calls() if (t[1].get("d") or "").endswith(stmt_suffix)]
        supers = [bi for bi, bl in enumerate(f.blocks) for s in bl["s"]
                  if s[0] == "a" and s[2][0] == "agg" and isinstance(s[2][1], dict) and s[2][1].get("p") == op_path and str(s[2][1].get("v", "")).startswith("SuperCall")]
        if stmt_calls:
            loops = [(h, body) for h, body in L.natural_loops(f) if any(b in body for b in stmt_calls)]
            inner = min(loops, key=lambda x: len(x[1]))[1] if loops else set()
            ok = any(b in inner for b in sites)
            out.append((f, "explicit", ok, f.span, "no emission of the field initialisers inside the loop that compiles the constructor's statements: they cannot follow `super(...)`"))
        elif supers:
            # every initialiser site is reached only past a super emission (or on the path that has none: `if has_super`)
            ok = all(any(f.dominates(sb, b) or b in f.reachable_from(sb) for sb in supers) for b in sites)
            out.append((f, "default", ok, f.span, "the field initialisers are emitted before the super call"))
    return out
