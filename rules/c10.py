"""C10 - meaning does not depend on size: the width-crossing clause.

Decided: no silent narrowing in the bytecode compiler.  In src/compiler/** every integer cast to
a narrower (or sign-changing same-width) type and every checked arithmetic on u8/u16 values is an
obligation; it is discharged iff the value is range-guarded: a comparison of the same value
against a constant bound <= MAX(dst) dominates the site and the out-of-range edge cannot reach it
(`if n >= LIMIT { return Err }`), or the conversion is `try_from`/`checked_*` (then no cast exists).
Casts to u32 of instruction offsets are discharged under the stated assumption that one chunk has
fewer than 2^32 instructions.
Not decided: the non-cumulative clause (registers reserved for call arguments are never released).
"""
import re

from common import Check
import facts as F
import mir as M

W = {"u8": 8, "i8": 8, "u16": 16, "i16": 16, "u32": 32, "i32": 32, "u64": 64, "i64": 64, "usize": 64, "isize": 64}
MAXV = {"u8": 255, "i8": 127, "u16": 65535, "i16": 32767, "u32": 2**32 - 1, "i32": 2**31 - 1}
IN_SCOPE = ("src/compiler/",)


def narrowing(a, b):
    return a in W and b in W and (W[b] < W[a] or (W[b] == W[a] and a[0] != b[0] and a[0] in "ui" and b[0] in "ui" and a != b and {a, b} != {"usize", "u64"} and {a, b} != {"isize", "i64"}))


def root_of(f, local, depth=0):
    """follow single-definition copies back; returns a hashable description of the value's origin"""
    defs = f.defs().get(local, [])
    if len(defs) != 1 or depth > 8:
        return ("local", local)
    bi, si, rv = defs[0]
    if si == "T":
        d = rv[1].get("d", "?")
        if d.endswith("::len") and rv[2] and rv[2][0][0] in ("c", "m"):
            # len() of a place: identify by the borrowed place path
            ref_local = rv[2][0][1][0]
            rd = f.defs().get(ref_local, [])
            if len(rd) == 1 and rd[0][1] != "T" and rd[0][2][0] == "ref":
                return ("len", place_sig(f, rd[0][2][2]))
            return ("len", ("local", ref_local))
        return ("call", local)
    if rv[0] == "use" and rv[1][0] in ("c", "m") and not rv[1][1][1]:
        return root_of(f, rv[1][1][0], depth + 1)
    if rv[0] == "cast" and rv[1] == "IntToInt" and rv[2][0] in ("c", "m") and not rv[2][1][1]:
        # widening casts preserve the value
        return root_of(f, rv[2][1][0], depth + 1)
    if rv[0] == "use" and rv[1][0] in ("c", "m"):
        pl = rv[1][1]
        names = [e[1] if isinstance(e, list) and e[0] == "d" else (e[1] if isinstance(e, list) and e[0] == "f" else e) for e in pl[1]]
        src = f.defs().get(pl[0], [])
        if len(src) == 1 and src[0][1] == "T":
            d = src[0][2][1].get("d", "")
            args = src[0][2][2]
            # `expr?`: payload of ControlFlow::Continue of Try::branch(expr)
            if names == ["Continue", 0] and d.endswith("ops::Try>::branch") and args and args[0][0] in ("c", "m") and not args[0][1][1]:
                return root_of(f, args[0][1][0], depth + 1)
            # `(i, x)` of `for (i, x) in X.iter().enumerate()`
            if names == ["Some", 0, 0] and "Enumerate" in d and d.endswith("Iterator>::next"):
                src_place = enumerate_source(f, args[0][1][0]) if args and args[0][0] in ("c", "m") else None
                if src_place is not None:
                    return ("idx", src_place)
        return ("place", place_sig(f, pl))
    return ("local", local)


def enumerate_source(f, local, depth=0):
    """place signature of the collection behind `X.iter().enumerate()` given the iterator local"""
    if depth > 10:
        return None
    d = f.defs().get(local, [])
    if len(d) != 1:
        return None
    bi, si, rv = d[0]
    if si == "T":
        name = rv[1].get("d", "")
        a = rv[2]
        if not a or a[0][0] not in ("c", "m") or a[0][1][1]:
            return None
        if name.endswith(("::enumerate", "IntoIterator>::into_iter", "::rev", "::skip")):
            return enumerate_source(f, a[0][1][0], depth + 1)
        if name.endswith(("::iter", "::iter_mut")) or "Deref>::deref" in name:
            r = f.defs().get(a[0][1][0], [])
            if len(r) == 1 and r[0][1] != "T" and r[0][2][0] == "ref":
                return place_sig(f, r[0][2][2])
            if len(r) == 1 and r[0][1] == "T":
                return enumerate_source(f, a[0][1][0], depth + 1)
            return place_sig(f, [a[0][1][0], []])
        return None
    if rv[0] == "ref":
        pl = rv[2]
        if pl[1] in ([], ["*"]):
            return enumerate_source(f, pl[0], depth + 1) or place_sig(f, pl)
        return place_sig(f, pl)
    if rv[0] == "use" and rv[1][0] in ("c", "m"):
        if not rv[1][1][1]:
            return enumerate_source(f, rv[1][1][0], depth + 1)
        return place_sig(f, rv[1][1])
    return None


def place_sig(f, place, depth=0):
    """a place path that is stable across temporaries: named base + field names"""
    base = place[0]
    proj = []
    for e in place[1]:
        if e == "*":
            proj.append("*")
        elif isinstance(e, list) and e[0] == "f":
            proj.append("." + (e[2] or str(e[1])))
        elif isinstance(e, list) and e[0] == "d":
            proj.append("@" + e[1])
        else:
            proj.append("[]")
    name = f.var_name(base)
    if name is None and depth < 6:
        d = f.defs().get(base, [])
        if len(d) == 1 and d[0][1] == "T":
            # `&[T]` obtained by dereferencing a container: the slice is the container's contents
            call = d[0][2]
            cal = call[1].get("d", "")
            if ("Deref>::deref" in cal or cal.endswith(("::as_slice", "::as_mut_slice"))) and call[2] and call[2][0][0] in ("c", "m") and not call[2][0][1][1]:
                r = f.defs().get(call[2][0][1][0], [])
                if len(r) == 1 and r[0][1] != "T" and r[0][2][0] == "ref":
                    return place_sig(f, r[0][2][2], depth + 1) + "".join(proj[1:] if proj[:1] == ["*"] else proj)
        if len(d) == 1 and d[0][1] != "T":
            rv = d[0][2]
            if rv[0] in ("ref",):
                return place_sig(f, rv[2], depth + 1) + "".join(proj[1:] if proj[:1] == ["*"] else proj)
            if rv[0] == "use" and rv[1][0] in ("c", "m"):
                return place_sig(f, rv[1][1], depth + 1) + "".join(proj)
    return (name or "_%d" % base) + "".join(proj)


def const_bound(fx, f, op, depth=0):
    """integer value of an operand if it is a constant (possibly through casts / copies)"""
    v = M.const_int(op)
    if v is not None:
        return v
    if op[0] == "k" and isinstance(op[2], dict) and "item" in op[2]:
        c = fx.consts.get(op[2]["item"])
        if c and c.get("val") is not None:
            return int(c["val"])
        m = re.search(r"(u8|u16|u32|i32)::MAX$", op[2]["item"])
        if m:
            return MAXV[m.group(1)]
    if op[0] in ("c", "m") and not op[1][1] and depth < 5:
        d = f.defs().get(op[1][0], [])
        if len(d) == 1 and d[0][1] != "T":
            rv = d[0][2]
            if rv[0] == "use":
                return const_bound(fx, f, rv[1], depth + 1)
            if rv[0] == "cast":
                return const_bound(fx, f, rv[2], depth + 1)
    if FIELD_UPPER_BOUND is not None and op[0] in ("c", "m") and op[1][1]:
        # a field every construction of its struct bounds by `min(_, C)`: C stands in for the constant in
        # upper-bound guards (guards_for records upper bounds only, so an upper bound of the bound is sound)
        return FIELD_UPPER_BOUND(fx, f, op)
    return None


FIELD_UPPER_BOUND = None   # optional provider, installed by a rule module for the duration of one rule


def guards_for(fx, f):
    """list of (block, root, upper_bound_exclusive, in_range_target, out_of_range_target)"""
    out = []
    for bi, bl in enumerate(f.blocks):
        t = bl["t"]
        if t[0] != "switch" or t[1][0] not in ("c", "m") or t[1][1][1]:
            continue
        cl = t[1][1][0]
        d = [x for x in f.defs().get(cl, []) if x[0] == bi]
        if len(d) != 1 or d[0][1] == "T":
            continue
        rv = d[0][2]
        if rv[0] != "bin" or rv[1] not in ("Lt", "Le", "Gt", "Ge", "Eq", "Ne"):
            continue
        a, b = rv[2], rv[3]
        ca, cb = const_bound(fx, f, a), const_bound(fx, f, b)
        # switch on bool: arm value "0" = false
        false_t = next((tb for v, tb in t[2] if v == "0"), None)
        true_t = t[3] if false_t is not None else None
        if false_t is None:
            continue
        op = rv[1]
        if op in ("Eq", "Ne"):
            # x == c: on the equal edge x < c + 1
            for x_, c_ in ((a, cb), (b, ca)):
                if c_ is not None and x_[0] in ("c", "m") and not x_[1][1] and const_bound(fx, f, x_) is None:
                    eq_t, ne_t = (true_t, false_t) if op == "Eq" else (false_t, true_t)
                    out.append((bi, root_of(f, x_[1][0]), c_ + 1, eq_t, ne_t))
            continue
        if cb is not None and ca is None and a[0] in ("c", "m") and not a[1][1]:
            root = root_of(f, a[1][0])
            # x OP c
            if op == "Lt":
                out.append((bi, root, cb, true_t, false_t))
            elif op == "Le":
                out.append((bi, root, cb + 1, true_t, false_t))
            elif op == "Ge":
                out.append((bi, root, cb, false_t, true_t))
            elif op == "Gt":
                out.append((bi, root, cb + 1, false_t, true_t))
        elif ca is not None and cb is None and b[0] in ("c", "m") and not b[1][1]:
            root = root_of(f, b[1][0])
            # c OP x
            if op == "Gt":
                out.append((bi, root, ca, true_t, false_t))
            elif op == "Ge":
                out.append((bi, root, ca + 1, true_t, false_t))
            elif op == "Le":
                out.append((bi, root, ca, false_t, true_t))
            elif op == "Lt":
                out.append((bi, root, ca + 1, false_t, true_t))
    out.extend(call_guards(fx, f))
    out.extend(empty_guards(fx, f))
    return out


_range_checkers = {}


def range_checkers(fx):
    """{function path: {parameter index: exclusive upper bound}}: the function passes the parameter to
    `uN::try_from` and propagates the failure (`?` / map_err + `?`), so it returns Ok only when it fits"""
    if id(fx) in _range_checkers:
        return _range_checkers[id(fx)]
    out = {}
    for g in fx.fns.values():
        if g.closure or g.derived:
            continue
        for bi, t in g.calls():
            d = t[1].get("d", "")
            m = re.search(r"TryFrom<\w+> for (u8|u16|u32|i32)>::try_from$", d) or re.search(r"<(u8|u16|u32|i32) as std::convert::TryFrom<\w+>>::try_from$", d)
            if not m or not t[2] or t[2][0][0] not in ("c", "m") or t[2][0][1][1]:
                continue
            pi = copy_root_local(g, t[2][0][1][0])
            if not (1 <= pi <= g.argc):
                continue
            # the failure must leave the function: some Try::branch is fed (possibly via map_err) by the result
            fed = False
            work = [t[3][0]]
            seen = set()
            while work:
                l = work.pop()
                if l in seen:
                    continue
                seen.add(l)
                for b2, t2 in g.calls():
                    if any(a[0] in ("c", "m") and a[1][0] == l for a in t2[2]):
                        d2 = t2[1].get("d", "")
                        if d2.endswith("ops::Try>::branch"):
                            fed = True
                        elif d2.endswith(("::map_err", "::ok_or", "::ok_or_else")) and t2[3]:
                            work.append(t2[3][0])
                for bl in g.blocks:
                    for s_ in bl["s"]:
                        if s_[0] == "a" and s_[2][0] == "use" and s_[2][1][0] in ("c", "m") and s_[2][1][1][0] == l and not s_[1][1]:
                            work.append(s_[1][0])
            if fed:
                out.setdefault(g.path, {})[pi] = MAXV[m.group(1)] + 1
    _range_checkers[id(fx)] = out
    # derived checkers (`fn reserve_param_registers(n) { if n == 0 { return Ok(()) } window(n)?; Ok(()) }`): every path from the entry to
    # the return either crosses the in-range edge of a guard on the parameter or leaves through `?` (FromResidual)
    for _round in range(3):
        grew = False
        for g in fx.fns.values():
            if g.closure or g.derived or len(g.blocks) > 600 or not g.file.startswith("src/"):
                continue
            ints = [pi for pi in range(1, g.argc + 1) if fx.tys(g.locals[pi]) in W and pi not in g.defs() and pi not in out.get(g.path, {})]
            # a borrowed list whose length the function checks (`fn prologue(params: &[P]) { reserve(params.len())?; .. }`)
            ints += [("len", pi) for pi in range(1, g.argc + 1) if fx.tys(g.locals[pi]).startswith("&") and ("[" in fx.tys(g.locals[pi]) or "Vec<" in fx.tys(g.locals[pi]))
                     and pi not in g.defs() and ("len", pi) not in out.get(g.path, {})]
            if not ints:
                continue
            if not any(t[1].get("d") in out for _, t in g.calls()):
                continue
            guards = guards_for(fx, g)
            rets = [bi for bi, bl in enumerate(g.blocks) if bl["t"][0] == "ret"]
            residual = {bi for bi, t in g.calls() if t[1].get("d", "").endswith("FromResidual<std::result::Result<std::convert::Infallible, E>>>::from_residual")
                        or t[1].get("d", "").endswith("::from_residual")}
            for pi in ints:
                root = root_of(g, pi) if not isinstance(pi, tuple) else ("len", place_sig(g, [pi[1], ["*"]]))
                for U in (256, 65536):
                    cut = {(gb, ok_t) for (gb, groot, ub, ok_t, bad_t) in guards if groot == root and ub <= U and ok_t is not None and ok_t != bad_t}
                    if not cut:
                        continue
                    seen, work, leak = set(), [0], False
                    while work:
                        x = work.pop()
                        if x in seen:
                            continue
                        seen.add(x)
                        if x in rets:
                            leak = True
                            break
                        if x in residual:
                            continue
                        for y in g.succ(x):
                            if (x, y) not in cut:
                                work.append(y)
                    if not leak:
                        out.setdefault(g.path, {})[pi] = U
                        grew = True
                        break
        if not grew:
            break
    return out


def empty_guards(fx, f):
    """`X.is_empty()`: on the true edge len(X) < 1"""
    out = []
    for bi, t in f.calls():
        if not t[1].get("d", "").endswith("::is_empty") or t[4] is None or not t[3] or t[3][1] or not t[2] or t[2][0][0] not in ("c", "m"):
            continue
        rd = f.defs().get(t[2][0][1][0], [])
        if len(rd) == 1 and rd[0][1] != "T" and rd[0][2][0] == "ref":
            root = ("len", place_sig(f, rd[0][2][2]))
        else:
            root = ("len", place_sig(f, [t[2][0][1][0], ["*"]]))
        # the switch on the result (possibly negated) in the continuation
        b = t[4]
        neg = False
        res = t[3][0]
        for st in f.blocks[b]["s"]:
            if st[0] == "a" and st[2][0] == "un" and st[2][1] == "Not" and st[2][2][0] in ("c", "m") and st[2][2][1][0] == res and not st[1][1]:
                res = st[1][0]
                neg = not neg
        sw = f.blocks[b]["t"]
        if sw[0] != "switch" or sw[1][0] not in ("c", "m") or sw[1][1][0] != res:
            continue
        false_t = next((tb for v, tb in sw[2] if v == "0"), None)
        true_t = sw[3]
        if false_t is None:
            continue
        empty_t, nonempty_t = (false_t, true_t) if neg else (true_t, false_t)
        out.append((b, root, 1, empty_t, nonempty_t))
    return out


def call_guards(fx, f):
    """guards established by `checker(.., x, ..)?`: on the Continue edge of the `?`, x < bound"""
    rc = range_checkers(fx)
    out = []
    for bi, t in f.calls():
        summ = rc.get(t[1].get("d"))
        if not summ or t[4] is None or not t[3] or t[3][1]:
            continue
        # find the Try::branch on the result and its switch
        for b2, t2 in f.calls():
            if not t2[1].get("d", "").endswith("ops::Try>::branch") or not t2[2] or t2[2][0][0] not in ("c", "m"):
                continue
            if copy_root_local(f, t2[2][0][1][0]) != t[3][0] or t2[4] is None:
                continue
            sw = f.blocks[t2[4]]["t"]
            if sw[0] != "switch":
                continue
            arms = dict((v, tb) for v, tb in sw[2])
            ok_t = arms.get("0")
            bad_t = arms.get("1", sw[3])
            if ok_t is None or bad_t is None:
                continue
            for pi, ub in summ.items():
                # parameter pi (1-based over all parameters, self included)
                if isinstance(pi, tuple):
                    if pi[1] - 1 < len(t[2]):
                        a = t[2][pi[1] - 1]
                        if a[0] in ("c", "m") and not a[1][1]:
                            out.append((t2[4], ("len", place_sig(f, [a[1][0], ["*"]])), ub, ok_t, bad_t))
                    continue
                if pi - 1 < len(t[2]):
                    a = t[2][pi - 1]
                    if a[0] in ("c", "m") and not a[1][1]:
                        out.append((t2[4], root_of(f, a[1][0]), ub, ok_t, bad_t))
    return out


def guarded(fx, f, block, root, maxv, guards):
    for (gb, groot, ub, ok_t, bad_t) in guards:
        if root[0] == "idx" and groot == ("len", root[1]):
            # an enumerate index is < len: len < ub  =>  idx <= ub - 2
            if ub - 2 > maxv:
                continue
        elif groot != root or ub - 1 > maxv:
            continue
        if not f.dominates(gb, block):
            continue
        # the out-of-range edge must not reach the site without passing the guard again
        seen = set()
        work = [bad_t]
        hit = False
        while work:
            x = work.pop()
            if x in seen or x == gb:
                continue
            seen.add(x)
            if x == block:
                hit = True
                break
            work.extend(f.succ(x))
        if not hit:
            return True
    # several guards, none of which dominates alone (`if n > 0 { window(n)? }` then `n as u8`): the site is
    # guarded iff it cannot be reached from the entry without crossing the in-range edge of some applicable guard
    cut = set()
    for (gb, groot, ub, ok_t, bad_t) in guards:
        if root[0] == "idx" and groot == ("len", root[1]):
            if ub - 2 > maxv:
                continue
        elif groot != root or ub - 1 > maxv:
            continue
        if ok_t is not None and ok_t != bad_t:
            cut.add((gb, ok_t))
    if len(cut) >= 2:
        seen = set()
        work = [0]
        while work:
            x = work.pop()
            if x in seen:
                continue
            seen.add(x)
            if x == block:
                return False
            for y in f.succ(x):
                if (x, y) not in cut:
                    work.append(y)
        return True
    return False


def copy_root_local(f, l, depth=0):
    """follow single-definition copies / moves / widening casts back to the first local"""
    d = f.defs().get(l, [])
    if depth < 8 and len(d) == 1 and d[0][1] != "T":
        rv = d[0][2]
        op = rv[1] if rv[0] == "use" else (rv[2] if rv[0] == "cast" else None)
        if op and op[0] in ("c", "m") and not op[1][1]:
            return copy_root_local(f, op[1][0], depth + 1)
    return l


def origin_call(f, local, depth=0):
    """the call terminator producing `local`, seen through copies, widening casts and `?`"""
    d = f.defs().get(local, [])
    if len(d) != 1 or depth > 8:
        return None
    bi, si, rv = d[0]
    if si == "T":
        if rv[1].get("d", "").endswith("ops::Try>::branch") and rv[2] and rv[2][0][0] in ("c", "m"):
            return origin_call(f, rv[2][0][1][0], depth + 1)
        return rv
    if rv[0] == "use" and rv[1][0] in ("c", "m"):
        return origin_call(f, rv[1][1][0], depth + 1)
    if rv[0] == "cast" and rv[2][0] in ("c", "m"):
        return origin_call(f, rv[2][1][0], depth + 1)
    return None


def window_add_safe(fx, f, block, t, guards):
    """`start + i` where start = reserve_registers(len(X) as u8)? and i is an enumerate index over X:
    in range iff len(X) is guarded <= 255 (the allocator then guarantees start + len <= 255)."""
    ops = [o for o in t[6] if o[0] in ("c", "m") and not o[1][1]]
    if len(ops) != 2:
        return False
    for a, b in (ops, ops[::-1]):
        call = origin_call(f, a[1][0])
        if call is None or not re.search(r"::(reserve_registers|reserve_range|reserve_register_window)$", call[1].get("d", "")):
            continue
        cnt = call[2][-1]
        if cnt[0] not in ("c", "m") or cnt[1][1]:
            continue
        rc = root_of(f, cnt[1][0])
        ri = root_of(f, b[1][0])
        if rc[0] == "len" and ri == ("idx", rc[1]):
            return guarded(fx, f, block, rc, 255, guards)
    return False


def sites(fx, scope=IN_SCOPE):
    for f in fx.fns.values():
        if not f.file.startswith(scope) or f.derived:
            continue
        guards = None
        for bi, bl in enumerate(f.blocks):
            for s in bl["s"]:
                if s[0] == "a" and s[2][0] == "cast" and s[2][1] == "IntToInt":
                    a, b = fx.tys(s[2][3]), fx.tys(s[2][4])
                    if not narrowing(a, b):
                        continue
                    if guards is None:
                        guards = guards_for(fx, f)
                    op = s[2][2]
                    if op[0] == "k":
                        continue
                    root = root_of(f, op[1][0]) if not op[1][1] else ("place", place_sig(f, op[1]))
                    ok = guarded(fx, f, bi, root, MAXV.get(b, 2**63), guards)
                    yield f, "cast", a, b, root, ok, s[3], s
            t = bl["t"]
            if t[0] == "assert" and t[1].startswith("Overflow") and t[7] is not None and fx.tys(t[7]) in ("u8", "u16", "i8", "i16"):
                if guards is None:
                    guards = guards_for(fx, f)
                yield f, "arith", fx.tys(t[7]), t[1].split(":")[1], None, window_add_safe(fx, f, bi, t, guards), t[8], None


def describe(root):
    if root is None:
        return "?"
    if root[0] == "len":
        return "len(%s)" % (root[1] if isinstance(root[1], str) else "tmp")
    if root[0] == "place":
        return root[1]
    return root[0]


# arithmetic sites that are range-safe, with the checked side condition (reason)
ARITH_SAFE = {
    ("compiler::builder::RegisterAllocator::alloc", "Add"): "dominated by `self.next == 255 -> return Err`",
    ("compiler::builder::RegisterAllocator::reserve_range", "Add"): "dominated by `self.next.checked_add(count).is_none() -> return Err`",
    ("compiler::compile_expr::<impl compiler::Compiler>::compile_template_literal", "Add"):
        "`start + reg_idx` inside the window that `reserve_register_window(total_parts)?` returned; reg_idx starts at 0 and is incremented at most "
        "once per quasi and once per expression, i.e. at most total_parts times (side condition checked: every such add has the window start as "
        "one operand and the other operand is only ever assigned 0 or itself + 1)",
}


# narrowing sites whose feature is non-functional at EVERY size on this tree, so that size cannot
# change its meaning and no failing input can be isolated (reason = what was observed)
# narrowing sites of features that are non-functional at every size, keyed by what the narrowed value is stored into (not by the function that
# happens to contain the cast: extracting the loop into a helper must not change the verdict)
MASKED = {
    ("ApplyParameterDecorator", "param_index"): "parameter-decorator index: decorators receive `undefined` as index at every position",
}


def masked_consumer(fx, f, cast_stmt):
    """(Op variant, field) when the narrowed value is only stored into that operand of an instruction"""
    dst = cast_stmt[1][0]
    if cast_stmt[1][1]:
        return None
    holders = {dst}
    ch = True
    while ch:
        ch = False
        for bl in f.blocks:
            for s in bl["s"]:
                if s[0] == "a" and not s[1][1] and s[1][0] not in holders and s[2][0] == "use" and s[2][1][0] in ("c", "m") and not s[2][1][1][1] and s[2][1][1][0] in holders:
                    holders.add(s[1][0])
                    ch = True
    for bl in f.blocks:
        for s in bl["s"]:
            if s[0] == "a" and s[2][0] == "agg" and isinstance(s[2][1], dict) and str(s[2][1].get("p", "")).endswith("bytecode::Op"):
                fields = s[2][1].get("fields") or []
                for i, o in enumerate(s[2][2]):
                    if o[0] in ("c", "m") and not o[1][1] and o[1][0] in holders and i < len(fields):
                        return (s[2][1].get("v"), fields[i])
    return None


def arith_side_condition(fx, f, what):
    """check the side condition of ARITH_SAFE structurally"""
    if f.path.endswith("RegisterAllocator::alloc"):
        # an Eq comparison of .next with 255 whose true edge returns
        for bl in f.blocks:
            for s in bl["s"]:
                if s[0] == "a" and s[2][0] == "bin" and s[2][1] == "Eq" and (M.const_int(s[2][3]) == 255 or M.const_int(s[2][2]) == 255):
                    return True
        return False
    if f.path.endswith("RegisterAllocator::reserve_range"):
        return any("checked_add" in (t[1].get("d") or "") for _, t in f.calls())
    if f.path.endswith("compile_template_literal"):
        # every checked u8 add is either `counter + 1` or `window_start + counter`, where window_start is the
        # result of reserve_register_window(..)? and counter is only ever assigned 0 or itself + 1
        for bi, bl in enumerate(f.blocks):
            t = bl["t"]
            if t[0] != "assert" or not t[1].startswith("Overflow:Add") or t[7] is None or fx.tys(t[7]) != "u8":
                continue
            ops = t[6]
            if any(M.const_int(o) == 1 for o in ops):
                continue   # counter + 1
            starts = 0
            for o in ops:
                if o[0] in ("c", "m") and not o[1][1]:
                    call = origin_call(f, o[1][0])
                    if call is not None and call[1].get("d", "").endswith("::reserve_register_window"):
                        starts += 1
            if starts != 1:
                return False
        return True
    return False


def dedupe_rule(fx, scope, const_suffix="bytecode::Constant", builder="compiler::builder::BytecodeBuilder"):
    """Constant kinds that have a de-duplication map are appended to the pool only by the function that consults that map.
    (deduped kinds, [(fn, variant, span, ok)])"""
    import exits as E
    per = {}     # fn -> set of Constant variants it constructs
    consults = set()
    for p, f in fx.fns.items():
        if f.derived or not scope(f):
            continue
        top = f.parent if f.closure else f.path
        for bl in f.blocks:
            for s_ in bl["s"]:
                if s_[0] == "a" and s_[2][0] == "agg" and isinstance(s_[2][1], dict) and str(s_[2][1].get("p", "")).endswith(const_suffix) and s_[2][1].get("v"):
                    per.setdefault(top, []).append((s_[2][1]["v"], s_[3], f))
        for bi, t in f.calls():
            d = t[1].get("d") or ""
            if d.split("::")[-1] in ("get", "entry", "contains_key") and "HashMap" in d and t[2] and t[2][0][0] in ("c", "m"):
                fl = E.field_of_ref(f, t[2][0][1][0])
                if fl and fl[0] == builder:
                    consults.add(top)
    deduped = set()
    for top in consults:
        for v, sp, f in per.get(top, []):
            deduped.add(v)
    rows = []
    for top, items in sorted(per.items()):
        for v, sp, f in items:
            if v in deduped:
                rows.append((f, v, sp, top in consults))
            else:
                rows.append((f, v, sp, True))
    return deduped, rows


def run(tier):
    ck = Check("C10", tier, "cast/overflow-assert inventory over MIR of src/compiler + dominating range-guard recognition (CFG dominators, value roots)",
               ["the non-cumulative clause: registers reserved for call arguments are never released (needs counting allocator operations along all paths)",
                "behaviour of big constructs at run time (values)"])
    fx = F.load("A")
    ck.configs.append("A: cargo +nightly check --lib --features c-api")
    ck.rule("R1.narrowing", "every narrowing integer cast in src/compiler is range-guarded (or is a u32 instruction offset)", floor=22)
    ck.rule("R2.narrow-arith", "every checked u8/u16 arithmetic in src/compiler is range-safe by a checked side condition", floor=3)
    per = {}
    for f, kind, a, b, root, ok, sp, stmt in sites(fx):
        if kind == "cast":
            if b == "u32" and a == "usize":
                ck.instance("R1.narrowing", "%s/%s->%s/%s" % (f.parent, a, b, describe(root)), F.short_span(sp), ok=True)
                continue
            ident = "%s/%s->%s" % (f.parent, a, b)
            k = per[ident] = per.get(ident, 0) + 1
            mc = masked_consumer(fx, f, stmt) if not ok else None
            if mc in MASKED:
                ck.rule("R1.masked", "narrowing sites of features that are non-functional at every size (not decided; reason recorded)")
                ck.instance("R1.masked", "%s#%d" % (ident, k), F.short_span(sp))
                ck.note("masked %s#%d (Op::%s.%s): %s" % (ident, k, mc[0], mc[1], MASKED[mc]))
                continue
            ck.instance("R1.narrowing", "%s#%d" % (ident, k), F.short_span(sp), ok=ok)
            if not ok:
                ck.finding("R1.narrowing", "R1.narrowing/%s#%d" % (ident, k), F.short_span(sp),
                           "`%s`: unguarded `%s as %s` of %s - a construct with more than %d elements wraps silently (or panics in debug builds)"
                           % (f.parent, a, b, describe(root), MAXV.get(b, 0)))
        else:
            key = (f.parent, b)
            ident = "%s/%s %s" % (f.parent, a, b)
            k = per[ident] = per.get(ident, 0) + 1
            safe = ok or (key in ARITH_SAFE and arith_side_condition(fx, f, b))
            ck.instance("R2.narrow-arith", "%s#%d" % (ident, k), F.short_span(sp), ok=safe)
            if not safe:
                ck.finding("R2.narrow-arith", "R2.narrow-arith/%s#%d" % (ident, k), F.short_span(sp),
                           "`%s`: %s on %s register/count values can overflow (panic in debug, wrap in release)" % (f.parent, b, a))
    # ---------------- R3 sentinel values of narrow index types are never allocated
    ck.rule("R3.sentinel", "a narrow index value that code compares against as a 'none' sentinel (u16::MAX) is never handed out by the allocator", floor=1)
    sentinel_users = []
    for f in fx.fns.values():
        if f.derived:
            continue
        for bl in f.blocks:
            for s in bl["s"]:
                if s[0] == "a" and s[2][0] == "bin" and s[2][1] in ("Eq", "Ne") and fx.tys(s[2][4]) == "u16":
                    if const_bound(fx, f, s[2][3]) == 65535 or const_bound(fx, f, s[2][2]) == 65535:
                        sentinel_users.append((f.parent, s[3]))
    ac = fx.fns.get("compiler::builder::BytecodeBuilder::add_constant")
    if ck.anchor(ac is not None, "BytecodeBuilder::add_constant") and sentinel_users:
        pushes = [bi for bi, t in ac.calls() if t[1].get("d", "").endswith("Vec::<T, A>::push")]
        guards = guards_for(fx, ac)
        lens = [t for bi, t in ac.calls() if t[1].get("d", "").endswith("::len") and not t[3][1]]
        ok = False
        for bi in pushes:
            for t in lens:
                if guarded(fx, ac, bi, root_of(ac, t[3][0]), 65534, guards):
                    ok = True
        ck.instance("R3.sentinel", "add_constant never returns 65535 (used as sentinel by %s)" % ", ".join(sorted({u.split("::")[-1] for u, _ in sentinel_users})), F.short_span(ac.span), ok=ok)
        if not ok:
            ck.finding("R3.sentinel", "R3.sentinel/add_constant", F.short_span(ac.span),
                       "add_constant can hand out constant index 65535, which %s compare(s) against as the 'no name' sentinel (u16::MAX): a construct whose name lands on that index silently changes meaning"
                       % ", ".join(sorted({u for u, _ in sentinel_users})))
    # ---------------- R5 the constant pool grows per distinct constant, not per occurrence
    ck.rule("R5.pool-dedupe", "a Constant of a kind that has a de-duplication map (strings, numbers) is built only in the function that consults that map "
                              "(65 536 occurrences of one literal must not exhaust the u16 pool)", floor=6)
    ded5, rows5 = dedupe_rule(fx, lambda g: g.file.startswith("src/compiler"))
    ck.anchor({"String", "Number"} <= ded5, "constant kinds with a de-duplication map in BytecodeBuilder (found %s)" % sorted(ded5))
    for f5, v5, sp5, ok5 in rows5:
        ck.instance("R5.pool-dedupe", "%s builds Constant::%s" % (f5.path, v5), F.short_span(sp5), ok=ok5, nontrivial=v5 in ded5)
        if not ok5:
            ck.finding("R5.pool-dedupe", "R5.pool-dedupe/%s/%s" % (f5.parent if f5.closure else f5.path, v5), F.short_span(sp5),
                       "`%s` appends a Constant::%s to the pool without consulting the de-duplication map for that kind: every occurrence of the literal takes a slot of its own, "
                       "so a chunk with 65 536 occurrences of one number is refused with \"Too many constants\" although each statement is fine alone" % (f5.path, v5))
    ck.note("u16 sentinel comparisons found in: %s" % sorted({u for u, _ in sentinel_users}))
    ck.assume("a bytecode chunk has fewer than 2^32 instructions (usize -> u32 jump offsets)")
    # positive control: guard recognizer on the fixture
    ctl = F.load_fixture()
    res = {(f.path, ok) for f, kind, a, b, root, ok, sp, _st in sites(ctl, scope=("src/lib.rs",)) if kind == "cast" and f.path.startswith("c10::")}
    if ("c10::guarded", True) not in res or ("c10::unguarded", False) not in res:
        ck.closed_fail.append("R1 control failed: %s" % sorted(res))
    return ck.finish()
