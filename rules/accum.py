"""C02 G4e - accumulators across collection points.

A native that gathers values in a local `Vec<JsValue>` while it keeps calling back into script (an iterator's `next()`, a callback) holds, for every
value produced in an earlier turn of the loop, the *only* guaranteed reference: the `Guarded` that came back from the call dies with the turn.  The next
call may allocate and collect, so the objects gathered so far must be guarded for as long as the vector is being filled.

Rule: in a natural loop that contains a may-collect call, a `push` into a local `Vec<JsValue>` of a value that derives from the result of a may-collect call
made in the same loop is accompanied, in that loop, by a `Guard::guard` of an object derived from the same value."""
import facts as F
import mir as M
import loops as L
import hazards as H
from c09 import ancestors
import exits as E


def rule(fx, scope, vec_ty="Vec<value::JsValue>", guard_suffix="Guard::<T>::guard"):
    """[(fn, span, ok, producer)]"""
    gc = H.may_gc(fx) | H.calls_fnptr(fx)
    out = []
    for p, f in sorted(fx.fns.items()):
        if f.derived or not scope(f):
            continue
        calls = list(f.calls())
        if not calls:
            continue
        for hd, body in L.natural_loops(f):
            hot = {}   # result local -> callee for may-collect calls in the loop
            for bi, t in calls:
                if bi in body:
                    d = t[1].get("d")
                    g = fx.fns.get(d) if d else None
                    callee_parent = (g.parent if g is not None and g.closure else d)
                    # a creator that is handed a guard (`create_array_from(&guard, ..)`) roots what it returns in that guard
                    takes_guard = any(a[0] in ("c", "m") and "gc::Guard<" in fx.tys(f.locals[a[1][0]]) for a in t[2])
                    if ("ptr" in t[1] or callee_parent in gc) and not t[3][1] and not takes_guard:
                        hot[t[3][0]] = d or "fn pointer"
            if not hot:
                continue
            guards = [(bi, t) for bi, t in calls if bi in body and (t[1].get("d") or "").endswith(guard_suffix) and len(t[2]) >= 2 and t[2][1][0] in ("c", "m")]
            for bi, t in calls:
                if bi not in body or not (t[1].get("d") or "").endswith("Vec::<T, A>::push") or len(t[2]) < 2 or t[2][0][0] not in ("c", "m"):
                    continue
                recv = t[2][0][1][0]
                if E.field_of_ref(f, recv) is not None:
                    continue        # a vector inside a structure
                base = None
                for l in ancestors(f, recv):
                    if vec_ty in fx.tys(f.locals[l]).replace("std::vec::", "") and not fx.tys(f.locals[l]).startswith("&"):
                        base = l
                if base is None or (1 <= base <= f.argc):
                    continue
                item = t[2][1]
                if item[0] not in ("c", "m"):
                    continue
                ia = ancestors(f, item[1][0])
                prod = [hot[l] for l in ia if l in hot]
                if not prod:
                    continue
                ok = any(ancestors(f, gt[2][1][1][0]) & (ia - set(range(1, f.argc + 1))) for gb, gt in guards)
                out.append((f, t[6], ok, prod[0]))
    return out
