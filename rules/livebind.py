"""C09 R9 / C07 R9 - two sibling rules over arms that read a module binding / dispatch a promise handler.

R9 (C09) exported-import-read-through: every arm that serves a `ModuleExportGetter` (the call dispatcher and the property resolver) reads the
binding of the exporting module's environment.  A binding that is itself an import has an empty value slot and an `import_binding` to read
through: an arm that returns `binding.value` without looking at `binding.import_binding` publishes `undefined` for
`import { x } from "./a"; export { x }`.

R9 (C07) finally-passes-settlement-through: a handler that `.finally()` registers on a pending promise must be told apart from a
then-handler, because the dispatcher calls a then-handler with the settled value and resolves the result with what it returns.  The function
that puts one callback value into both `on_fulfilled` and `on_rejected` of a `PromiseHandler` sets a boolean field of the handler to `true`, and
the dispatcher (the function that reads those two fields and calls the callback) switches on that field and, on its true edge, calls the
callback with an empty argument list.
"""
import facts as F
import mir as M
from c09 import ancestors


def export_getter_arms(fx, variant="ModuleExportGetter", jsfn="value::JsFunction", binding="Binding"):
    """[(fn, span, reads value, reads import_binding)] per arm on JsFunction::ModuleExportGetter that reads a Binding"""
    out = []
    for p, f in sorted(fx.fns.items()):
        if f.derived:
            continue
        for bi, en, pl, arms, other, rest in M.enum_switches(fx, f):
            if not str(en).endswith(jsfn.split("::")[-1]) or variant not in arms:
                continue
            tgt = arms[variant]
            region = M.dominated_region(f, tgt) if all(q == bi for q in f.preds()[tgt]) else {tgt}
            rv = ri = False
            sp = None
            for b2, kind, place, spx in M.all_places(f):
                if b2 not in region:
                    continue
                for a_, v_, n_ in F.place_fields(place):
                    if a_.endswith(binding) and n_ == "value" and kind in ("r", "b"):
                        rv = True
                        sp = sp or spx
                    if a_.endswith(binding) and n_ == "import_binding":
                        ri = True
            if rv:
                out.append((f, sp, rv, ri))
    return out


def value_root(f, local, depth=0):
    """the local a value is a copy / clone / `Some(..)` of"""
    if depth > 10:
        return local
    d = f.defs().get(local, [])
    if len(d) != 1:
        return local
    bi, si, rv = d[0]
    if si == "T":
        if (rv[1].get("d") or "").endswith(("::clone", "::cheap_clone")) and rv[2] and rv[2][0][0] in ("c", "m"):
            return value_root(f, rv[2][0][1][0], depth + 1)
        return local
    if rv[0] == "use" and rv[1][0] in ("c", "m") and not rv[1][1][1]:
        return value_root(f, rv[1][1][0], depth + 1)
    if rv[0] == "ref" and rv[2][1] in ([], ["*"]):
        return value_root(f, rv[2][0], depth + 1)
    if rv[0] == "agg" and isinstance(rv[1], dict) and rv[1].get("v") == "Some" and rv[2] and rv[2][0][0] in ("c", "m"):
        return value_root(f, rv[2][0][1][0], depth + 1)
    return local


def finally_sites(fx, scope, handler="PromiseHandler"):
    """(registrations, dispatchers): registrations = [(fn, span, has a bool field set to true)] for aggregates of the handler type whose
    on_fulfilled and on_rejected derive from one callback value; dispatchers = [(fn, span, switches on a bool field of the handler and calls with no arguments there)]"""
    regs, disp = [], []
    for p, f in sorted(fx.fns.items()):
        if f.derived or not scope(f):
            continue
        for bi, bl in enumerate(f.blocks):
            for s in bl["s"]:
                if not (s[0] == "a" and s[2][0] == "agg" and isinstance(s[2][1], dict) and str(s[2][1].get("p", "")).endswith(handler) and s[2][1].get("fields")):
                    continue
                ops = dict(zip(s[2][1]["fields"], s[2][2]))
                a, b = ops.get("on_fulfilled"), ops.get("on_rejected")
                if not a or not b or a[0] not in ("c", "m") or b[0] not in ("c", "m"):
                    continue
                # the same callback value on both sides: both operands are (clones of) one local, wrapped in Some
                if value_root(f, a[1][0]) != value_root(f, b[1][0]):
                    continue
                flagged = any(fx.tys(fx.adts[s[2][1]["p"]]["variants"][0]["fields"][i]["ty"]) == "bool" and M.const_int(o) == 1
                              for i, o in enumerate(s[2][2])) if s[2][1]["p"] in fx.adts else False
                regs.append((f, s[3], flagged))
        # dispatcher: reads both callback fields of a handler and calls a function value
        reads = set()
        for b2, kind, place, spx in M.all_places(f):
            for a_, v_, n_ in F.place_fields(place):
                if a_.endswith(handler):
                    reads.add(n_)
        if {"on_fulfilled", "on_rejected"} <= reads and any((t[1].get("d") or "").endswith("::call_function") for _, t in f.calls()):
            ok = False
            for bi, bl in enumerate(f.blocks):
                t = bl["t"]
                if t[0] != "switch" or t[1][0] not in ("c", "m"):
                    continue
                fl = [x for x in F.place_fields(t[1][1]) if x[0].endswith(handler)]
                src_bool = bool(fl)
                if not src_bool and not t[1][1][1]:
                    d0 = M.trace_back(f, t[1][1][0])
                    if d0 and d0[1] != "T" and d0[2][0] == "use" and d0[2][1][0] in ("c", "m"):
                        src_bool = any(x[0].endswith(handler) and "fulfilled" not in x[2] for x in F.place_fields(d0[2][1][1])) and fx.tys(f.locals[t[1][1][0]]) == "bool"
                if not src_bool:
                    continue
                true_t = t[3]
                region = M.dominated_region(f, true_t)
                for b2, t2 in f.calls():
                    if b2 in region and (t2[1].get("d") or "").endswith("::call_function") and len(t2[2]) >= 4:
                        # the argument slice is empty: a reference to a zero-length array
                        a3 = t2[2][3]
                        if a3[0] in ("c", "m"):
                            for l in ancestors(f, a3[1][0]):
                                if "; 0]" in fx.tys(f.locals[l]):
                                    ok = True
                        elif a3[0] == "k":
                            ok = True
            disp.append((f, f.span, ok))
    return regs, disp
