"""C17 R2: agreement between examples/c-embedding/tsrun.h and the extern "C" facts."""
import os
import re

import facts as F

PRIM_C = {"char": "char", "void": "void", "bool": "bool", "double": "f64", "float": "f32", "size_t": "usize",
          "uint64_t": "u64", "int64_t": "i64", "uint32_t": "u32", "int32_t": "i32", "int": "i32", "unsigned": "u32",
          "uint8_t": "u8", "int8_t": "i8", "uint16_t": "u16", "int16_t": "i16", "ptrdiff_t": "isize", "intptr_t": "isize",
          "ssize_t": "isize", "uintptr_t": "usize", "long": "i64"}
PRIM_R = {"i8": "char", "u8": "u8", "std::ffi::c_void": "void", "core::ffi::c_void": "void", "()": "void"}


def strip(src):
    src = re.sub(r"/\*.*?\*/", " ", src, flags=re.S)
    src = re.sub(r"//[^\n]*", " ", src)
    src = re.sub(r"^\s*#[^\n]*", " ", src, flags=re.M)
    src = src.replace('extern "C" {', " ")
    return src


def split_params(s):
    out, depth, cur = [], 0, ""
    for ch in s:
        if ch == "(":
            depth += 1
        elif ch == ")":
            depth -= 1
        if ch == "," and depth == 0:
            out.append(cur.strip())
            cur = ""
        else:
            cur += ch
    if cur.strip():
        out.append(cur.strip())
    return out


class Header:
    def __init__(self, path):
        self.path = path
        src = strip(open(path).read())
        self.typedefs = {}   # name -> canonical type
        self.structs = {}    # name -> [(canon type, field name)]
        self.enums = {}      # name -> [(variant, value)]
        self.fnptrs = {}     # name -> canonical fnptr string
        self.fns = {}        # name -> (ret canon, [param canon])
        self.opaque = set()
        # function pointer typedefs
        for m in re.finditer(r"typedef\s+([^;(]+?)\(\s*\*\s*(\w+)\s*\)\s*\(([^;]*?)\)\s*;", src, re.S):
            self.fnptrs[m.group(2)] = (m.group(1).strip(), m.group(3))
        src2 = re.sub(r"typedef\s+[^;(]+?\(\s*\*\s*\w+\s*\)\s*\([^;]*?\)\s*;", " ", src, flags=re.S)
        for m in re.finditer(r"typedef\s+struct\s+(\w+)\s+(\w+)\s*;", src2):
            self.opaque.add(m.group(2))
        src2 = re.sub(r"typedef\s+struct\s+\w+\s+\w+\s*;", " ", src2)
        for m in re.finditer(r"typedef\s+struct\s*(\w*)\s*\{(.*?)\}\s*(\w+)\s*;", src2, re.S):
            fields = []
            body = m.group(2)
            for fm in re.finditer(r"([^;{}]+?)\(\s*\*\s*(\w+)\s*\)\s*\(([^;]*?)\)\s*;|([^;{}]+);", body, re.S):
                if fm.group(2):
                    fields.append((("fnptr", fm.group(1).strip(), fm.group(3)), fm.group(2)))
                else:
                    decl = fm.group(4).strip()
                    if not decl:
                        continue
                    mm = re.match(r"(.*?)(\w+)$", decl, re.S)
                    fields.append((mm.group(1).strip(), mm.group(2)))
            self.structs[m.group(3)] = fields
        src2 = re.sub(r"typedef\s+struct\s*\w*\s*\{.*?\}\s*\w+\s*;", " ", src2, flags=re.S)
        for m in re.finditer(r"typedef\s+enum\s*\w*\s*\{(.*?)\}\s*(\w+)\s*;", src2, re.S):
            vs, cur = [], -1
            for item in m.group(1).split(","):
                item = item.strip()
                if not item:
                    continue
                if "=" in item:
                    n, v = item.split("=")
                    cur = int(v.strip(), 0)
                    vs.append((n.strip(), cur))
                else:
                    cur += 1
                    vs.append((item, cur))
            self.enums[m.group(2)] = vs
        src2 = re.sub(r"typedef\s+enum\s*\w*\s*\{.*?\}\s*\w+\s*;", " ", src2, flags=re.S)
        for m in re.finditer(r"typedef\s+([\w\s\*]+?)\s+(\w+)\s*;", src2):
            self.typedefs[m.group(2)] = m.group(1).strip()
        src2 = re.sub(r"typedef\s+[\w\s\*]+?\s+\w+\s*;", " ", src2)
        for m in re.finditer(r"([\w\s\*]+?)\b(\w+)\s*\(([^;{}]*?)\)\s*;", src2, re.S):
            ret, name, params = m.group(1).strip(), m.group(2), m.group(3)
            if not ret or name in ("defined",):
                continue
            ps = [] if params.strip() in ("void", "") else split_params(params)
            self.fns[name] = (ret, ps)

    # ---- canonical types
    def canon(self, t):
        """C type text (optionally followed by a parameter name) -> canonical string"""
        if isinstance(t, tuple) and t[0] == "fnptr":
            return self.canon_fnptr(t[1], t[2])
        t = t.strip()
        t = re.sub(r"\s+", " ", t)
        stars = t.count("*")
        base = t.replace("*", " ").split()
        const_first = False
        words = []
        for w in base:
            if w == "const":
                if not words:
                    const_first = True
                continue
            if w in ("struct", "enum", "unsigned", "signed") and w != "unsigned":
                continue
            words.append(w)
        # drop a trailing parameter name
        if len(words) > 1:
            words = words[:-1] if words[-1] not in PRIM_C and words[-1] not in self.structs and words[-1] not in self.enums \
                and words[-1] not in self.opaque and words[-1] not in self.typedefs and words[-1] not in self.fnptrs else words
        b = words[0] if words else "void"
        if b in self.fnptrs and stars == 0:
            return self.canon_fnptr(*self.fnptrs[b])
        if b in self.typedefs:
            inner = self.canon(self.typedefs[b])
            b = inner
        else:
            b = PRIM_C.get(b, b)
        out = b
        for i in range(stars):
            # innermost pointer constness comes from a leading const
            c = "const" if (i == 0 and const_first) else "mut"
            out = "*%s %s" % (c, out)
        return out

    def canon_fnptr(self, ret, params):
        ps = [] if params.strip() in ("void", "") else [self.canon(p) for p in split_params(params)]
        return "fn(%s)->%s" % (",".join(ps), self.canon(ret))


def canon_rust(fx, ti):
    t = fx.ty(ti)
    k = t["k"]
    if k == "ptr":
        return "*%s %s" % ("mut" if t["m"] else "const", canon_rust(fx, t["t"]))
    if k == "adt":
        if t["p"] in ("std::option::Option", "core::option::Option") and t["a"]:
            inner = fx.ty(t["a"][0])
            if inner["k"] == "fnptr":
                return canon_rust(fx, t["a"][0])
        return t["p"].split("::")[-1] if t["p"].split("::")[-1] != "c_void" else "void"
    if k == "fnptr":
        a = [canon_rust(fx, x) for x in t["a"]]
        return "fn(%s)->%s" % (",".join(a[:-1]), a[-1])
    if k == "tuple" and not t["a"]:
        return "void"
    s = t["s"]
    return PRIM_R.get(s, s)


def compare(fx, hdr):
    """yield (kind, name, ok, message)"""
    ext = {f.path.split("::")[-1]: f for f in fx.fns.values() if f.abi.startswith("C") and not f.closure and f.no_mangle}
    for name in sorted(set(ext) | set(hdr.fns)):
        f = ext.get(name)
        h = hdr.fns.get(name)
        if f is None:
            yield "fn", name, False, "declared in tsrun.h but not exported by the library"
            continue
        if h is None:
            yield "fn", name, False, "exported by the library but missing from tsrun.h"
            continue
        rp = [canon_rust(fx, t) for t in f.sig[:-1]]
        rr = canon_rust(fx, f.sig[-1])
        cp = [hdr.canon(p) for p in h[1]]
        cr = hdr.canon(h[0])
        if rp == cp and rr == cr:
            yield "fn", name, True, "%s(%s)->%s" % (name, ",".join(cp), cr)
        elif rr == "void" and rp and rp[0] == "*mut " + cr and rp[1:] == cp and cr in hdr.structs:
            yield "fn-sret", name, True, "C returns %s by value; Rust takes the hidden out-pointer first (x86-64 SysV/Win64 sret)" % cr
        else:
            yield "fn", name, False, "signature differs: header (%s)->%s, library (%s)->%s" % (",".join(cp), cr, ",".join(rp), rr)
    radts = {p.split("::")[-1]: a for p, a in fx.adts.items() if p.startswith("ffi") and (a["repr_c"] or a["repr_int"])}
    for name in sorted(set(radts) | set(hdr.structs) | set(hdr.enums)):
        a = radts.get(name)
        if a is None:
            yield "type", name, False, "declared in tsrun.h but no #[repr(C)] type of that name exists in src/ffi"
            continue
        if a["kind"] == "struct":
            hs = hdr.structs.get(name)
            if hs is None:
                yield "type", name, False, "#[repr(C)] struct missing from tsrun.h"
                continue
            rf = [(canon_rust(fx, x["ty"]), x["name"]) for x in a["variants"][0]["fields"]]
            cf = [(hdr.canon(t), n) for t, n in hs]
            ok = rf == cf
            yield "struct", name, ok, ("fields agree (%d)" % len(rf)) if ok else "field lists differ: header %s, library %s" % (cf, rf)
        else:
            he = hdr.enums.get(name)
            if he is None:
                yield "type", name, False, "#[repr] enum missing from tsrun.h"
                continue
            rv = [int(v["discr"]) for v in a["variants"]]
            cv = [v for _, v in he]
            rn = [re.sub(r"[^a-z0-9]", "", v["name"].lower()) for v in a["variants"]]
            cn = [re.sub(r"[^a-z0-9]", "", n.lower()) for n, _ in he]
            ok = rv == cv and all(c.endswith(r) for r, c in zip(rn, cn))
            yield "enum", name, ok, ("discriminants agree (%d)" % len(rv)) if ok else "enum differs: header %s, library %s" % (he, list(zip([v["name"] for v in a["variants"]], rv)))
